"""MiniProto generator shared by C01 / C02 (family `miniproto`, models coq/Model/{MiniProto,Lower,Validate}.v).

  * valid programs: 1-4 files, packages, plain / public imports, nested messages, enums with aliases,
    oneofs, maps, groups, proto3 optional, extension ranges, reserved ranges / names, extensions,
    services, json_name / default pseudo-options
  * identifier shapes (C02): `shape_ids` / `shape_sets` enumerate identifiers and put each wherever a descriptor entry is
    derived from a name; `Gen(idshapes=True)` uses such names in whole programs (off by default, stream untouched)
  * near-valid mutants: one rule broken (or moved to the legal side of its boundary) at a time
  * rendering to .proto text with randomised layout, number and string spellings
  * translation of the source AST and of the observed descriptors into Coq terms

The source AST is the JSON form that `vh miniproto parse` produces, so generated programs and the
repository's golden files go through the same translation."""
import copy

SCALARS = ["double", "float", "int64", "uint64", "int32", "fixed64", "fixed32", "bool", "string", "bytes",
           "uint32", "sfixed32", "sfixed64", "sint32", "sint64"]
SCALAR_COQ = {"double": "SDouble", "float": "SFloat", "int64": "SInt64", "uint64": "SUint64", "int32": "SInt32",
              "fixed64": "SFixed64", "fixed32": "SFixed32", "bool": "SBool", "string": "SString", "bytes": "SBytes",
              "uint32": "SUint32", "sfixed32": "SSfixed32", "sfixed64": "SSfixed64", "sint32": "SSint32",
              "sint64": "SSint64"}
TYPE_NUM = {1: "SDouble", 2: "SFloat", 3: "SInt64", 4: "SUint64", 5: "SInt32", 6: "SFixed64", 7: "SFixed32", 8: "SBool",
            9: "SString", 12: "SBytes", 13: "SUint32", 15: "SSfixed32", 16: "SSfixed64", 17: "SSint32", 18: "SSint64"}
MAP_KEYS = ["int32", "int64", "uint32", "uint64", "sint32", "sint64", "fixed32", "fixed64", "sfixed32", "sfixed64",
            "bool", "string"]
INT_KINDS = {"int32": (-2**31, 2**31 - 1), "sint32": (-2**31, 2**31 - 1), "sfixed32": (-2**31, 2**31 - 1),
             "uint32": (0, 2**32 - 1), "fixed32": (0, 2**32 - 1),
             "int64": (-2**63, 2**63 - 1), "sint64": (-2**63, 2**63 - 1), "sfixed64": (-2**63, 2**63 - 1),
             "uint64": (0, 2**64 - 1), "fixed64": (0, 2**64 - 1)}
FIELD_MAX = 2**29 - 1

# error classes: harness text class -> constructor of MiniProto.ecls
CLS = {
    "tag-zero": "ETagZero", "tag-too-high": "ETagTooHigh", "tag-19000": "ETag19000",
    "range-start-oor": "ERangeStartOOR", "range-end-oor": "ERangeEndOOR", "range-order": "ERangeOrder",
    "enum-value-oor": "EEnumValueOOR", "group-lower": "EGroupLower", "oneof-empty": "EOneofEmpty",
    "extend-empty": "EExtendEmpty", "reserved-name-form": "EReservedNameForm", "reserved-name-dup": "EReservedNameDup",
    "depth": "EDepth", "msgset-proto3": "EMsgsetProto3", "msgset-fields": "EMsgsetFields",
    "msgset-no-range": "EMsgsetNoRange", "msgset-not-bool": "EMsgsetNotBool", "msgset-scalar-ext": "EMsgsetScalarExt",
    "msgset-repeated-ext": "EMsgsetRepeatedExt", "option-repeated": "EOptionRepeated", "import-dup": "EImportDup",
    "proto3-ext-range": "EProto3ExtRange", "msg-reserved-overlap": "EMsgReservedOverlap",
    "enum-reserved-overlap": "EEnumReservedOverlap", "ext-overlap": "EExtOverlap",
    "ext-reserved-overlap": "EExtReservedOverlap", "reserved-name-invalid": "EReservedNameInvalid",
    "field-reserved-name": "EFieldReservedName", "value-reserved-name": "EValueReservedName", "dup-tag": "EDupTag",
    "in-reserved-range": "EInReservedRange", "tag-in-ext-range": "ETagInExtRange", "enum-empty": "EEnumEmpty",
    "alias-not-bool": "EAliasNotBool", "enum-first-zero": "EEnumFirstZero", "enum-dup-number": "EEnumDupNumber",
    "alias-unused": "EAliasUnused", "group-not-proto2": "EGroupNotProto2", "required-not-proto2": "ERequiredNotProto2",
    "optional-in-editions": "EOptionalInEditions", "default-in-proto3": "EDefaultInProto3",
    "label-missing": "ELabelMissing", "ext-required": "EExtRequired", "symbol-dup": "ESymbolDup",
    "extendee-unknown": "EExtendeeUnknown", "extendee-not-message": "EExtendeeNotMessage",
    "type-unknown": "ETypeUnknown", "type-not-type": "ETypeNotType", "method-type-unknown": "EMethodTypeUnknown",
    "method-type-not-message": "EMethodTypeNotMessage", "ext-tag-not-in-range": "EExtTagNotInRange",
    "proto3-extend": "EProto3Extend", "map-entry-ref": "EMapEntryRef", "json-name-ext": "EJsonNameExt",
    "json-name-brackets": "EJsonNameBrackets", "json-name-not-string": "EJsonNameNotString",
    "default-repeated": "EDefaultRepeated", "default-message": "EDefaultMessage",
    "default-bad-value": "EDefaultBadValue", "json-conflict": "EJsonConflict",
    "enum-json-conflict": "EEnumJsonConflict", "closed-enum-implicit": "EClosedEnumImplicit",
    "default-implicit": "EDefaultImplicit", "map-enum-first-zero": "EMapEnumFirstZero",
    "extdecl-reserved": "EExtDeclReserved", "extdecl-name": "EExtDeclName", "extdecl-type": "EExtDeclType",
    "extdecl-repeated": "EExtDeclRepeated", "extdecl-missing": "EExtDeclMissing", "extdecl-bad": "EExtDeclBad",
}


# ---------------------------------------------------------------- Coq terms
def clist(xs):
    """explicit cons / nil: coqc elaborates it about three times faster than the bracket notation"""
    return "".join("(cons %s " % x for x in xs) + "nil" + ")" * len(xs) if xs else "nil"


def cbytes(b):
    """a byte string as a term of type MiniProto.name (the case files open N_scope)"""
    if isinstance(b, str):
        b = b.encode("latin-1")
    return clist([str(c) for c in b])


def cz(z):
    z = int(z)
    return "Z0" if z == 0 else ("(Zneg %d)" % -z if z < 0 else "(Zpos %d)" % z)


def cbool(b):
    return "true" if b else "false"


def cpair(a, b):
    return "(pair %s %s)" % (a, b)


def copt(x):
    return "None" if x is None else "(Some %s)" % x


def coq_oval(v):
    t = v.get("t")
    if t == "ident":
        return "(VIdent %s)" % cbytes(v["v"])
    if t == "uint":
        return "(VUint %s)" % cz(v["v"])
    if t == "nint":
        return "(VNint %s)" % cz(v["v"])
    if t == "str":
        return "(VStr %s)" % cbytes(bytes.fromhex(v["v"]))
    return "VOther"


def coq_fopts(opts):
    return clist([cpair("OJsonName" if o["name"] == "json_name" else "ODefault", coq_oval(o["val"])) for o in opts])


def coq_ftype(t):
    return "(TScalar %s)" % SCALAR_COQ[t] if t in SCALAR_COQ else "(TNamed %s)" % cbytes(t)


LABEL = {"": "LNone", "optional": "LOptional", "required": "LRequired", "repeated": "LRepeated"}


def coq_ranges(rs):
    return clist(["(mkRange %s %s %s)" % (cz(r["s"]), copt(None if r["e"] is None else cz(r["e"])), cbool(r["max"])) for r in rs])


def coq_names_hex(xs):
    return clist([cbytes(bytes.fromhex(x)) for x in xs])


def coq_fdecl(f):
    return "(FDecl %s %s %s %s %s)" % (LABEL[f["label"]], coq_ftype(f["type"]), cbytes(f["name"]), cz(f["num"]), coq_fopts(f["opts"]))


def coq_edecl(e):
    els = []
    for x in e["elems"]:
        k = x["k"]
        if k == "value":
            els.append("(EValue %s %s)" % (cbytes(x["name"]), cz(x["num"])))
        elif k == "option":
            els.append("(EAllowAlias %s)" % coq_oval(x["val"]))
        elif k == "reserved":
            els.append("(EReserved %s)" % coq_ranges(x["ranges"]))
        elif k == "reserved_names":
            els.append("(EReservedNames %s %s)" % (coq_names_hex(x["names"]), coq_names_hex(x["idents"])))
    return "(EDecl %s %s)" % (cbytes(e["name"]), clist(els))


def coq_melem(e):
    k = e["k"]
    if k == "field":
        return "(MField %s)" % coq_fdecl(e)
    if k == "map":
        return "(MMap %s %s %s %s %s)" % (SCALAR_COQ[e["key"]], coq_ftype(e["val"]), cbytes(e["name"]), cz(e["num"]), coq_fopts(e["opts"]))
    if k == "group":
        return "(MGroup %s %s %s %s)" % (LABEL[e["label"]], cbytes(e["name"]), cz(e["num"]), clist([coq_melem(x) for x in e["body"]]))
    if k == "oneof":
        return "(MOneof %s %s)" % (cbytes(e["name"]), clist([coq_melem(x) for x in e["elems"]]))
    if k == "message":
        return "(MMessage %s %s)" % (cbytes(e["name"]), clist([coq_melem(x) for x in e["body"]]))
    if k == "enum":
        return "(MEnum %s)" % coq_edecl(e)
    if k == "extend":
        return "(MExtend %s %s)" % (cbytes(e["extendee"]), clist([coq_melem(x) for x in e["elems"]]))
    if k == "extensions":
        xo = e.get("xopts")
        if xo is None:
            return "(MExtensions %s)" % coq_ranges(e["ranges"])
        ver = {None: "None", "DECLARATION": "(Some true)", "UNVERIFIED": "(Some false)"}[xo["verification"]]
        decls = ["(mkXDecl %s %s %s %s %s)" % (copt(None if d["number"] is None else cz(d["number"])),
                                             copt(None if d["full_name"] is None else cbytes(bytes.fromhex(d["full_name"]))),
                                             copt(None if d["type"] is None else cbytes(bytes.fromhex(d["type"]))),
                                             cbool(d["reserved"]), cbool(d["repeated"])) for d in xo["decls"]]
        return "(MExtensionsOpt %s (mkXOpts %s %s))" % (coq_ranges(e["ranges"]), ver, clist(decls))
    if k == "reserved":
        return "(MReserved %s)" % coq_ranges(e["ranges"])
    if k == "reserved_names":
        return "(MReservedNames %s %s)" % (coq_names_hex(e["names"]), coq_names_hex(e["idents"]))
    if k == "option":
        return "(MMsgSet %s)" % coq_oval(e["val"])
    raise ValueError(k)


def coq_file(f):
    syn = {"proto2": "Proto2", "": "Proto2", "proto3": "Proto3", "editions": "Editions"}[f["syntax"]]
    decls = []
    for d in f["decls"]:
        if d["k"] == "service":
            ms = ["(mkRpc %s %s %s %s %s)" % (cbytes(m["name"]), cbytes(m["in"]), cbytes(m["out"]), cbool(m["cs"]), cbool(m["ss"]))
                  for m in d["methods"]]
            decls.append("(TService %s %s)" % (cbytes(d["name"]), clist(ms)))
        else:
            decls.append("(TElem %s)" % coq_melem(d))
    imps = [cpair(cbytes(i["path"]), {"": "ImpPlain", "public": "ImpPublic", "weak": "ImpWeak"}[i["kind"]])
            for i in f["imports"]]
    return "(mkSFile %s %s %s %s %s %s)" % (cbytes(f["name"]), syn, cbool(f["syntax"] != ""),
                                             copt(None if f["package"] is None else cbytes(f["package"])),
                                             clist(imps), clist(decls))


def fits_model(f):
    """reasons why a parsed file cannot be expressed in the Coq source AST"""
    bad = []
    if f["syntax"] == "editions" and f.get("edition") != "2023":
        bad.append("edition " + str(f.get("edition")))
    if f["syntax"] not in ("", "proto2", "proto3", "editions"):
        bad.append("syntax value")
    for i in f["imports"]:
        if i["kind"] not in ("", "public", "weak"):
            bad.append("import " + i["kind"])

    pkg = f.get("package")
    if pkg is not None and (len(pkg) >= 512 or pkg.count(".") > 100):
        bad.append("package name limits")

    def walk(e):
        k = e["k"]
        if k in ("field", "map", "group") and e.get("num") is None:
            bad.append("missing tag")
        if k == "map" and e["key"] not in SCALAR_COQ:
            bad.append("map key")
        if k in ("field", "map"):
            for o in e.get("opts", []):
                if o["val"]["t"] in ("float", "other"):
                    bad.append("option value kind")
                if o["name"] == "default" and e.get("type") in ("float", "double"):
                    bad.append("float default")
        for x in e.get("body", []) + e.get("elems", []):
            if isinstance(x, dict) and "k" in x and x["k"] not in ("value",):
                walk(x)
    for d in f["decls"]:
        if d["k"] != "service":
            walk(d)
    return bad


# ---- observed descriptors (projection of the harness) as Coq terms
def coq_obs_field(f):
    t = f["type"]
    if not f["has_type"]:
        ty = "None"
    elif t in TYPE_NUM:
        ty = "(Some (DScalar %s))" % TYPE_NUM[t]
    else:
        ty = "(Some %s)" % {10: "DGroup", 11: "DMessage", 14: "DEnum"}[t]
    lbl = "None" if not f["has_label"] else "(Some %s)" % {1: "DOptional", 2: "DRequired", 3: "DRepeated"}[f["label"]]
    return "(mkDField %s %s %s %s %s %s %s %s %s %s nil FromField)" % (
        cbytes(f["name"]), cz(f["number"]), lbl, ty,
        copt(cbytes(f["type_name"]) if f["has_type_name"] else None),
        copt(cbytes(f["extendee"]) if f["has_extendee"] else None),
        cbytes(f["json_name"]),
        "None" if f["oneof_index"] < 0 else "(Some %d%%nat)" % f["oneof_index"],
        cbool(f["proto3_optional"]),
        copt(cbytes(bytes.fromhex(f["default"])) if f["has_default"] else None))


def coq_pairs(ps):
    return clist([cpair(cz(a), cz(b)) for a, b in ps])


def coq_obs_enum(e):
    return "(mkDEnum %s %s %s %s %s)" % (
        cbytes(e["name"]), clist([cpair(cbytes(n), cz(v)) for n, v in e["values"]]),
        clist(["(VIdent %s)" % cbytes("true")]) if e["allow_alias"] else "nil",
        coq_pairs(e["reserved_ranges"]), clist([cbytes(n) for n in e["reserved_names"]]))


def coq_obs_msg(m):
    return "(DMsg %s %s %s %s %s %s %s %s %s %s %s)" % (
        cbytes(m["name"]), clist([coq_obs_field(f) for f in m["fields"]]), clist([coq_obs_msg(n) for n in m["nested"]]),
        clist([coq_obs_enum(e) for e in m["enums"]]), clist([coq_obs_field(f) for f in m["extensions"]]),
        clist([cbytes(o) for o in m["oneofs"]]), coq_pairs(m["ext_ranges"]), coq_pairs(m["reserved_ranges"]),
        clist([cbytes(n) for n in m["reserved_names"]]), cbool(m["map_entry"]), cbool(m["msgset"]))


def coq_obs_file(fd):
    syn = {"": "Proto2", "proto2": "Proto2", "proto3": "Proto3", "editions": "Editions"}[fd["syntax"]]
    svcs = ["(mkDService %s %s)" % (cbytes(s["name"]), clist(
        ["(mkRpc %s %s %s %s %s)" % (cbytes(m["name"]), cbytes(m["in"]), cbytes(m["out"]), cbool(m["cs"]), cbool(m["ss"]))
         for m in s["methods"]])) for s in fd["services"]]
    return "(mkDFile %s %s %s %s %s %s %s %s %s %s)" % (
        cbytes(fd["name"]), copt(cbytes(fd["package"]) if fd["has_package"] else None), syn,
        clist([cbytes(d) for d in fd["deps"]]),
        clist(["%d%%nat" % i for i in fd["public"]]), clist(["%d%%nat" % i for i in fd["weak"]]),
        clist([coq_obs_msg(m) for m in fd["messages"]]), clist([coq_obs_enum(e) for e in fd["enums"]]),
        clist([coq_obs_field(f) for f in fd["extensions"]]), clist(svcs))


# ---------------------------------------------------------------- rendering
class Renderer:
    def __init__(self, rng, plain=False):
        self.rng, self.plain = rng, plain

    def sep(self):
        r = self.rng
        if self.plain:
            return " "
        k = r.below(20)
        if k < 12:
            return " "
        if k < 15:
            return "\n" + " " * r.below(5)
        if k == 15:
            return "\t"
        if k == 16:
            return " /* c%d */ " % r.below(9)
        if k == 17:
            return " // n%d\n" % r.below(9)
        return "  "

    def num(self, z):
        z = int(z)
        r = self.rng
        neg = z < 0
        a = -z if neg else z
        k = 0 if self.plain else r.below(8)
        if k == 0 and a > 0:
            s = "0x%X" % a
        elif k == 1 and a > 0:
            s = "0%o" % a
        else:
            s = str(a)
        return ("-" + s) if neg else s

    def string(self, b):
        q = '"' if (self.plain or self.rng.chance(2, 3)) else "'"
        out = []
        for c in b:
            ch = chr(c)
            if ch == q or ch == "\\":
                out.append("\\" + ch)
            elif 32 <= c < 127 and (self.plain or self.rng.chance(9, 10)):
                out.append(ch)
            else:
                out.append("\\%03o" % c if self.rng.chance(1, 2) else "\\x%02x" % c)
        return q + "".join(out) + q

    def val(self, v):
        t = v["t"]
        if t == "ident":
            return [v["v"]]
        if t in ("uint", "nint"):
            return [self.num(v["v"])]
        if t == "str":
            return [self.string(bytes.fromhex(v["v"]))]
        return ["{", "}"]

    def opts(self, opts):
        if not opts:
            return []
        toks = ["["]
        for i, o in enumerate(opts):
            if i:
                toks.append(",")
            toks += [o["name"], "="] + self.val(o["val"])
        return toks + ["]"]

    def xopts(self, xo):
        if xo is None:
            return []
        items = []
        if xo["verification"] is not None:
            items.append(["verification", "=", xo["verification"]])
        for d in xo["decls"]:
            t = ["declaration", "=", "{"]
            if d["number"] is not None:
                t += ["number", ":", self.num(d["number"])]
            if d["full_name"] is not None:
                t += ["full_name", ":", self.string(bytes.fromhex(d["full_name"]))]
            if d["type"] is not None:
                t += ["type", ":", self.string(bytes.fromhex(d["type"]))]
            if d["reserved"]:
                t += ["reserved", ":", "true"]
            if d["repeated"]:
                t += ["repeated", ":", "true"]
            items.append(t + ["}"])
        if not items:
            return []
        toks = ["["]
        for i, it in enumerate(items):
            if i:
                toks.append(",")
            toks += it
        return toks + ["]"]

    def ranges(self, rs):
        toks = []
        for i, r in enumerate(rs):
            if i:
                toks.append(",")
            toks.append(self.num(r["s"]))
            if r["max"]:
                toks += ["to", "max"]
            elif r["e"] is not None:
                toks += ["to", self.num(r["e"])]
        return toks

    def rnames(self, e):
        toks = []
        items = [self.string(bytes.fromhex(n)) for n in e["names"]] + [bytes.fromhex(n).decode("latin-1") for n in e["idents"]]
        for i, s in enumerate(items):
            if i:
                toks.append(",")
            toks.append(s)
        return toks

    def field(self, f):
        return ([f["label"]] if f["label"] else []) + [f["type"], f["name"], "=", self.num(f["num"])] + self.opts(f["opts"]) + [";"]

    def elem(self, e):
        k = e["k"]
        if k == "field":
            return self.field(e)
        if k == "map":
            return ["map", "<", e["key"], ",", e["val"], ">", e["name"], "=", self.num(e["num"])] + self.opts(e["opts"]) + [";"]
        if k == "group":
            return ([e["label"]] if e["label"] else []) + ["group", e["name"], "=", self.num(e["num"]), "{"] + self.body(e["body"]) + ["}"]
        if k == "oneof":
            return ["oneof", e["name"], "{"] + self.body(e["elems"]) + ["}"]
        if k == "message":
            return ["message", e["name"], "{"] + self.body(e["body"]) + ["}"]
        if k == "enum":
            toks = ["enum", e["name"], "{"]
            for x in e["elems"]:
                if x["k"] == "value":
                    toks += [x["name"], "=", self.num(x["num"]), ";"]
                elif x["k"] == "option":
                    toks += ["option", x["name"], "="] + self.val(x["val"]) + [";"]
                elif x["k"] == "reserved":
                    toks += ["reserved"] + self.ranges(x["ranges"]) + [";"]
                else:
                    toks += ["reserved"] + self.rnames(x) + [";"]
            return toks + ["}"]
        if k == "extend":
            return ["extend", e["extendee"], "{"] + self.body(e["elems"]) + ["}"]
        if k == "extensions":
            return ["extensions"] + self.ranges(e["ranges"]) + self.xopts(e.get("xopts")) + [";"]
        if k == "reserved":
            return ["reserved"] + self.ranges(e["ranges"]) + [";"]
        if k == "reserved_names":
            return ["reserved"] + self.rnames(e) + [";"]
        if k == "option":
            return ["option", e["name"], "="] + self.val(e["val"]) + [";"]
        if k == "service":
            toks = ["service", e["name"], "{"]
            for m in e["methods"]:
                toks += ["rpc", m["name"], "("] + (["stream"] if m["cs"] else []) + [m["in"], ")", "returns", "("] + \
                        (["stream"] if m["ss"] else []) + [m["out"], ")", ";"]
            return toks + ["}"]
        raise ValueError(k)

    def body(self, els):
        toks = []
        for e in els:
            toks += self.elem(e)
        return toks

    def file(self, f):
        toks = []
        if f["syntax"] == "editions":
            toks += ["edition", "=", '"%s"' % f.get("edition", "2023"), ";"]
        elif f["syntax"]:
            toks += ["syntax", "=", '"%s"' % f["syntax"], ";"]
        if f["package"] is not None:
            toks += ["package", f["package"], ";"]
        for i in f["imports"]:
            toks += ["import"] + ([i["kind"]] if i["kind"] else []) + ['"%s"' % i["path"], ";"]
        for d in f["decls"]:
            toks += self.elem(d)
        out = []
        for i, t in enumerate(toks):
            out.append(t)
            nxt = toks[i + 1] if i + 1 < len(toks) else ""
            # keep a dotted name in one token; always separate words
            out.append(self.sep())
        return "".join(out) + "\n"


# ---------------------------------------------------------------- valid programs
PKGS = [None, "p", "p.q", "r", "p.q.s", "r.p"]
FIELD_SHAPES = ["f%d", "foo_bar%d", "fooBaz%d", "x_%d", "a%d_b", "Zed%d", "long_field_name_%d", "v%dy"]


# identifier shapes for the name-derived parts of a descriptor (json_name, synthetic oneof names, map entry names,
# group field names): every shape carries the running number, so names stay unique
FIELD_SHAPES_ID = FIELD_SHAPES + ["_f%d", "__f%d", "___f%d", "f%d_", "f%d__", "_f%d_", "a__b%d", "a_%d__c", "_F%d", "__F%d", "X_f%d", "X__f%d",
                                  "XX_f%d", "X%d", "_X%d", "f_%dX", "F%d_9x", "a_B%d", "aB_%d_C", "f%d_9_"]
ONEOF_SHAPES_ID = ["oo", "_oo", "__o", "X_oo", "Oo_", "o__o", "XX_o", "_X_o"]
GROUP_SHAPES_ID = ["G", "Grp_", "GX", "G_x_", "G__", "GRP9_", "X_g", "Xg__y", "G_9_"]


def synth_chain(name, n):
    """the candidates protoc tries for the synthetic oneof of a proto3-optional field: _f (f itself when it starts
    with an underscore), then X_f, XX_f, ..."""
    c = name if name.startswith("_") else "_" + name
    return ["X" * k + c for k in range(n)]


def body_names(body):
    """every name a message body declares in the scope of the message (fields, oneofs and their members, nested types,
    group types and fields, map entries, enums and their values)"""
    out = set()
    for e in body:
        k = e["k"]
        if k in ("field", "map", "message", "enum", "oneof", "group"):
            out.add(e["name"])
        if k == "group":
            out.add(e["name"].lower())
        if k == "map":
            out.add("".join(w[:1].upper() + w[1:] for w in e["name"].split("_")) + "Entry")
        if k == "enum":
            out.update(v["name"] for v in e["elems"] if v["k"] == "value")
        if k in ("oneof", "extend"):
            out |= body_names(e["elems"])
    return out


class Gen:
    """Builds a valid program and records the sites the mutators work on."""

    def __init__(self, rng, small=False, extended=False, idshapes=False):
        self.rng = rng
        # idshapes: field / oneof / group names of every identifier shape (leading, trailing and doubled underscores,
        # digits and capitals after an underscore, names that look like X-prefixed synthetic oneof candidates) and, in
        # proto3 messages, declared names sitting on the candidate chain of a proto3-optional field.  Off by default:
        # with the switch off not one extra draw is made from the random stream.
        self.idshapes = idshapes
        self.small = small         # quick tier: fewer elements per message, nesting depth 2
        # extended: also extension declarations on adjacent ranges, a stand-in descriptor.proto and custom-option
        # extensions nested in messages.  Off by default: other checks (C27) use this generator with the basic
        # feature set, and the random stream of the basic set is left untouched.
        self.extended = extended
        self.n = 0                 # global counter for unique names
        self.files = []
        self.types = []            # {fqn, kind: message|enum, file: index, syntax, extr: [...], first_zero, values}
        self.extnums = {}          # extendee fqn -> set of used numbers

    def uniq(self, prefix):
        self.n += 1
        return "%s%d" % (prefix, self.n)

    # -- helpers
    def visible(self, fi):
        """indices of files visible from file fi: itself, imports, public closure of those"""
        seen, todo = [fi], [(j, False) for j in self.imports_idx[fi]]
        while todo:
            j, _ = todo.pop()
            if j in seen:
                continue
            seen.append(j)
            todo += [(k, True) for k in self.public_idx[j]]
        return seen

    def spell(self, fi, scope, t):
        """a spelling of type t (dict from self.types) inside scope (fqn of enclosing message or package)"""
        r = self.rng
        k = r.below(10)
        fqn = t["fqn"]
        if k < 4:
            return "." + fqn
        if k < 7:
            return fqn
        # relative: strip the longest common dotted prefix with the scope
        sp, fp = scope.split(".") if scope else [], fqn.split(".")
        i = 0
        while i < len(sp) and i < len(fp) - 1 and sp[i] == fp[i]:
            i += 1
        rel = ".".join(fp[i:])
        return rel if rel else fqn

    def pick_type(self, fi, want=None, pred=None):
        vis = self.visible(fi)
        cands = [t for t in self.types if t["file"] in vis and (want is None or t["kind"] == want) and (pred is None or pred(t))]
        return self.rng.choice(cands) if cands else None

    # -- pieces
    def gen_ranges(self, lo, hi, n):
        """n disjoint closed ranges inside [lo, hi], as AST ranges"""
        r = self.rng
        pts = sorted(set(r.range(lo, hi) for _ in range(2 * n)))
        out = []
        for i in range(0, len(pts) - 1, 2):
            s, e = pts[i], pts[i + 1] - 1
            if e < s:
                continue
            if s == e and r.chance(1, 2):
                out.append({"s": s, "e": None, "max": False})
            else:
                out.append({"s": s, "e": e, "max": False})
        return out

    def gen_enum(self, fi, parent_fqn, syntax, top=False):
        r = self.rng
        name = self.uniq("E")
        fqn = (parent_fqn + "." if parent_fqn else "") + name
        elems = []
        nvals = r.range(1, 5)
        nums = []
        first_zero = syntax != "proto2" or r.chance(2, 3)
        for i in range(nvals):
            if i == 0 and first_zero:
                v = 0
            else:
                v = r.choice([r.range(-5, 40), r.range(1, 12), 2**31 - 1 - r.below(3), -2**31 + r.below(3)]) if r.chance(1, 6) else r.range(1, 30)
                while v in nums:
                    v += 1
            nums.append(v)
        alias = nvals >= 2 and r.chance(1, 5)
        vals = [{"k": "value", "name": "%s_V%d" % (name.upper(), i), "num": v} for i, v in enumerate(nums)]
        if alias:
            elems.append({"k": "option", "name": "allow_alias", "val": {"t": "ident", "v": "true"}})
            vals.append({"k": "value", "name": "%s_ALIAS" % name.upper(), "num": nums[r.below(len(nums))]})
        elif r.chance(1, 80):
            # protoc rejects an explicit false (documented divergence): keep it rare in valid programs
            elems.append({"k": "option", "name": "allow_alias", "val": {"t": "ident", "v": "false"}})
        elems += vals
        if r.chance(1, 3) and max(nums) < 2**31 - 200:
            hi = max(nums) + 1
            rs = self.gen_ranges(hi + 1, hi + 40, r.range(1, 3))
            if r.chance(1, 4):
                rs.append({"s": hi + 50, "e": None, "max": True})
            if r.chance(1, 4) and -100 < min(nums):
                rs.append({"s": min(nums) - 9, "e": min(nums) - 1, "max": False})
            if rs:
                elems.append({"k": "reserved", "ranges": r.shuffle(rs)})
        if r.chance(1, 4):
            nm = ["%s_OLD%d" % (name.upper(), i) for i in range(r.range(1, 2))]
            if syntax == "editions":
                elems.append({"k": "reserved_names", "names": [], "idents": [n.encode().hex() for n in nm]})
            else:
                elems.append({"k": "reserved_names", "names": [n.encode().hex() for n in nm], "idents": []})
        self.types.append({"fqn": fqn, "kind": "enum", "file": fi, "syntax": syntax, "first_zero": nums[0] == 0,
                           "values": [v["name"] for v in vals]})
        return {"k": "enum", "name": name, "elems": elems}

    def gen_field_name(self, used_json):
        r = self.rng
        for _ in range(20):
            self.n += 1
            nm = r.choice(FIELD_SHAPES_ID if self.idshapes else FIELD_SHAPES) % self.n
            j = json_name(nm)
            if j not in used_json:
                used_json.add(j)
                return nm
        self.n += 1
        return "f%d" % self.n

    def gen_message(self, fi, parent_fqn, syntax, depth):
        r = self.rng
        name = self.uniq("M")
        fqn = (parent_fqn + "." if parent_fqn else "") + name
        trec = {"fqn": fqn, "kind": "message", "file": fi, "syntax": syntax, "extr": []}
        self.types.append(trec)
        body, used_json, used_nums = [], set(), set()
        # number plan: reserved and extension ranges first
        blocked = []
        rsv, ext = [], []
        if r.chance(1, 3):
            rsv = self.gen_ranges(100, 180, r.range(1, 3))
        if syntax != "proto3" and r.chance(1, 3):
            ext = self.gen_ranges(200, 300, r.range(1, 3))
            if r.chance(1, 3):
                ext.append({"s": 1000, "e": None, "max": True})
        for x in rsv + ext:
            e = FIELD_MAX if x["max"] else (x["s"] if x["e"] is None else x["e"])
            blocked.append((x["s"], e))
        trec["extr"] = [(x["s"], FIELD_MAX if x["max"] else (x["s"] if x["e"] is None else x["e"])) for x in ext]
        adj_cuts = None
        if self.extended and syntax != "proto3" and r.chance(1, 3 if self.small else 4):
            adj_cuts = [600]
            for _ in range(r.range(2, 3)):
                adj_cuts.append(adj_cuts[-1] + r.range(1, 6))
            blocked.append((600, adj_cuts[-1]))

        def fresh_num():
            for _ in range(50):
                v = r.choice([r.range(1, 60), r.range(1, 15), r.range(60, 99), 18999, 20000, FIELD_MAX - r.below(3), r.range(301, 999)]) \
                    if r.chance(1, 8) else r.range(1, 60)
                if v in used_nums or any(a <= v <= b for a, b in blocked) or 19000 <= v <= 19999:
                    continue
                used_nums.add(v)
                return v
            v = max(used_nums | {400}) + 1
            used_nums.add(v)
            return v

        def gen_type(allow_group=False):
            k = r.below(10)
            if k < 5:
                return r.choice(SCALARS)
            t = self.pick_type(fi)
            if t is None:
                return r.choice(SCALARS)
            return ("ref", t)

        def mk_field(in_oneof=False):
            ty = gen_type()
            lbl = ""
            tref = None
            if isinstance(ty, tuple):
                tref = ty[1]
                tyname = self.spell(fi, fqn, tref)
            else:
                tyname = ty
            if not in_oneof:
                if syntax == "proto2":
                    lbl = r.choice(["optional", "optional", "repeated", "required"])
                elif syntax == "proto3":
                    lbl = r.choice(["", "", "repeated", "optional"])
                else:
                    lbl = r.choice(["", "", "repeated"])
            # a proto3 singular field without presence may not use a closed (proto2) enum
            if tref and tref["kind"] == "enum" and tref["syntax"] == "proto2" and syntax == "proto3" and lbl == "" and not in_oneof:
                lbl = "optional"
            nm = self.gen_field_name(used_json)
            opts = []
            if r.chance(1, 8):
                self.n += 1
                j = "j%d" % self.n
                used_json.add(j)
                opts.append({"name": "json_name", "val": {"t": "str", "v": j.encode().hex()}})
            if syntax != "proto3" and lbl != "repeated" and r.chance(1, 5):
                dv = self.gen_default(ty, tref)
                if dv is not None:
                    opts.append({"name": "default", "val": dv})
            return {"k": "field", "label": lbl, "type": tyname, "name": nm, "num": fresh_num(), "opts": r.shuffle(opts)}

        nel = r.range(1, 4 if self.small else 6)
        maxdepth = 2 if self.small else 3
        for _ in range(nel):
            k = r.below(20)
            if k < 10:
                body.append(mk_field())
            elif k < 12:
                vt = gen_type()
                if isinstance(vt, tuple) and vt[1]["kind"] == "enum" and \
                        ((vt[1]["syntax"] == "proto2" and syntax == "proto3") or (not vt[1]["first_zero"] and r.chance(9, 10))):
                    vt = "int32"
                vtn = self.spell(fi, fqn, vt[1]) if isinstance(vt, tuple) else vt
                nm = self.gen_field_name(used_json)
                body.append({"k": "map", "key": r.choice(MAP_KEYS), "val": vtn, "name": nm, "num": fresh_num(), "opts": []})
            elif k < 14:
                els = [mk_field(True) for _ in range(r.range(1, 3))]
                if syntax == "proto2" and depth < maxdepth and r.chance(1, 4):
                    els.append(self.gen_group(fi, fqn, syntax, depth, "", fresh_num, used_json))
                body.append({"k": "oneof", "name": self.uniq(r.choice(ONEOF_SHAPES_ID) if self.idshapes else "oo"), "elems": els})
            elif k < 15 and syntax == "proto2" and depth < maxdepth:
                body.append(self.gen_group(fi, fqn, syntax, depth, r.choice(["optional", "repeated", "required"]), fresh_num, used_json))
            elif k < 17 and depth < maxdepth:
                body.append(self.gen_message(fi, fqn, syntax, depth + 1))
            elif k < 19:
                body.append(self.gen_enum(fi, fqn, syntax))
            else:
                body.append(mk_field())
        if self.idshapes and syntax == "proto3":
            self.synth_blockers(body, used_json, fresh_num)
        if rsv:
            body.insert(r.below(len(body) + 1), {"k": "reserved", "ranges": r.shuffle(rsv)})
        if ext:
            body.insert(r.below(len(body) + 1), {"k": "extensions", "ranges": r.shuffle(ext)})
        if adj_cuts:
            self.gen_declared_ranges(fi, fqn, syntax, trec, body, adj_cuts)
        if r.chance(1, 4):
            nm = [self.uniq("old_") for _ in range(r.range(1, 2))]
            if syntax == "editions":
                body.insert(r.below(len(body) + 1), {"k": "reserved_names", "names": [], "idents": [n.encode().hex() for n in nm]})
            else:
                body.insert(r.below(len(body) + 1), {"k": "reserved_names", "names": [n.encode().hex() for n in nm], "idents": []})
        if syntax != "proto3" and r.chance(1, 5):
            ex = self.gen_extend(fi, fqn, syntax, depth)
            if ex:
                body.append(ex)
        return {"k": "message", "name": name, "body": body}

    def synth_blockers(self, body, used_json, fresh_num):
        """proto3: declared names on the candidate chain (_f, X_f, XX_f, ...) of proto3-optional fields of this
        message: real oneofs, plain fields and further proto3-optional fields, before or after the field"""
        r = self.rng
        taken = body_names(body)
        opts = [e for e in body if e["k"] == "field" and e["label"] == "optional"]
        for f in r.shuffle(opts)[:2]:
            if not r.chance(2, 3):
                continue
            chain = synth_chain(f["name"], 4)
            for nm in chain[:r.range(1, 3)]:
                if nm in taken:
                    continue
                kind = r.below(4)
                j = json_name(nm)
                if kind >= 2 and j in used_json:
                    kind = 0
                taken.add(nm)
                if kind < 2:
                    self.n += 1
                    q = "q%d" % self.n
                    used_json.add(q)
                    taken.add(q)
                    el = {"k": "oneof", "name": nm, "elems": [{"k": "field", "label": "", "type": r.choice(SCALARS), "name": q,
                                                             "num": fresh_num(), "opts": []}]}
                else:
                    used_json.add(j)
                    el = {"k": "field", "label": "optional" if kind == 3 else r.choice(["", "repeated"]), "type": r.choice(SCALARS),
                          "name": nm, "num": fresh_num(), "opts": []}
                body.insert(r.below(len(body) + 1), el)

    def gen_declared_ranges(self, fi, fqn, syntax, trec, body, cuts):
        """two to three ADJACENT extension ranges (600..), each with or without declarations, and a nested extend
        block whose extensions sit on the boundaries and match their declarations"""
        r = self.rng
        ranges = [(cuts[i], cuts[i + 1] - 1) for i in range(len(cuts) - 1)]
        stmts, exts = [], []
        for (a, b) in ranges:
            declared = r.chance(1, 2)
            xo = None
            if declared:
                decls = []
                for n in sorted(set([a, b] + [r.range(a, b) for _ in range(r.range(0, 2))])):
                    if not r.chance(3, 4):
                        continue
                    self.n += 1
                    nm = "xd%d" % self.n
                    ty = r.choice(SCALARS + ["." + fqn])
                    rep = r.chance(1, 4)
                    if r.chance(1, 6):
                        decls.append({"number": n, "full_name": None, "type": None, "reserved": True, "repeated": False})
                        continue
                    decls.append({"number": n, "full_name": ("." + fqn + "." + nm).encode().hex(), "type": ty.encode().hex(),
                                  "reserved": False, "repeated": rep})
                    if r.chance(3, 4):
                        lbl = "repeated" if rep else ("optional" if syntax == "proto2" else "")
                        exts.append({"k": "field", "label": lbl, "type": ty, "name": nm, "num": n, "opts": []})
                xo = {"verification": r.choice(["DECLARATION", None] if decls else ["DECLARATION"]), "decls": decls}
            else:
                if r.chance(1, 4):
                    xo = {"verification": "UNVERIFIED", "decls": []}
                for n in sorted(set([a, b])):
                    if r.chance(1, 2):
                        self.n += 1
                        exts.append({"k": "field", "label": "optional" if syntax == "proto2" else "", "type": r.choice(SCALARS),
                                     "name": "xu%d" % self.n, "num": n, "opts": []})
            st = {"k": "extensions", "adj": True, "ranges": [{"s": a, "e": None if a == b and r.chance(1, 2) else b, "max": False}]}
            if xo is not None:
                st["xopts"] = xo
            stmts.append(st)
            trec["extr"].append((a, b))
            self.extnums.setdefault(fqn, set()).update(range(a, b + 1))     # keep gen_extend away from these ranges
        for st in stmts:          # ascending order in the source, as the ranges of the descriptor
            body.append(st)
        if exts:
            body.append({"k": "extend", "extendee": r.choice(["." + fqn, fqn]), "elems": r.shuffle(exts)})

    def gen_default(self, ty, tref):
        r = self.rng
        if tref is not None:
            if tref["kind"] != "enum":
                return None
            return {"t": "ident", "v": r.choice(tref["values"])}
        if ty in INT_KINDS:
            lo, hi = INT_KINDS[ty]
            v = r.choice([r.range(0, 100), hi, lo, r.range(max(lo, -100), 0), hi - r.below(3)])
            return {"t": "nint", "v": str(v)} if v < 0 else {"t": "uint", "v": str(v)}
        if ty == "bool":
            return {"t": "ident", "v": r.choice(["true", "false"])}
        if ty in ("string", "bytes"):
            n = r.range(0, 6)
            b = bytes(r.choice([65, 97, 48, 32, 34, 39, 92, 10, 9, 0, 127, 200, 255, 63]) if ty == "bytes" else r.choice([65, 97, 48, 32, 34, 39, 92, 63, 122])
                      for _ in range(n))
            return {"t": "str", "v": b.hex()}
        return None

    def gen_group(self, fi, parent_fqn, syntax, depth, lbl, fresh_num, used_json):
        r = self.rng
        name = self.uniq(r.choice(GROUP_SHAPES_ID if self.idshapes else ["G", "Grp_", "GX"]))
        fqn = parent_fqn + "." + name
        used_json.add(json_name(name.lower()))
        self.types.append({"fqn": fqn, "kind": "message", "file": fi, "syntax": syntax, "extr": []})
        sub, uj, un = [], set(), set()
        for _ in range(r.range(0, 2)):
            nm = self.gen_field_name(uj)
            v = r.range(1, 30)
            while v in un:
                v += 1
            un.add(v)
            sub.append({"k": "field", "label": r.choice(["optional", "repeated"]), "type": r.choice(SCALARS), "name": nm, "num": v, "opts": []})
        return {"k": "group", "label": lbl, "name": name, "num": fresh_num(), "body": sub}

    def gen_extend(self, fi, scope_fqn, syntax, depth):
        r = self.rng
        t = self.pick_type(fi, "message", lambda t: t["extr"] and t["syntax"] != "proto3")
        if t is None:
            return None
        els = []
        used = self.extnums.setdefault(t["fqn"], set())
        for _ in range(r.range(1, 3)):
            a, b = r.choice(t["extr"])
            b = min(b, a + 50)
            v = r.range(a, b)
            tries = 0
            while (v in used or 19000 <= v <= 19999) and tries < 20:
                v = r.range(a, b)
                tries += 1
            if v in used:
                continue
            used.add(v)
            ty = r.choice(SCALARS)
            self.n += 1
            lbl = r.choice(["optional", "repeated"]) if syntax == "proto2" else r.choice(["", "repeated"])
            els.append({"k": "field", "label": lbl, "type": ty, "name": "ext%d" % self.n, "num": v, "opts": []})
        if not els:
            return None
        return {"k": "extend", "extendee": self.spell(fi, scope_fqn, t), "elems": els}

    def gen_service(self, fi, pkg):
        r = self.rng
        ms = []
        for _ in range(r.range(1, 3)):
            a = self.pick_type(fi, "message")
            b = self.pick_type(fi, "message")
            if a is None or b is None:
                break
            ms.append({"name": self.uniq("Rpc"), "in": self.spell(fi, pkg or "", a), "out": self.spell(fi, pkg or "", b),
                       "cs": r.chance(1, 4), "ss": r.chance(1, 4)})
        if not ms:
            return None
        return {"k": "service", "name": self.uniq("Svc"), "methods": ms}

    STD = "google/protobuf/descriptor.proto"
    STD_MSGS = ("FileOptions", "FieldOptions", "OneofOptions", "EnumValueOptions", "ServiceOptions", "MethodOptions")

    def std_file(self):
        """a stand-in for descriptor.proto (the source resolver takes precedence over the built-in one): the options
        messages with an extension range, so that proto3 files can declare custom options"""
        # only options messages none of whose own fields the fragment uses (a stand-in without allow_alias or
        # message_set_wire_format would hide the built-in EnumOptions / MessageOptions)
        decls = []
        for nm in self.STD_MSGS:
            decls.append({"k": "message", "name": nm, "body": [{"k": "extensions", "ranges": [{"s": 1000, "e": None, "max": True}]}]})
        return {"name": self.STD, "syntax": "proto2", "edition": "", "package": "google.protobuf", "imports": [], "decls": decls}

    def option_extends(self, fi, syntax, f):
        """extend blocks for custom options: at file level and nested 1-2 messages deep, fields with and without label"""
        r = self.rng
        msgs = [d for d in f["decls"] if d["k"] == "message"]
        places = [f["decls"]] + [m["body"] for m in msgs] + [n["body"] for m in msgs for n in m["body"] if n["k"] == "message"]
        for _ in range(r.range(1, 3)):
            target = r.choice(self.STD_MSGS)
            els = []
            for _ in range(r.range(1, 2)):
                self.n += 1
                if syntax == "proto2":
                    lbl = r.choice(["optional", "repeated"])
                elif syntax == "proto3":
                    lbl = r.choice(["", "", "optional", "repeated"])
                else:
                    lbl = r.choice(["", "", "repeated"])
                els.append({"k": "field", "label": lbl, "type": r.choice(SCALARS), "name": "opt%d" % self.n, "num": 50000 + self.n, "opts": []})
            r.choice(places).append({"k": "extend", "extendee": r.choice([".google.protobuf." + target, "google.protobuf." + target]), "elems": els})

    def program(self, nfiles=None):
        r = self.rng
        nfiles = nfiles or (r.choice([1, 1, 1, 2, 2, 3]) if self.small else r.choice([1, 1, 2, 2, 3, 4]))
        self.imports_idx, self.public_idx = [], []
        use_std = self.extended and r.chance(1, 3)
        if use_std:
            self.files.append(self.std_file())
            self.imports_idx.append([])
            self.public_idx.append([])
            for nm in self.STD_MSGS:
                self.types.append({"fqn": "google.protobuf." + nm, "kind": "message", "file": 0, "syntax": "proto2", "extr": []})
            nfiles += 1
        for fi in range(1 if use_std else 0, nfiles):
            syntax = r.choice(["proto2", "proto2", "proto3", "proto3", "editions"])
            pkg = r.choice(PKGS)
            imports, idx, pub = [], [], []
            for j in range(1 if use_std else 0, fi):
                if r.chance(1, 2):
                    kind = "public" if r.chance(1, 3) else ""
                    imports.append({"path": "f%d.proto" % j, "kind": kind})
                    idx.append(j)
                    if kind == "public":
                        pub.append(j)
            self.imports_idx.append(idx)
            self.public_idx.append(pub)
            f = {"name": "f%d.proto" % fi, "syntax": syntax, "edition": "2023" if syntax == "editions" else "",
                 "package": pkg, "imports": imports, "decls": []}
            self.files.append(f)
            for _ in range(r.range(1, 2 if self.small else 3)):
                f["decls"].append(self.gen_message(fi, pkg or "", syntax, 1))
            for _ in range(r.range(0, 2)):
                f["decls"].append(self.gen_enum(fi, pkg or "", syntax, True))
            if syntax != "proto3" and r.chance(1, 3):
                ex = self.gen_extend(fi, pkg or "", syntax, 0)
                if ex:
                    f["decls"].append(ex)
            if r.chance(1, 3):
                s = self.gen_service(fi, pkg)
                if s:
                    f["decls"].append(s)
            if use_std and r.chance(2, 3):
                f["imports"].append({"path": self.STD, "kind": ""})
                idx.append(0)
                self.option_extends(fi, syntax, f)
            f["decls"] = r.shuffle(f["decls"])
        return self.files


EXTENDED_MUTATORS = ("extension_declaration", "reserved_dup", "max_range")


def json_name(s):
    out, cap = [], False
    for ch in s:
        if ch == "_":
            cap = True
        elif cap:
            out.append(ch.upper() if "a" <= ch <= "z" else ch)
            cap = False
        else:
            out.append(ch)
    return "".join(out)


# ---------------------------------------------------------------- mutants
def all_sites(files, kinds):
    """(file index, container list, index, element, enclosing message fqn parts) for every element of the given kinds"""
    out = []

    def walk(fi, lst, path):
        for i, e in enumerate(lst):
            if e["k"] in kinds:
                out.append((fi, lst, i, e, path))
            if e["k"] in ("message", "group"):
                walk(fi, e["body"], path + [e["name"]])
            elif e["k"] in ("oneof", "extend"):
                walk(fi, e["elems"], path)
    for fi, f in enumerate(files):
        walk(fi, f["decls"], [])
    return out


def msg_sites(files):
    return [s for s in all_sites(files, ("message",))]


def syntax_of(files, fi):
    return files[fi]["syntax"]


def rng_end(x):
    return x["s"] if x["e"] is None else x["e"]


class Mutator:
    """Each mutate_* returns (name, files) or None when the program offers no site for it.  Some
    mutations move a value to the legal side of a boundary: whether the result is valid is for the
    model and the specification to say, not for the generator."""

    def __init__(self, rng):
        self.rng = rng

    def names(self):
        return sorted(n[len("m_"):] for n in dir(self) if n.startswith("m_"))

    def apply(self, name, files):
        files = copy.deepcopy(files)
        res = getattr(self, "m_" + name)(files)
        if res is None:
            return None
        return files

    def pick(self, xs):
        return self.rng.choice(xs) if xs else None

    def a_field(self, files, pred=None, kinds=("field",)):
        s = [x for x in all_sites(files, kinds) if pred is None or pred(x)]
        return self.pick(s)

    # ---- F1 numbers
    def m_field_number_edge(self, files):
        s = self.a_field(files, kinds=("field", "map", "group"))
        if not s:
            return None
        s[3]["num"] = self.rng.choice([0, 1, 18999, 19000, 19001, 19500, 19999, 20000, FIELD_MAX, FIELD_MAX + 1, 2**31 - 2, 2**31 - 1, 2**31, 2**32, 2**32 + 5])
        return True

    def m_dup_field_number(self, files):
        ms = [m for m in msg_sites(files) if len([e for e in m[3]["body"] if e["k"] in ("field", "map")]) >= 2]
        m = self.pick(ms)
        if not m:
            return None
        fs = [e for e in m[3]["body"] if e["k"] in ("field", "map")]
        a, b = self.rng.shuffle(fs)[:2]
        b["num"] = a["num"]
        return True

    def _msg_with(self, files, kind):
        ms = [m for m in msg_sites(files) if any(e["k"] == kind for e in m[3]["body"])]
        return self.pick(ms)

    def _field_into_range(self, files, kind):
        m = self._msg_with(files, kind)
        if not m:
            return None
        fs = [e for e in m[3]["body"] if e["k"] in ("field", "map", "group")]
        if not fs:
            fs = [{"k": "field", "label": "optional" if syntax_of(files, m[0]) == "proto2" else "", "type": "int32", "name": "zz_new", "num": 1, "opts": []}]
            m[3]["body"].append(fs[0])
        f = self.pick(fs)
        rg = self.pick([x for e in m[3]["body"] if e["k"] == kind for x in e["ranges"]])
        end = FIELD_MAX if rg["max"] else rng_end(rg)
        f["num"] = self.rng.choice([int(rg["s"]) - 1, int(rg["s"]), int(end), int(end) + 1, (int(rg["s"]) + int(end)) // 2])
        return True

    def m_field_in_reserved_range(self, files):
        return self._field_into_range(files, "reserved")

    def m_field_in_extension_range(self, files):
        return self._field_into_range(files, "extensions")

    def _touch_ranges(self, files, kind_a, kind_b, lo=1, hi=FIELD_MAX):
        """add to a message a range of kind_b that touches / overlaps / is adjacent to a range of kind_a"""
        m = self._msg_with(files, kind_a)
        if not m:
            return None
        rg = self.pick([x for e in m[3]["body"] if e["k"] == kind_a for x in e["ranges"]])
        s, e = int(rg["s"]), hi if rg["max"] else int(rng_end(rg))
        r = self.rng
        k = r.below(7)
        if k == 0:
            ns, ne = e, e + 3          # overlap by one at the end
        elif k == 1:
            ns, ne = e + 1, e + 3      # adjacent after
        elif k == 2:
            ns, ne = max(lo, s - 3), s  # overlap by one at the start
        elif k == 3:
            ns, ne = max(lo, s - 3), s - 1  # adjacent before
        elif k == 4:
            ns, ne = s, e              # identical
        elif k == 5:
            ns, ne = (s + e) // 2, (s + e) // 2  # inside
        else:
            ns, ne = max(lo, s - 2), e + 2       # encloses
        if ne < ns or ns < lo:
            ns, ne = e, e + 1
        if ne > hi:
            ne = hi
            if ns > ne:
                ns = ne
        new = {"s": ns, "e": None if (ns == ne and r.chance(1, 2)) else ne, "max": False}
        same = [x for x in m[3]["body"] if x["k"] == kind_b]
        if same and r.chance(1, 2):
            self.pick(same)["ranges"].insert(r.below(2), new)
        else:
            m[3]["body"].insert(r.below(len(m[3]["body"]) + 1), {"k": kind_b, "ranges": [new]})
        return True

    def m_reserved_ranges_touch(self, files):
        return self._touch_ranges(files, "reserved", "reserved")

    def m_extension_ranges_touch(self, files):
        m = self._msg_with(files, "extensions")
        return self._touch_ranges(files, "extensions", "extensions") if m else None

    def m_extension_vs_reserved_touch(self, files):
        return self._touch_ranges(files, "reserved", "extensions")

    def m_reserved_vs_extension_touch(self, files):
        return self._touch_ranges(files, "extensions", "reserved")

    def m_range_shape(self, files):
        s = self.pick(all_sites(files, ("reserved", "extensions")))
        if not s:
            return None
        rg = self.pick(s[3]["ranges"])
        k = self.rng.below(8)
        if k == 0:
            rg["s"], rg["e"], rg["max"] = 7, 5, False
        elif k == 1:
            rg["s"], rg["e"], rg["max"] = 0, 5, False
        elif k == 2:
            rg["s"], rg["e"], rg["max"] = 900000, FIELD_MAX + 1, False
        elif k == 3:
            rg["s"], rg["e"], rg["max"] = 900000, FIELD_MAX, False
        elif k == 4:
            rg["s"], rg["e"], rg["max"] = 900000, None, True
        elif k == 5:
            rg["s"], rg["e"], rg["max"] = FIELD_MAX + 1, None, False
        elif k == 6:
            rg["s"], rg["e"], rg["max"] = 19000, 19999, False
        else:
            rg["s"], rg["e"], rg["max"] = 5, 5, False
        return True

    def m_proto3_extension_range(self, files):
        ms = [m for m in msg_sites(files) if syntax_of(files, m[0]) == "proto3"]
        m = self.pick(ms)
        if not m:
            return None
        m[3]["body"].append({"k": "extensions", "ranges": [{"s": 5000, "e": 5010, "max": False}]})
        return True

    # ---- enums
    def an_enum(self, files, pred=None):
        return self.pick([s for s in all_sites(files, ("enum",)) if pred is None or pred(s)])

    def m_enum_dup_number(self, files):
        s = self.an_enum(files, lambda s: not any(x["k"] == "option" for x in s[3]["elems"]))
        if not s:
            return None
        vals = [x for x in s[3]["elems"] if x["k"] == "value"]
        s[3]["elems"].append({"k": "value", "name": s[3]["name"].upper() + "_DUP", "num": self.pick(vals)["num"]})
        return True

    def m_enum_alias_flag(self, files):
        s = self.an_enum(files)
        if not s:
            return None
        opts = [x for x in s[3]["elems"] if x["k"] == "option"]
        k = self.rng.below(4)
        if opts and k == 0:
            s[3]["elems"].remove(opts[0])          # aliases without the flag
        elif opts and k == 1:
            opts[0]["val"] = {"t": "ident", "v": "false"}
        elif k == 2:
            s[3]["elems"].insert(0, {"k": "option", "name": "allow_alias", "val": {"t": "ident", "v": "true"}})  # maybe unused / repeated
        else:
            s[3]["elems"].insert(0, {"k": "option", "name": "allow_alias", "val": self.rng.choice([{"t": "uint", "v": "1"}, {"t": "ident", "v": "yes"}, {"t": "str", "v": "74727565"}])})
        return True

    def m_enum_first_value(self, files):
        s = self.an_enum(files)
        if not s:
            return None
        vals = [x for x in s[3]["elems"] if x["k"] == "value"]
        k = self.rng.below(3)
        if k == 0:
            vals[0]["num"] = self.rng.choice([1, -1, 7])
        elif k == 1 and len(vals) >= 2:
            i, j = s[3]["elems"].index(vals[0]), s[3]["elems"].index(vals[1])
            s[3]["elems"][i], s[3]["elems"][j] = s[3]["elems"][j], s[3]["elems"][i]
        else:
            for v in vals:
                s[3]["elems"].remove(v)
        return True

    def m_enum_value_edge(self, files):
        s = self.an_enum(files)
        if not s:
            return None
        vals = [x for x in s[3]["elems"] if x["k"] == "value"]
        v = vals[-1]
        v["num"] = self.rng.choice([2**31 - 1, 2**31, -2**31, -2**31 - 1, 2**32, 2**63])
        return True

    def m_enum_reserved_touch(self, files):
        s = self.an_enum(files, lambda s: any(x["k"] == "reserved" for x in s[3]["elems"]))
        if not s:
            s = self.an_enum(files)
            if not s:
                return None
            s[3]["elems"].append({"k": "reserved", "ranges": [{"s": 1000, "e": 1010, "max": False}]})
        rg = self.pick([x for e in s[3]["elems"] if e["k"] == "reserved" for x in e["ranges"]])
        a, b = int(rg["s"]), 2**31 - 1 if rg["max"] else int(rng_end(rg))
        k = self.rng.below(6)
        if k == 0:
            new = {"s": b, "e": b + 2, "max": False}
        elif k == 1:
            new = {"s": b + 1, "e": b + 2, "max": False}
        elif k == 2:
            new = {"s": a - 2, "e": a, "max": False}
        elif k == 3:
            new = {"s": a - 2, "e": a - 1, "max": False}
        elif k == 4:
            new = {"s": a, "e": None, "max": False}
        else:
            new = {"s": a - 1, "e": None, "max": True}
        if new["e"] is not None and new["e"] > 2**31 - 1:
            new["e"] = 2**31 - 1
            new["s"] = min(new["s"], new["e"])
        s[3]["elems"].append({"k": "reserved", "ranges": [new]})
        return True

    def m_enum_value_in_reserved(self, files):
        s = self.an_enum(files, lambda s: any(x["k"] == "reserved" for x in s[3]["elems"]))
        if not s:
            return None
        rg = self.pick([x for e in s[3]["elems"] if e["k"] == "reserved" for x in e["ranges"]])
        a, b = int(rg["s"]), 2**31 - 1 if rg["max"] else int(rng_end(rg))
        v = self.rng.choice([a - 1, a, b, min(b + 1, 2**31 - 1), (a + b) // 2])
        s[3]["elems"].append({"k": "value", "name": s[3]["name"].upper() + "_RV", "num": v})
        return True

    # ---- names
    def m_reserved_name_reuse(self, files):
        k = self.rng.below(2)
        if k == 0:
            m = self.pick([m for m in msg_sites(files) if any(e["k"] in ("field", "map") for e in m[3]["body"])])
            if not m:
                return None
            f = self.pick([e for e in m[3]["body"] if e["k"] in ("field", "map")])
            nm = f["name"] if self.rng.chance(3, 4) else f["name"] + "x"
            ed = syntax_of(files, m[0]) == "editions"
            m[3]["body"].insert(self.rng.below(len(m[3]["body"]) + 1),
                                {"k": "reserved_names", "names": [] if ed else [nm.encode().hex()], "idents": [nm.encode().hex()] if ed else []})
        else:
            s = self.an_enum(files)
            if not s:
                return None
            v = self.pick([x for x in s[3]["elems"] if x["k"] == "value"])
            if not v:
                return None
            ed = syntax_of(files, s[0]) == "editions"
            nm = v["name"]
            s[3]["elems"].append({"k": "reserved_names", "names": [] if ed else [nm.encode().hex()], "idents": [nm.encode().hex()] if ed else []})
        return True

    def m_reserved_name_form(self, files):
        s = self.pick(all_sites(files, ("reserved_names",)) + [x for en in all_sites(files, ("enum",)) for x in
                                                                [(en[0], en[3]["elems"], i, e, en[4]) for i, e in enumerate(en[3]["elems"]) if e["k"] == "reserved_names"]])
        if not s:
            return None
        e = s[3]
        k = self.rng.below(4)
        if k == 0:
            e["names"], e["idents"] = e["idents"], e["names"]        # wrong form for the syntax
        elif k == 1:
            both = e["names"] + e["idents"]
            if e["names"]:
                e["names"] = both + [both[0]]
            else:
                e["idents"] = both + [both[0]]                          # reserved twice
        elif k == 2 and e["names"]:
            e["names"][0] = self.rng.choice([b"9x", b"a-b", b"", b" a", b"a.b", b"\xc3\xa9"]).hex()
        else:
            s[1].insert(s[2], copy.deepcopy(e))                         # the same statement twice
        return True

    def m_json_collision(self, files):
        m = self.pick([m for m in msg_sites(files) if any(e["k"] == "field" for e in m[3]["body"])])
        if not m:
            return None
        f = self.pick([e for e in m[3]["body"] if e["k"] == "field"])
        syn = syntax_of(files, m[0])
        lbl = "optional" if syn == "proto2" else ""
        base = f["name"]
        k = self.rng.below(7)
        new = {"k": "field", "label": lbl, "type": "int32", "name": "zq_other", "num": 77777, "opts": []}
        if k == 0:      # default vs default: foo_bar vs fooBar
            f["name"] = "clash_name"
            new["name"] = "clashName"
        elif k == 1:    # custom equals the other's default
            new["opts"] = [{"name": "json_name", "val": {"t": "str", "v": json_name(base).encode().hex()}}]
        elif k == 2:    # both custom
            f["opts"] = [o for o in f["opts"] if o["name"] != "json_name"] + [{"name": "json_name", "val": {"t": "str", "v": b"same".hex()}}]
            new["opts"] = [{"name": "json_name", "val": {"t": "str", "v": b"same".hex()}}]
        elif k == 3:    # explicit json_name equal to the own default, and a clash on it
            f["name"] = "clashName"
            f["opts"] = [o for o in f["opts"] if o["name"] != "json_name"] + [{"name": "json_name", "val": {"t": "str", "v": b"clashName".hex()}}]
            new["name"] = "clash_name"
        elif k == 4:    # differs only in case: no conflict
            f["name"] = "casing"
            new["name"] = "Casing"
        elif k == 5:    # underscore shapes
            f["name"] = self.rng.choice(["_lead", "trail_", "dou__ble", "d_1"])
            new["name"] = json_name(f["name"]) if json_name(f["name"]) != f["name"] else f["name"] + "_"
        else:           # custom hides the clash of the defaults
            f["name"] = "clash_name"
            new["name"] = "clashName"
            new["opts"] = [{"name": "json_name", "val": {"t": "str", "v": b"other".hex()}}]
        m[3]["body"].append(new)
        return True

    def m_json_name_option(self, files):
        k = self.rng.below(4)
        if k == 0:
            s = self.pick([x for x in all_sites(files, ("field",)) if any(y is x[1] for ex in all_sites(files, ("extend",)) for y in [ex[3]["elems"]])])
            if not s:
                return None
            v = self.rng.choice([b"custom", json_name(s[3]["name"]).encode(), b""])
            s[3]["opts"] = [{"name": "json_name", "val": {"t": "str", "v": v.hex()}}]
        else:
            s = self.a_field(files)
            if not s:
                return None
            if k == 1:
                s[3]["opts"] = [{"name": "json_name", "val": {"t": "str", "v": self.rng.choice([b"[x]", b"[]", b"[x", b"x]"]).hex()}}]
            elif k == 2:
                s[3]["opts"] = [{"name": "json_name", "val": self.rng.choice([{"t": "ident", "v": "abc"}, {"t": "uint", "v": "3"}])}]
            else:
                s[3]["opts"] = [{"name": "json_name", "val": {"t": "str", "v": b"a".hex()}}, {"name": "json_name", "val": {"t": "str", "v": b"b".hex()}}]
        return True

    def m_enum_json_collision(self, files):
        s = self.an_enum(files)
        if not s:
            return None
        en = s[3]["name"]
        k = self.rng.below(3)
        vals = [x for x in s[3]["elems"] if x["k"] == "value"]
        used = set(int(v["num"]) for v in vals)
        n1 = max(used | {50}) + 1
        if k == 0:
            s[3]["elems"] += [{"k": "value", "name": en.upper() + "_CLASH_X", "num": n1}, {"k": "value", "name": "CLASH_X", "num": n1 + 1}]
        elif k == 1:
            s[3]["elems"] += [{"k": "value", "name": "CLASH_Y", "num": n1}, {"k": "value", "name": "clash_y", "num": n1 + 1}]
        else:
            s[3]["elems"] += [{"k": "value", "name": "CLASH__Z", "num": n1}, {"k": "value", "name": "CLASH_Z", "num": n1 + 1}]
        return True

    # ---- labels and keywords
    def m_label(self, files):
        s = self.a_field(files, lambda x: not any(y is x[1] for o in all_sites(files, ("oneof",)) for y in [o[3]["elems"]]))
        if not s:
            return None
        s[3]["label"] = self.rng.choice(["", "optional", "required", "repeated"])
        return True

    def m_oneof_label(self, files):
        o = self.pick(all_sites(files, ("oneof",)))
        if not o or not o[3]["elems"]:
            return None
        # the grammar has no labels inside a oneof: expected to be a syntax error for every label
        self.pick(o[3]["elems"])["label"] = self.rng.choice(["optional", "required", "repeated"])
        return True

    def m_group_syntax(self, files):
        m = self.pick(msg_sites(files))
        if not m:
            return None
        syn = syntax_of(files, m[0])
        k = self.rng.below(3)
        nm = "Grp" if k != 1 else "grp"
        lbl = {"proto2": "optional", "proto3": self.rng.choice(["", "optional", "repeated"]), "editions": self.rng.choice(["", "repeated"])}[syn]
        m[3]["body"].append({"k": "group", "label": lbl, "name": nm + "Zq", "num": 88888, "body": []})
        return True

    def m_default_in_proto3(self, files):
        s = self.a_field(files, lambda x: syntax_of(files, x[0]) == "proto3" and x[3]["type"] in INT_KINDS)
        if not s:
            return None
        s[3]["opts"] = s[3]["opts"] + [{"name": "default", "val": {"t": "uint", "v": "1"}}]
        return True

    def m_empty_oneof(self, files):
        m = self.pick(msg_sites(files))
        if not m:
            return None
        m[3]["body"].append({"k": "oneof", "name": "empty_oo", "elems": []})
        return True

    def m_empty_extend(self, files):
        s = self.pick(all_sites(files, ("extend",)))
        if not s:
            return None
        s[3]["elems"] = []
        return True

    def m_extension_label(self, files):
        s = self.pick(all_sites(files, ("extend",)))
        if not s or not s[3]["elems"]:
            return None
        self.pick(s[3]["elems"])["label"] = self.rng.choice(["required", "", "optional", "repeated"])
        return True

    # ---- symbols and references
    def m_dup_symbol(self, files):
        k = self.rng.below(6)
        if k == 0:
            m = self.pick(msg_sites(files))
            if not m:
                return None
            m[1].append({"k": "message", "name": m[3]["name"], "body": []})
        elif k == 1:
            s = self.an_enum(files)
            if not s:
                return None
            v = self.pick([x for x in s[3]["elems"] if x["k"] == "value"])
            if not v:
                return None
            s[1].append({"k": "message", "name": v["name"], "body": []})     # enum value scoping
        elif k == 2:
            s = self.an_enum(files)
            if not s:
                return None
            v = self.pick([x for x in s[3]["elems"] if x["k"] == "value"])
            if not v:
                return None
            s[1].append({"k": "enum", "name": "ZqOther", "elems": [{"k": "value", "name": "ZQ_ZERO", "num": 0}, {"k": "value", "name": v["name"], "num": 1}]})
        elif k == 3:
            m = self.pick([m for m in msg_sites(files) if any(e["k"] == "field" for e in m[3]["body"])])
            if not m:
                return None
            f = self.pick([e for e in m[3]["body"] if e["k"] == "field"])
            m[3]["body"].append({"k": "message", "name": f["name"], "body": []})
        elif k == 4:
            m = self.pick([m for m in msg_sites(files) if len([e for e in m[3]["body"] if e["k"] == "field"]) >= 2])
            if not m:
                return None
            fs = [e for e in m[3]["body"] if e["k"] == "field"]
            fs[1]["name"] = fs[0]["name"]
        else:
            # the importer redefines a top-level name of an imported file with the same package
            cands = [(fi, i) for fi, f in enumerate(files) for i in f["imports"]]
            if not cands:
                return None
            fi, imp = self.pick(cands)
            dep = [g for g in files if g["name"] == imp["path"]][0]
            tops = [d for d in dep["decls"] if d["k"] in ("message", "enum")]
            if not tops:
                return None
            files[fi]["package"] = dep["package"] if self.rng.chance(3, 4) else files[fi]["package"]
            files[fi]["decls"].append({"k": "message", "name": self.pick(tops)["name"], "body": []})
        return True

    def m_map_entry_clash(self, files):
        s = self.pick(all_sites(files, ("map",)))
        if not s:
            return None
        nm = "".join(w[:1].upper() + w[1:] for w in s[3]["name"].split("_")) + "Entry"
        k = self.rng.below(3)
        if k == 0:
            s[1].append({"k": "message", "name": nm, "body": []})
        elif k == 1:
            syn = syntax_of(files, s[0])
            s[1].append({"k": "field", "label": "optional" if syn == "proto2" else "", "type": nm, "name": "zq_ref", "num": 99999, "opts": []})
        else:
            syn = syntax_of(files, s[0])
            s[1].append({"k": "field", "label": "repeated", "type": nm, "name": "zq_ref", "num": 99999, "opts": []})
        return True

    def m_unknown_type(self, files):
        s = self.a_field(files, lambda x: x[3]["type"] not in SCALAR_COQ)
        if not s:
            s = self.a_field(files)
            if not s:
                return None
        k = self.rng.below(4)
        if k == 0:
            s[3]["type"] = "NoSuchType"
        elif k == 1:
            s[3]["type"] = "." + s[3]["type"].lstrip(".") + "x"
        elif k == 2:
            svc = self.pick([d for f in files for d in f["decls"] if d["k"] == "service"])
            s[3]["type"] = svc["name"] if svc else "nope.Nope"
        else:
            other = self.a_field(files)
            s[3]["type"] = other[3]["name"]
        return True

    def m_rpc_type(self, files):
        svc = self.pick([(fi, d) for fi, f in enumerate(files) for d in f["decls"] if d["k"] == "service"])
        if not svc:
            return None
        m = self.pick(svc[1]["methods"])
        en = self.pick(all_sites(files, ("enum",)))
        k = self.rng.below(3)
        which = self.rng.choice(["in", "out"])
        if k == 0 or not en:
            m[which] = "NoSuchMsg"
        elif k == 1:
            m[which] = en[3]["name"] if not en[4] else ".".join(en[4] + [en[3]["name"]])
        else:
            m[which] = "int32x"
        return True

    def m_extension_number(self, files):
        s = self.pick([x for x in all_sites(files, ("extend",)) if x[3]["elems"]])
        if not s:
            return None
        f = self.pick(s[3]["elems"])
        k = self.rng.below(5)
        if k == 0:
            f["num"] = int(f["num"]) + self.rng.choice([1, -1, 60, -60])
        elif k == 1:
            f["num"] = self.rng.choice([1, 199, 301, 999, 1000, FIELD_MAX, FIELD_MAX + 1, 19000, 19999, 2**31 - 2])
        elif k == 2 and len(s[3]["elems"]) >= 2:
            s[3]["elems"][1]["num"] = s[3]["elems"][0]["num"]
        elif k == 3:
            s[3]["extendee"] = self.rng.choice(["NoSuchMsg", ".nope.M"])
        else:
            en = self.pick(all_sites(files, ("enum",)))
            if not en:
                return None
            s[3]["extendee"] = "." + ".".join(([files[en[0]]["package"]] if files[en[0]]["package"] else []) + en[4] + [en[3]["name"]])
        return True

    def m_extension_declaration(self, files):
        """break (or move to the other side of a boundary) one fact of the extension-declaration family"""
        ms = [m for m in msg_sites(files) if any(e["k"] == "extensions" and e.get("adj") for e in m[3]["body"])]
        m = self.pick(ms)
        if not m:
            return None
        body = m[3]["body"]
        sts = [e for e in body if e["k"] == "extensions" and e.get("adj")]
        exb = [e for e in body if e["k"] == "extend"]
        fq = ".".join(([files[m[0]]["package"]] if files[m[0]]["package"] else []) + m[4] + [m[3]["name"]])
        syn = syntax_of(files, m[0])
        lbl = "optional" if syn == "proto2" else ""
        r = self.rng
        k = r.below(9)
        bounds = []
        for st in sts:
            a = int(st["ranges"][0]["s"])
            b = a if st["ranges"][0]["e"] is None else int(st["ranges"][0]["e"])
            bounds += [a, b]
        if k == 0 and exb and exb[-1]["elems"]:          # an extension moved onto another boundary number
            f = self.pick(exb[-1]["elems"])
            f["num"] = self.pick(bounds + [min(bounds) - 1, max(bounds) + 1])
        elif k == 1 and exb and exb[-1]["elems"]:        # type mismatch
            f = self.pick(exb[-1]["elems"])
            f["type"] = "bytes" if f["type"] != "bytes" else "int32"
        elif k == 2 and exb and exb[-1]["elems"]:        # name mismatch
            self.pick(exb[-1]["elems"])["name"] += "x"
        elif k == 3 and exb and exb[-1]["elems"]:        # cardinality mismatch
            f = self.pick(exb[-1]["elems"])
            f["label"] = lbl if f["label"] == "repeated" else "repeated"
        elif k == 4:                                     # a declaration becomes reserved / loses its number
            st = self.pick([s for s in sts if s.get("xopts") and s["xopts"]["decls"]])
            if not st:
                return None
            d = self.pick(st["xopts"]["decls"])
            d["reserved"], d["full_name"], d["type"] = True, None, None
        elif k == 5:                                     # the declarations move to the neighbouring range
            have = [i for i, s in enumerate(sts) if s.get("xopts")]
            if not have or len(sts) < 2:
                return None
            i = self.pick(have)
            j = i + 1 if i + 1 < len(sts) else i - 1
            sts[i]["xopts"], sts[j]["xopts"] = sts[j].get("xopts"), sts[i]["xopts"]
            for st in (sts[i], sts[j]):
                if st.get("xopts") is None:
                    st.pop("xopts", None)
                    continue
                a = int(st["ranges"][0]["s"])
                b = a if st["ranges"][0]["e"] is None else int(st["ranges"][0]["e"])
                used = set()
                for q, d in enumerate(list(st["xopts"]["decls"])):     # keep the declarations inside their new range
                    n = [a, b, a + 1, b - 1][q % 4]
                    if n < a or n > b or n in used:
                        st["xopts"]["decls"].remove(d)
                        continue
                    used.add(n)
                    d["number"] = n
        elif k == 6:                                     # a new undeclared extension on a boundary number
            self_ext = {"k": "field", "label": lbl, "type": r.choice(["int32", "string"]), "name": "zq_xb", "num": self.pick(bounds), "opts": []}
            if exb:
                exb[-1]["elems"].append(self_ext)
            else:
                body.append({"k": "extend", "extendee": "." + fq, "elems": [self_ext]})
        elif k == 7:                                     # verification flipped
            st = self.pick([s for s in sts if s.get("xopts")])
            if not st:
                return None
            st["xopts"]["verification"] = {"DECLARATION": None, None: "DECLARATION", "UNVERIFIED": "DECLARATION"}[st["xopts"]["verification"]]
        else:                                            # a declaration removed
            st = self.pick([s for s in sts if s.get("xopts") and s["xopts"]["decls"]])
            if not st:
                return None
            st["xopts"]["decls"].remove(self.pick(st["xopts"]["decls"]))
        return True

    def m_proto3_extend(self, files):
        fi = self.pick([i for i, f in enumerate(files) if f["syntax"] == "proto3"])
        if fi is None:
            return None
        # extend some message that has extension ranges and is visible: otherwise unknown extendee
        cand = [m for m in msg_sites(files) if m[0] <= fi and any(e["k"] == "extensions" for e in m[3]["body"])]
        if cand:
            m = self.pick(cand)
            fq = "." + ".".join(([files[m[0]]["package"]] if files[m[0]]["package"] else []) + m[4] + [m[3]["name"]])
            rg = [x for e in m[3]["body"] if e["k"] == "extensions" for x in e["ranges"]][0]
            if m[0] != fi and not any(i["path"] == files[m[0]]["name"] for i in files[fi]["imports"]):
                files[fi]["imports"].append({"path": files[m[0]]["name"], "kind": ""})
            files[fi]["decls"].append({"k": "extend", "extendee": fq, "elems": [
                {"k": "field", "label": "", "type": "int32", "name": "zq_p3ext", "num": int(rg["s"]), "opts": []}]})
        else:
            files[fi]["decls"].append({"k": "extend", "extendee": "NoSuchMsg", "elems": [
                {"k": "field", "label": "", "type": "int32", "name": "zq_p3ext", "num": 5, "opts": []}]})
        return True

    def m_closed_enum_in_proto3(self, files):
        p2 = [e for e in all_sites(files, ("enum",)) if syntax_of(files, e[0]) == "proto2"]
        p3 = [m for m in msg_sites(files) if syntax_of(files, m[0]) == "proto3"]
        if not p2 or not p3:
            return None
        e, m = self.pick(p2), self.pick(p3)
        fq = "." + ".".join(([files[e[0]]["package"]] if files[e[0]]["package"] else []) + e[4] + [e[3]["name"]])
        if e[0] != m[0] and not any(i["path"] == files[e[0]]["name"] for i in files[m[0]]["imports"]):
            if e[0] > m[0]:
                return None
            files[m[0]]["imports"].append({"path": files[e[0]]["name"], "kind": ""})
        m[3]["body"].append({"k": "field", "label": self.rng.choice(["", "", "optional", "repeated"]), "type": fq, "name": "zq_closed", "num": 66666, "opts": []})
        return True

    def m_default_value(self, files):
        s = self.a_field(files, lambda x: syntax_of(files, x[0]) != "proto3")
        if not s:
            return None
        f = s[3]
        t = f["type"]
        k = self.rng.below(6)
        if t in INT_KINDS:
            lo, hi = INT_KINDS[t]
            v = self.rng.choice([hi, hi + 1, lo, lo - 1, 0, -1])
            val = {"t": "nint", "v": str(v)} if v < 0 else {"t": "uint", "v": str(v)}
            if k == 0:
                val = {"t": "str", "v": b"5".hex()}
            elif k == 1:
                val = {"t": "ident", "v": "true"}
        elif t == "bool":
            val = self.rng.choice([{"t": "ident", "v": "true"}, {"t": "ident", "v": "True"}, {"t": "uint", "v": "1"}, {"t": "str", "v": b"true".hex()}])
        elif t in ("string", "bytes"):
            val = self.rng.choice([{"t": "str", "v": b"ok\x00\xff'".hex()}, {"t": "uint", "v": "1"}, {"t": "ident", "v": "abc"}])
        elif t in ("float", "double"):
            return None
        else:
            val = self.rng.choice([{"t": "ident", "v": "NO_SUCH_VALUE"}, {"t": "uint", "v": "0"}, {"t": "str", "v": b"X".hex()}])
        f["opts"] = [o for o in f["opts"] if o["name"] != "default"] + [{"name": "default", "val": val}]
        if k == 5:
            f["opts"].append({"name": "default", "val": val})
        return True

    def m_synthetic_oneof_clash(self, files):
        m = self.pick([m for m in msg_sites(files) if syntax_of(files, m[0]) == "proto3"])
        if not m:
            return None
        k = self.rng.below(5)
        b = m[3]["body"]
        b.append({"k": "field", "label": "optional", "type": "int32", "name": "zq", "num": 55551, "opts": []})
        if k == 0:
            b.append({"k": "field", "label": "", "type": "int32", "name": "_zq", "num": 55552, "opts": []})
        elif k == 1:
            b.append({"k": "field", "label": "", "type": "int32", "name": "_zq", "num": 55552, "opts": []})
            b.append({"k": "field", "label": "optional", "type": "int32", "name": "X_zq", "num": 55553, "opts": []})
            b.append({"k": "oneof", "name": "_X_zq", "elems": [{"k": "field", "label": "", "type": "int32", "name": "zq_m", "num": 55554, "opts": []}]})
        elif k == 2:
            b.append({"k": "message", "name": "_zq", "body": []})                 # documented divergence
        elif k == 3:
            b.append({"k": "enum", "name": "ZqE", "elems": [{"k": "value", "name": "_zq", "num": 0}]})  # documented divergence
        else:
            b.insert(0, {"k": "field", "label": "optional", "type": "int32", "name": "_zq", "num": 55552, "opts": []})
        return True

    def m_message_set(self, files):
        m = self.pick([m for m in msg_sites(files)])
        if not m:
            return None
        k = self.rng.below(4)
        val = {"t": "ident", "v": "true"}
        if k == 3:
            val = self.rng.choice([{"t": "ident", "v": "false"}, {"t": "uint", "v": "1"}, {"t": "ident", "v": "maybe"}])
        m[3]["body"].insert(self.rng.below(len(m[3]["body"]) + 1), {"k": "option", "name": "message_set_wire_format", "val": val})
        if k == 1:
            m[3]["body"] = [e for e in m[3]["body"] if e["k"] not in ("field", "map", "group", "oneof")]
        if k == 2:
            m[3]["body"] = [e for e in m[3]["body"] if e["k"] not in ("field", "map", "group", "oneof", "extensions")]
            m[3]["body"].append({"k": "extensions", "ranges": [{"s": 4, "e": None, "max": True}]})
        return True

    # ---- extended only (EXTENDED_MUTATORS): the basic set and its random stream are left as they are
    def m_reserved_dup(self, files):
        """a reserved name (in the spelling of the syntax) or a reserved number met a second time in the same message
        or enum: within one statement, across statements, appended to an existing statement - or only a look-alike"""
        r = self.rng
        s = self.pick(msg_sites(files) + all_sites(files, ("enum",)))
        if not s:
            return None
        ed = syntax_of(files, s[0]) == "editions"
        lst = s[3]["body"] if s[3]["k"] == "message" else s[3]["elems"]

        def stmt(names):
            h = [n.encode().hex() for n in names]
            return {"k": "reserved_names", "names": [] if ed else h, "idents": h if ed else []}

        def put(e):
            lst.insert(r.below(len(lst) + 1), e)
        old = [e for e in lst if e["k"] == "reserved_names" and (e["idents"] if ed else e["names"])]
        have = [bytes.fromhex(n).decode("latin-1") for e in old for n in (e["idents"] if ed else e["names"])]
        base = self.pick(have) if have and r.chance(1, 2) else "zq_rsv"
        k = r.below(6)
        if k == 0:
            put(stmt(r.choice([[base, base], [base, "zq_other", base], ["zq_other", base, base]])))
        elif k == 1:
            put(stmt([base]))
            put(stmt(r.choice([[base], ["zq_other", base], [base, "zq_other"]])))
        elif k == 2 and old:
            e = self.pick(old)
            (e["idents"] if ed else e["names"]).insert(r.below(2), base.encode().hex())
            if base not in have:
                put(stmt([base]))
        elif k == 3:
            put(stmt([base, base + "_"]))
            put(stmt([base.swapcase(), "_" + base]))
        else:
            n = r.choice([7000, 7001, 90000])
            put({"k": "reserved", "ranges": [r.choice([{"s": n, "e": None, "max": False}, {"s": n - 2, "e": n, "max": False}])]})
            put({"k": "reserved", "ranges": r.shuffle([{"s": 6990, "e": None, "max": False},
                                                       r.choice([{"s": n, "e": None, "max": False}, {"s": n, "e": n + 3, "max": False},
                                                                 {"s": n + 1, "e": n + 3, "max": False}, {"s": n - 1, "e": None, "max": True}])])})
        return True

    def m_max_range(self, files):
        """a range that ends in max, or on the largest number / one beyond it, in an ordinary message, a message turned
        into a message set (fields dropped, an extension range added), or an enum"""
        r = self.rng
        if r.chance(1, 4):
            s = self.an_enum(files)
            if not s:
                return None
            vals = [int(x["num"]) for x in s[3]["elems"] if x["k"] == "value"]
            tops = [int(x["s"]) if x["max"] else int(rng_end(x)) for e in s[3]["elems"] if e["k"] == "reserved" for x in e["ranges"]]
            lo = max(vals + tops + [0]) + 1
            if lo >= INT32_MAX - 10:
                return None
            a = r.choice([lo, lo + 5, INT32_MAX - 1, INT32_MAX])
            rg = r.choice([{"s": a, "e": None, "max": True}, {"s": a, "e": INT32_MAX, "max": False},
                           {"s": a, "e": INT32_MAX - 1, "max": False}, {"s": a, "e": INT32_MAX + 1, "max": False}])
            s[3]["elems"].insert(r.below(len(s[3]["elems"]) + 1), {"k": "reserved", "ranges": [rg]})
            return True
        ms = [m for m in msg_sites(files)]
        m = self.pick(ms)
        if not m:
            return None
        body = m[3]["body"]
        p3 = syntax_of(files, m[0]) == "proto3"
        has_ext = any(e["k"] == "extensions" for e in body)
        lim = FIELD_MAX
        if not p3 and not has_ext and r.chance(1, 2):
            body[:] = [e for e in body if e["k"] not in ("field", "map", "group", "oneof", "option")]
            body.insert(r.below(len(body) + 1), {"k": "option", "name": "message_set_wire_format", "val": {"t": "ident", "v": "true"}})
            body.insert(r.below(len(body) + 1), {"k": "extensions", "ranges": [{"s": 4, "e": 9, "max": False}]})
            lim = MSGSET_MAX
        nums = [int(e["num"]) for e in body if e["k"] in ("field", "map", "group")]
        nums += [int(x["num"]) for e in body if e["k"] == "oneof" for x in e["elems"]]
        for e in body:
            if e["k"] in ("reserved", "extensions"):
                for x in e["ranges"]:
                    if x["max"]:
                        return None       # the message already has a range that ends in max
                    nums.append(int(rng_end(x)))
        lo = max(nums + [19999]) + 1
        if lo >= FIELD_MAX - 10:
            return None
        a = r.choice([lo, lo + 1000, FIELD_MAX, FIELD_MAX + 1, lim])
        rg = r.choice([{"s": a, "e": None, "max": True}, {"s": a, "e": None, "max": True}, {"s": a, "e": lim, "max": False},
                       {"s": a, "e": lim - 1, "max": False}, {"s": a, "e": lim + 1, "max": False}, {"s": a, "e": FIELD_MAX + 1, "max": False}])
        kind = "reserved" if (p3 or r.chance(2, 3)) else "extensions"
        same = [e for e in body if e["k"] == kind and not e.get("adj") and "xopts" not in e]
        if same and r.chance(1, 2):
            e = self.pick(same)
            e["ranges"].insert(r.below(len(e["ranges"]) + 1), rg)
        else:
            body.insert(r.below(len(body) + 1), {"k": kind, "ranges": [rg]})
        return True

    def m_import(self, files):
        k = self.rng.below(2)
        cands = [fi for fi, f in enumerate(files) if f["imports"]]
        if not cands:
            return None
        fi = self.pick(cands)
        if k == 0:
            files[fi]["imports"].append(copy.deepcopy(self.pick(files[fi]["imports"])))
        else:
            i = self.pick(files[fi]["imports"])
            i["kind"] = "" if i["kind"] == "public" else "public"
        return True

    def m_drop_import(self, files):
        cands = [fi for fi, f in enumerate(files) if f["imports"]]
        if not cands:
            return None
        fi = self.pick(cands)
        files[fi]["imports"].remove(self.pick(files[fi]["imports"]))
        return True


# ================================================================ run-time helpers of the C01 / C02 plugins
COQ_MODEL_FILES = ["Common/Corr.v", "Model/MiniProto.v", "Model/Lower.v", "Model/ValiditySpec.v", "Model/ProtocDescriptor.v",
                   "Model/Resolve.v", "Model/ProtocLookup.v", "Model/Validate.v", "Model/SpecOracle.v"]
HEADER = ("From Coq Require Import List NArith ZArith Bool.\nImport ListNotations.\n"
          "From PV Require Import Common.Corr Model.MiniProto Model.Lower Model.Validate Model.SpecOracle.\nOpen Scope N_scope.\n")

P2 = 'syntax = "proto2";\n'
P3 = 'syntax = "proto3";\n'
ED = 'edition = "2023";\n'


def _corpus():
    c = []

    def add(label, text, extra=None):
        files = {"t.proto": text}
        if extra:
            files.update(extra)
        c.append((label, files))
    for n in [0, 1, 18999, 19000, 19001, 19999, 20000, 536870911, 536870912, 2147483647, 4294967296]:
        add("field-number-%d" % n, P2 + "message M { optional int32 f = %d; }" % n)
    for n in [0, 1, 19000, 19999, 536870911, 536870912]:
        add("ext-range-single-%d" % n, P2 + "message M { extensions %d; }" % n)
        add("reserved-single-%d" % n, P2 + "message M { reserved %d; }" % n)
    for a, t in [("ext-1-max", "extensions 1 to max;"), ("ext-5-4", "extensions 5 to 4;"), ("ext-5-5", "extensions 5 to 5;"),
                 ("rsv-5-4", "reserved 5 to 4;"), ("rsv-touch", "reserved 1 to 5, 5 to 9;"), ("rsv-adjacent", "reserved 1 to 5, 6 to 9;"),
                 ("rsv-unsorted", "reserved 6 to 9, 1 to 6;"), ("rsv-nested", "reserved 1 to 10, 3 to 4;"),
                 ("rsv-three", "reserved 1 to 10; reserved 2; reserved 12;"), ("ext-touch", "extensions 1 to 5, 5 to 9;"),
                 ("ext-adjacent", "extensions 1 to 5, 6 to 9;"), ("ext-rsv-touch", "extensions 1 to 5; reserved 5 to 9;"),
                 ("rsv-ext-touch", "extensions 5 to 9; reserved 1 to 5;"), ("ext-rsv-adjacent", "extensions 1 to 5; reserved 6 to 9;"),
                 ("rsv-ext-adjacent", "extensions 6 to 9; reserved 1 to 5;"), ("rsv-inside-ext", "extensions 1 to 100; reserved 50;"),
                 ("ext-inside-rsv", "extensions 50; reserved 1 to 100;"), ("ext-rsv-multi", "extensions 1 to 10, 20 to 30; reserved 15, 25;"),
                 ("ext-rsv-multi2", "extensions 10, 30; reserved 1 to 5, 25 to 35;"), ("ext-rsv-multi3", "reserved 1 to 100; extensions 200, 50;"),
                 ("ext-rsv-equal-start", "reserved 7 to 9; extensions 7;"), ("rsv-max", "reserved 1000 to max; optional int32 f = 536870911;")]:
        add(a, P2 + "message M { %s }" % t)
    for a, t in [("field-rsv-start", "reserved 5 to 9; optional int32 f = 5;"), ("field-rsv-end", "reserved 5 to 9; optional int32 f = 9;"),
                 ("field-after-rsv", "reserved 5 to 9; optional int32 f = 10;"), ("field-before-rsv", "reserved 5 to 9; optional int32 f = 4;"),
                 ("field-2nd-rsv", "reserved 5 to 9, 20 to 30; optional int32 f = 20;"), ("field-2nd-rsv-end", "reserved 5 to 9, 20 to 30; optional int32 f = 30;"),
                 ("field-between-rsv", "reserved 5 to 9, 20 to 30, 40; optional int32 f = 15; optional int32 g = 39; optional int32 h = 41;"),
                 ("field-ext-start", "extensions 5 to 9; optional int32 f = 5;"), ("field-ext-end", "extensions 5 to 9; optional int32 f = 9;"),
                 ("field-after-ext", "extensions 5 to 9; optional int32 f = 10;"), ("dup-tag", "optional int32 a = 1; optional int32 b = 1;"),
                 ("dup-tag-far", "optional int32 a = 1; optional int32 b = 2; optional int32 c = 3; optional int32 d = 1;"),
                 ("dup-name", "optional int32 a = 1; optional int32 a = 2;"), ("rsv-name", 'reserved "a"; optional int32 a = 1;'),
                 ("rsv-name-other", 'reserved "a"; optional int32 b = 1;'), ("rsv-name-twice", 'reserved "a", "a";'),
                 ("rsv-name-ident", 'reserved a;'), ("rsv-name-invalid", 'reserved "9a";'), ("oneof-empty", "oneof o { }"),
                 ("oneof-nolabel", "oneof o { int32 a = 1; }"), ("nolabel", "int32 a = 1;"), ("group-lower", "optional group g = 1 { }"),
                 ("group", "optional group Foo = 1 { optional int32 a = 1; } repeated group Bar_Baz = 2 {} oneof o { group Qux = 3 {} }"),
                 ("map", "map<string,int32> foo_bar = 1; map<string,M> _x = 2; map<int32,string> a1_b2__c = 3; map<bool, bytes> Foo=4;"),
                 ("map-entry-clash", "map<string,int32> foo = 1; message FooEntry {}"),
                 ("map-entry-ref", "map<string,int32> foo = 1; optional FooEntry e = 2;"),
                 ("msgset", "option message_set_wire_format = true; extensions 4 to max;"),
                 ("msgset-max", "option message_set_wire_format = true; extensions 4 to 2147483646;"),
                 ("msgset-max1", "option message_set_wire_format = true; extensions 4 to 2147483647;"),
                 ("msgset-fields", "option message_set_wire_format = true; extensions 4 to max; optional int32 a = 1;"),
                 ("msgset-norange", "option message_set_wire_format = true;"),
                 ("msgset-false", "option message_set_wire_format = false; optional int32 a = 1;")]:
        add(a, P2 + "message M { %s }" % t)
    for a, t in [("enum-rsv-touch", "A=0; reserved 1 to 5, 5 to 9;"), ("enum-rsv-adjacent", "A=0; reserved 1 to 5, 6 to 9;"),
                 ("enum-val-rsv-start", "A=5; reserved 5 to 9;"), ("enum-val-rsv-end", "A=9; reserved 5 to 9;"),
                 ("enum-val-after-rsv", "A=10; reserved 5 to 9;"), ("enum-val-before-rsv", "A=4; reserved 5 to 9;"),
                 ("enum-neg-rsv", "A=-4; reserved -5 to -1;"), ("enum-rsv-max", "A=0; reserved 5 to max;"),
                 ("enum-rsv-max-val", "A=2147483647; reserved 5 to max;"), ("enum-val-max", "A=2147483647;"),
                 ("enum-val-max1", "A=2147483648;"), ("enum-val-min", "A=-2147483648;"), ("enum-val-min1", "A=-2147483649;"),
                 ("enum-dup", "A=0; B=0;"), ("enum-alias", "option allow_alias=true; A=0; B=0;"),
                 ("enum-alias-unused", "option allow_alias=true; A=0; B=1;"), ("enum-alias-false", "option allow_alias=false; A=0; B=1;"),
                 ("enum-alias-false-dup", "option allow_alias=false; A=0; B=0;"), ("enum-empty", ""), ("enum-rsv-name", 'A=0; reserved "A";'),
                 ("enum-rsv-5-4", "A=0; reserved 5 to 4;")]:
        add(a, P2 + "enum E { %s }" % t)
    add("p3-enum-first-nonzero", P3 + "enum E { A=1; }")
    add("p3-enum-first-zero", P3 + "enum E { A=0; B=1; }")
    add("p3-enum-second-zero", P3 + "enum E { B=1; A=0; }")
    add("p2-enum-first-nonzero", P2 + "enum E { A=1; }")
    add("ed-enum-first-nonzero", ED + "enum E { A=1; }")
    add("p3-required", P3 + "message M { required int32 a = 1; }")
    add("p3-optional", P3 + "message M { optional int32 a = 1; }")
    add("p3-group", P3 + "message M { optional group G = 1 { } }")
    add("p3-default", P3 + "message M { int32 a = 1 [default = 1]; }")
    add("p3-ext-range", P3 + "message M { extensions 1 to 5; }")
    add("ed-optional", ED + "message M { optional int32 a = 1; }")
    add("ed-required", ED + "message M { required int32 a = 1; }")
    add("ed-plain", ED + "message M { int32 a = 1; repeated int32 b = 2; reserved x, y; }")
    add("ed-reserved-string", ED + 'message M { reserved "x"; }')
    for syn, lbl in [(P3, ""), (P2, "optional ")]:
        s = "p3" if syn == P3 else "p2"
        add(s + "-json-default-default", syn + "message M { %sint32 foo_bar = 1; %sint32 fooBar = 2; }" % (lbl, lbl))
        add(s + "-json-custom-default", syn + 'message M { %sint32 a = 1 [json_name="b"]; %sint32 b = 2; }' % (lbl, lbl))
        add(s + "-json-custom-custom", syn + 'message M { %sint32 a = 1 [json_name="c"]; %sint32 b = 2 [json_name="c"]; }' % (lbl, lbl))
        add(s + "-json-explicit-default", syn + 'message M { %sint32 fooBar = 1 [json_name="fooBar"]; %sint32 foo_bar = 2 [json_name="fooBar"]; }' % (lbl, lbl))
        add(s + "-json-custom-hides", syn + 'message M { %sint32 foo_bar = 1 [json_name="x"]; %sint32 fooBar = 2; }' % (lbl, lbl))
        add(s + "-json-case", syn + 'message M { %sint32 Foo = 1; %sint32 foo = 2; }' % (lbl, lbl))
        add(s + "-json-lead", syn + 'message M { %sint32 _foo = 1; %sint32 Foo = 2; }' % (lbl, lbl))
        add(s + "-json-trail", syn + 'message M { %sint32 foo_ = 1; %sint32 foo = 2; }' % (lbl, lbl))
        add(s + "-json-three", syn + 'message M { %sint32 x = 1 [json_name="y"]; %sint32 z = 2 [json_name="y"]; %sint32 y = 3; }' % (lbl, lbl, lbl))
        add(s + "-enum-json", syn + "enum E { E_A = 0; A = 1; }")
        add(s + "-enum-json-alias", syn + "enum E { option allow_alias=true; E_A = 0; A = 0; }")
    add("json-ext", P2 + 'message M { extensions 1 to 10; } extend M { optional int32 a = 1 [json_name="b"]; }')
    add("json-ext-default", P2 + 'message M { extensions 1 to 10; } extend M { optional int32 foo_bar = 1 [json_name="fooBar"]; }')
    add("json-brackets", P2 + 'message M { optional int32 a = 1 [json_name="[b]"]; }')
    add("p3-opt", P3 + "message M { optional int32 a = 1; optional int32 b = 2; oneof o { int32 c = 3; } }")
    add("p3-opt-collide", P3 + "message M { optional int32 a = 1; int32 _a = 2; optional int32 _b = 3; int32 X_a = 4; optional int32 X_b=5; }")
    add("p3-opt-collide-nested", P3 + "message M { optional int32 a = 1; message _a {} enum E { _b = 0; } optional int32 b = 2; }")
    add("p3-opt-interleaved", P3 + "message M { optional int32 a = 1; oneof o { int32 c = 3; } optional int32 b = 2; oneof p { int32 d = 4; } }")
    for a, t in [("ext-ok", "optional int32 a = 5; optional int32 b = 9;"), ("ext-below", "optional int32 a = 4;"),
                 ("ext-above", "optional int32 a = 10;"), ("ext-dup", "optional int32 a = 5; optional int32 b = 5;"),
                 ("ext-required", "required int32 a = 5;"), ("ext-empty", ""), ("ext-repeated", "repeated int32 a = 5;")]:
        add(a, P2 + "message M { extensions 5 to 9; } extend M { %s }" % t)
    add("ext-2nd-range", P2 + "message M { extensions 5 to 9, 20; } extend M { optional int32 a = 20; optional int32 b=21; }")
    add("ext-big", P2 + "message M { extensions 5 to max; } extend M { optional int32 a = 536870911; }")
    add("ext-too-big", P2 + "message M { extensions 5 to max; } extend M { optional int32 a = 536870912; }")
    add("ext-19000", P2 + "message M { extensions 5 to max; } extend M { optional int32 a = 19000; }")
    add("ext-msgset", P2 + "message M { option message_set_wire_format = true; extensions 4 to max; } message N {} extend M { optional N n = 2147483646; }")
    add("ext-msgset-scalar", P2 + "message M { option message_set_wire_format = true; extensions 4 to max; } extend M { optional int32 n = 100; }")
    add("ext-msgset-repeated", P2 + "message M { option message_set_wire_format = true; extensions 4 to max; } message N {} extend M { repeated N n = 100; }")
    add("ext-not-message", P2 + "enum E { A = 0; } extend E { optional int32 a = 1; }")
    add("ext-unknown", P2 + "extend Nope { optional int32 a = 1; }")
    add("p3-extend-msg", P3 + 'import "x.proto"; extend M { int32 a = 5; }', {"x.proto": P2 + "message M { extensions 5 to max; }"})
    add("sym-msg-enum", P2 + "message M {} enum M { A = 0; }")
    add("sym-enum-values", P2 + "enum E { A = 0; } enum F { A = 0; }")
    add("sym-enum-values-nested", P2 + "message M { enum E { A = 0; } } message N { enum F { A = 0; } }")
    add("sym-enum-value-msg", P2 + "enum E { A = 0; } message A {}")
    add("sym-pkg-msg", P2 + "package a.b; message a {}")
    add("sym-pkg-collision", P2 + 'import "x.proto"; message a {}', {"x.proto": P2 + "package a.b; message M {}"})
    add("sym-across-files", P2 + 'import "x.proto"; message M {}', {"x.proto": P2 + "message M {}"})
    add("sym-across-files-pkg", P2 + 'package p; import "x.proto"; message M { optional .M m = 1; }', {"x.proto": P2 + "message M {}"})
    add("sym-field-nested", P2 + "message M { optional int32 a = 1; message a {} }")
    add("sym-oneof-field", P2 + "message M { optional int32 a = 1; oneof a { int32 b = 2; } }")
    add("type-unknown", P2 + "message M { optional Foo a = 1; }")
    add("type-service", P2 + "message M { optional S a = 1; } service S {}")
    add("type-scoping", P2 + "package a.b; message M { message N {} optional N x = 1; optional M.N y = 2; optional b.M.N z = 3; optional a.b.M w = 4; optional .a.b.M.N v = 5; }")
    add("type-scoping-shadow", P2 + "package a.b; message a { } message M { optional a.b.M x = 1; }")
    add("rpc", P2 + "service S { rpc R(M) returns (stream M); } message M {}")
    add("rpc-unknown", P2 + "service S { rpc R(M) returns (N); } message M {}")
    add("rpc-enum", P2 + "service S { rpc R(M) returns (E); } message M {} enum E { A = 0; }")
    add("import-dup", P2 + 'import "x.proto"; import "x.proto";', {"x.proto": P2})
    add("import-transitive", P2 + 'import "x.proto"; message M { optional Y y = 1; }', {"x.proto": P2 + 'import "y.proto";', "y.proto": P2 + "message Y {}"})
    add("import-public", P2 + 'import "x.proto"; message M { optional Y y = 1; }', {"x.proto": P2 + 'import public "y.proto";', "y.proto": P2 + "message Y {}"})
    add("defaults", P2 + "message M { optional int32 a = 1 [default = 5]; optional string s = 2 [default='x\\ny']; optional bool b = 3 [default=true]; "
        "optional E e = 4 [default = B]; optional bytes y = 5 [default='\\001z\\377']; optional sint64 z = 6 [default = -9223372036854775808]; "
        "optional uint64 u = 7 [default = 18446744073709551615]; } enum E { A = 0; B = 1; }")
    for a, t in [("default-bad-enum", "optional E e = 4 [default = C];"), ("default-repeated", "repeated int32 e = 4 [default = 1];"),
                 ("default-msg", "optional M e = 4 [default = 1];"), ("default-int32-max1", "optional int32 e = 4 [default = 2147483648];"),
                 ("default-int32-min1", "optional int32 e = 4 [default = -2147483649];"), ("default-neg-uint", "optional uint32 e = 4 [default = -1];"),
                 ("default-uint32-max1", "optional uint32 e = 4 [default = 4294967296];"), ("default-bool-int", "optional bool e = 4 [default = 1];"),
                 ("default-string-ident", "optional string e = 4 [default = abc];"), ("default-twice", "optional int32 e = 4 [default = 1, default = 2];")]:
        add(a, P2 + "message M { %s } enum E { A = 0; B = 1; }" % t)
    for depth in (30, 31, 32, 33):
        add("nesting-%d" % depth, P2 + "".join("message M%d { " % i for i in range(depth)) + "}" * depth)
    add("nesting-group-31", P2 + "".join("message M%d { " % i for i in range(30)) + "optional group G = 1 { }" + "}" * 30)
    add("nesting-group-32", P2 + "".join("message M%d { " % i for i in range(31)) + "optional group G = 1 { }" + "}" * 31)
    add("nesting-map-32", P2 + "".join("message M%d { " % i for i in range(31)) + "map<int32,int32> m = 1;" + "}" * 31)
    add("extend-group", P2 + "message M { extensions 5 to 9; } extend M { optional group Grp = 5 { optional int32 a = 1; } optional int32 x = 6; }")
    add("extend-group-nested", P2 + "message M { extensions 5 to 9; message N { extend M { repeated group Grp = 5 { } } optional Grp g = 1; } }")
    add("map-json-name", P3 + 'message M { map<string,int32> foo_bar = 1 [json_name="x"]; int32 x = 2; }')
    add("rpc-dup", P2 + "service S { rpc R(M) returns (M); rpc R(M) returns (M); } message M {}")
    add("service-msg-dup", P2 + "service S { } message S {}")
    add("oneof-field-json", P3 + "message M { oneof o { int32 foo_bar = 1; int32 fooBar = 2; } }")
    add("enum-neg-hex", P2 + "enum E { A = -0x1; B = 0x7fffffff; C = -0x80000000; }")
    add("ext-json-conflict", P3 + "message M { int32 a_b = 1; }")
    add("enum-json-prefix", P3 + "enum FooBar { FOO_BAR_BAZ = 0; BAZ = 1; }")
    add("enum-json-prefix-underscores", P3 + "enum Foo_Bar { FOOBAR_X = 0; FOO_BAR__X = 1; }")
    add("enum-json-prefix-all", P3 + "enum Foo { FOO = 0; FOO_ = 1; }")
    add("enum-json-case", P3 + "enum E { ab_c = 0; AB_C = 1; }")
    DECL = 'verification=DECLARATION, declaration={ number: %d full_name: ".foo.e%d" type: "%s" %s}'
    for first_declared in (True, False):
        for num in (1, 10, 11, 20):
            for variant in ("match", "type", "name", "undeclared", "reserved", "repeated"):
                dn = num if variant != "undeclared" else ((5 if num != 5 else 6) if num <= 10 else 15)
                extra = "reserved: true " if variant == "reserved" else ("repeated: true " if variant == "repeated" else "")
                decl = DECL % (dn, num if variant != "name" else 99, "int32" if variant != "type" else "string", extra)
                if variant == "reserved":
                    decl = "verification=DECLARATION, declaration={ number: %d reserved: true }" % dn
                inside = (num <= 10) == first_declared
                if not inside and variant != "match":
                    continue          # the declaration would lie outside its range: a different rule
                if not inside:
                    decl = "verification=DECLARATION, declaration={ number: %d full_name: \".foo.other\" type: \"int32\" }" % (5 if first_declared else 15)
                r1 = "extensions 1 to 10 [%s];" % decl if first_declared else "extensions 1 to 10;"
                r2 = "extensions 11 to 20;" if first_declared else "extensions 11 to 20 [%s];" % decl
                add("extdecl-%s-%d-%s" % ("first" if first_declared else "second", num, variant),
                    P2 + 'import "extendee.proto"; package foo; extend A { optional int32 e%d = %d; }' % (num, num),
                    {"extendee.proto": P2 + "message A { %s %s }" % (r1, r2)})
    STD = {"google/protobuf/descriptor.proto": P2 + "package google.protobuf; message FieldOptions { extensions 1000 to max; } "
           "message ServiceOptions { extensions 1000 to max; } message FileOptions { extensions 1000 to max; }"}
    add("p3-extend-nested-nolabel", P3 + 'package demo; import "google/protobuf/descriptor.proto"; extend google.protobuf.FileOptions { int32 top = 50001; } '
        "message M { extend google.protobuf.FieldOptions { string note = 50002; optional string note2 = 50005; } "
        "message N { extend google.protobuf.ServiceOptions { M holder = 50003; repeated int32 r = 50004; } "
        "message O { extend google.protobuf.FieldOptions { bool deep = 50006; } } } }", STD)
    add("ed-extend-nested-nolabel", ED + "package demo; message X { extensions 5 to 99; } extend X { int32 top = 5; } "
        "message M { extend X { string note = 6; repeated string notes = 7; } message N { extend X { M holder = 8; } "
        "message O { extend X { bool deep = 9; group } } } }".replace(" group }", " }"))
    add("p2-extend-nested", P2 + "package demo; message X { extensions 5 to 99; } "
        "message M { extend X { optional string note = 6; } message N { extend X { repeated M holder = 8; optional group Grp = 9 { } } } }")
    for num in (10, 11, 20):
        add("extdecl-samefile-undeclared-%d" % num, P2 + 'package foo; message A { extensions 1 to 10; extensions 11 to 20 [verification=DECLARATION, '
            'declaration={ number: 15 full_name: ".foo.other" type: "int32" }]; } extend A { optional int32 e = %d; }' % num)
    add("extdecl-unverified", P2 + "package foo; message A { extensions 1 to 10 [verification=UNVERIFIED]; extensions 11 to 20 [verification=DECLARATION]; } "
        "extend A { optional int32 a = 10; }")
    add("extdecl-unverified-11", P2 + "package foo; message A { extensions 1 to 10 [verification=UNVERIFIED]; extensions 11 to 20 [verification=DECLARATION]; } "
        "extend A { optional int32 a = 11; }")
    add("extdecl-three-ranges", P2 + 'package foo; message A { extensions 1 to 4; extensions 5 [declaration={number: 5 full_name: ".foo.A.five" type: ".foo.A" repeated: true}]; '
        'extensions 6 to 9; extend A { repeated A five = 5; optional string four = 4; optional string six = 6; } }')
    add("map-enum-nonzero", P2 + "enum E { A = 1; } message M { map<int32, E> m = 1; }")
    add("map-enum-zero", P2 + "enum E { A = 0; B = 1; } message M { map<int32, E> m = 1; }")
    add("map-enum-second-zero", P2 + "enum E { B = 1; A = 0; } message M { map<string, E> m = 1; optional E e = 2; repeated E r = 3; }")
    add("map-enum-nonzero-imported", ED + 'import "x.proto"; message M { map<int32, .E> m = 1; }', {"x.proto": P2 + "enum E { A = 7; }"})
    add("map-enum-nonzero-nested", P2 + "message M { enum E { A = -1; } message N { map<int32, E> m = 1; } }")
    add("p3-closed-enum", P3 + 'import "x.proto"; message M { E e = 1; }', {"x.proto": P2 + "enum E { A = 0; }"})
    add("p3-closed-enum-optional", P3 + 'import "x.proto"; message M { optional E e = 1; }', {"x.proto": P2 + "enum E { A = 0; }"})
    add("p3-closed-enum-repeated", P3 + 'import "x.proto"; message M { repeated E e = 1; }', {"x.proto": P2 + "enum E { A = 0; }"})
    add("p3-closed-enum-map", P3 + 'import "x.proto"; message M { map<int32, E> e = 1; }', {"x.proto": P2 + "enum E { A = 0; }"})
    add("p3-closed-enum-oneof", P3 + 'import "x.proto"; message M { oneof o { E e = 1; } }', {"x.proto": P2 + "enum E { A = 0; }"})

    # cardinality differs from the declaration: validateExtension reports it at the label keyword of the extension;
    # an extension written without a label (editions, proto3) has none, and the compile of the file panics
    # (recovered, nothing reported) after whatever was reported before.  Minimised from the five file sets the
    # thorough tier found (replays/C01-1-1.json): extend at file level / nested, extendee in the same file / another
    # file / descriptor.proto, other mismatches first, other extensions before and after, a later importer.
    def XD(num, name, ty, rep):
        return 'declaration={ number: %d full_name: "%s" type: "%s" %s}' % (num, name, ty, "repeated: true " if rep else "")
    A1 = "message A { extensions 1 to 10 [%s]; }"
    add("extdecl-nolabel-ed-samefile", ED + "package foo; " + A1 % XD(1, ".foo.e", "int32", True) + " extend A { int32 e = 1; }")
    add("extdecl-nolabel-ed-samefile-match", ED + "package foo; " + A1 % XD(1, ".foo.e", "int32", False) + " extend A { int32 e = 1; }")
    add("extdecl-repeated-ed-samefile", ED + "package foo; " + A1 % XD(1, ".foo.e", "int32", False) + " extend A { repeated int32 e = 1; }")
    add("extdecl-nolabel-ed-name-first", ED + "package foo; " + A1 % XD(1, ".foo.x", "int32", True) + " extend A { int32 e = 1; }")
    add("extdecl-nolabel-ed-type-first", ED + "package foo; " + A1 % XD(1, ".foo.e", "string", True) + " extend A { int32 e = 1; }")
    add("extdecl-nolabel-ed-nested", ED + "package foo; message A { extensions 1 to 10 [%s]; message N { extend A { int32 e = 1; } } }" % XD(1, ".foo.A.N.e", "int32", True))
    add("extdecl-nolabel-ed-self-nested", ED + "package foo; message A { extensions 1 to 10 [verification=DECLARATION, %s]; extensions 11; "
        "extend A { int32 e = 11; int32 r = 1; } }" % XD(1, ".foo.A.r", "int32", True))
    add("extdecl-nolabel-ed-two-exts", ED + "package foo; message A { extensions 1 to 10 [%s, %s]; } extend A { int32 e = 1; int32 f = 2; }"
        % (XD(1, ".foo.e", "int32", True), XD(2, ".foo.f", "string", False)))
    add("extdecl-nolabel-ed-two-exts-rev", ED + "package foo; message A { extensions 1 to 10 [%s, %s]; } extend A { int32 f = 2; int32 e = 1; }"
        % (XD(1, ".foo.e", "int32", True), XD(2, ".foo.f", "string", False)))
    XSTD = {"google/protobuf/descriptor.proto": P2 + "package google.protobuf; message FieldOptions { extensions 1000 to max [%s, %s]; }"
            % (XD(1000, ".demo.note", "string", True), XD(1001, ".demo.M.deep", "bool", True))}
    add("extdecl-nolabel-p3-descriptor", P3 + 'package demo; import "google/protobuf/descriptor.proto"; extend google.protobuf.FieldOptions { string note = 1000; }', XSTD)
    add("extdecl-optional-p3-descriptor", P3 + 'package demo; import "google/protobuf/descriptor.proto"; extend google.protobuf.FieldOptions { optional string note = 1000; }', XSTD)
    add("extdecl-repeated-p3-descriptor", P3 + 'package demo; import "google/protobuf/descriptor.proto"; extend google.protobuf.FieldOptions { repeated string note = 1000; }', XSTD)
    add("extdecl-nolabel-ed-descriptor-nested", ED + 'package demo; import "google/protobuf/descriptor.proto"; message M { extend google.protobuf.FieldOptions { bool deep = 1001; } }', XSTD)
    add("extdecl-optional-p2-otherfile", P2 + 'package foo; import "x.proto"; extend A { optional int32 e = 1; }',
        {"x.proto": P2 + "package foo; " + A1 % XD(1, ".foo.e", "int32", True)})
    add("extdecl-nolabel-ed-otherfile-importer", ED + 'package foo; import "x.proto"; extend A { int32 e = 1; } message B { }',
        {"x.proto": P2 + "package foo; " + A1 % XD(1, ".foo.e", "int32", True), "u.proto": P3 + 'package foo; import "t.proto"; message C { B b = 1; }'})
    add("extdecl-nolabel-ed-public-import", ED + 'package foo; import "y.proto"; extend A { int32 e = 1; string s = 2; }',
        {"x.proto": P2 + "package foo; message A { extensions 1 to 10 [%s, %s]; }" % (XD(1, ".foo.e", "int32", True), XD(2, ".foo.s", "string", False)),
         "y.proto": P2 + 'import public "x.proto";'})
    return c


CORPUS = _corpus()


# ---------------------------------------------------------------- identifier shapes, enumerated
SHAPE_ALPHA = "aZ_9"
SHAPE_WIDE = "abxyzABXYZ_0129"
# names that look like the X-prefixed candidates of GenerateSyntheticOneofs themselves
SHAPE_EXTRA = ["X", "X_", "_X", "X_a", "XX_a", "X__a", "__X", "_X_a", "x_a", "Xa", "_Xa", "X_X_a", "a_X", "aX_"]


def shape_ids(rng, maxlen, nrandom):
    """identifiers: every one of length <= maxlen over {a,Z,_,9}, the X-prefixed look-alikes, and random longer ones
    (underscore-rich) over a wider alphabet"""
    import itertools
    ids = []
    for n in range(1, maxlen + 1):
        for t in itertools.product(SHAPE_ALPHA, repeat=n):
            if t[0] != "9":
                ids.append("".join(t))
    ids += SHAPE_EXTRA
    for _ in range(nrandom):
        n = rng.range(maxlen + 1, maxlen + 8)
        t = "".join("_" if rng.chance(1, 3) else rng.choice(SHAPE_WIDE) for _ in range(n))
        if t[0] in "0129":
            t = rng.choice(["_", "__", "a", "Z"]) + t
        ids.append(t)
    seen, out = set(), []
    for i in ids:
        if i not in seen:
            seen.add(i)
            out.append(i)
    return out


def _camel(s, cap):
    out = []
    for ch in s:
        if ch == "_":
            cap = True
        elif cap:
            out.append(ch.upper() if "a" <= ch <= "z" else ch)
            cap = False
        else:
            out.append(ch)
    return "".join(out)


def shape_sets(ids):
    """[(label, {path: text})]: for every identifier small file sets that put it wherever a descriptor entry is derived
    from a name.  proto3: proto3-optional fields (synthetic oneof name: alone, with the first / first two free
    candidates of its chain taken by a real oneof or a plain field, declared before or after, inside a nested message,
    and together with the one other field name whose chain meets its own, in both orders), oneof members, map fields;
    proto2: fields, extensions (nested and at file level), map fields, groups (as field, oneof member, extension;
    identifiers that start with a capital); editions: fields and map fields.  What may be rejected for a reason of its
    own (JSON conflict of the pair) sits in a file set of its own, so it cannot hide the rest."""
    out = []
    for i in ids:
        chain = synth_chain(i, 5)
        free = [x for x in chain if x != i]
        b1, b2 = free[0], free[1]
        partner = i[1:] if i.startswith("_") and len(i) > 1 and i[1] not in "0123456789" else "_" + i
        entry_ok = _camel(i, True)[:1] not in tuple("0123456789")       # a map entry type is an identifier as well
        mp3 = ("message M6 { map<string, int32> %s = 1; }\n" % i) if entry_ok else ""
        out.append(("shape-p3:" + i, {"t.proto": P3 + "package sh;\n"
                    "message M1 { optional int32 %s = 1; }\n"
                    "message M2 { optional int32 %s = 1; oneof %s { int32 q = 2; } }\n"
                    "message M3 { oneof %s { int32 q = 2; } message N { optional bytes %s = 7; int32 z = 1; } optional N %s = 1; int32 %s = 3; }\n"
                    "message M4 { int32 k = 9; oneof real { int32 %s = 1; string r2 = 4; } optional int32 after = 2; }\n"
                    "message M5 { optional int32 first = 1; repeated int32 %s = 2; optional int32 last = 3; }\n"
                    % (i, i, b1, b1, i, i, b2, i, i) + mp3}))
        if _camel(i, False) != _camel(partner, False):      # equal default JSON names: rejected by both compilers
            out.append(("shape-p3-pair:" + i, {"t.proto": P3 +
                        "message M1 { optional string %s = 1; optional int32 %s = 2; }\n"
                        "message M2 { optional int32 %s = 2; int32 k = 3; optional string %s = 1; }\n" % (i, partner, partner, i)}))
        grp = ""
        if "A" <= i[0] <= "Z":
            grp = ("message M5 { optional group %s = 1 { optional int32 %s = 1; } }\n"
                   "message M6 { oneof o { group %s = 2 { } int32 k = 3; } }\n"
                   "message M7 { extend M1 { repeated group %s = 103 { } } }\n" % (i, i, i, i))
        mp2 = ("message M4 { map<int32, M1> %s = 1; }\n" % i) if entry_ok else ""
        out.append(("shape-p2:" + i, {"t.proto": P2 + "package sh.p2;\n"
                    "message M1 { optional int32 %s = 1; extensions 100 to 199; }\n"
                    "message M2 { repeated string k = 1; oneof o { bytes %s = 2; } required M1 %s = 3; }\n"
                    "message M3 { extend M1 { optional int32 %s = 100; } }\n"
                    "extend M1 { repeated M1 %s = 101; }\n" % (i, i, "r9_" + i, i, i) + mp2 + grp}))
        mpe = ("message M2 { map<string, M1> %s = 1; }\n" % i) if entry_ok else ""
        out.append(("shape-ed:" + i, {"t.proto": ED +
                    "message M1 { int32 %s = 1; repeated M1 %s = 2; }\n" % (i, "x9" + i) + mpe}))
    return out


# ---------------------------------------------------------------- duplicate / overlap rules and the meaning of `max`, enumerated
MSGSET_MAX = 2**31 - 2
INT32_MAX = 2**31 - 1
INT32_MIN = -2**31


def dup_sets():
    """[(label, {path: text})]: every duplicate / overlap rule of a message or enum, one rule per file set, in all three
    syntaxes - so in BOTH spellings of reserved names (string literals in proto2 / proto3, identifiers in editions):

      * a name reserved twice: within one statement (adjacent, apart, three times), across statements (adjacent, with other
        declarations between, as first / last name of the later statement, after several statements), and the accepted
        look-alikes (distinct names, names differing in case or by a suffix, the same name in a nested message / nested
        enum / sibling message: the rule is per message)
      * the wrong spelling for the syntax, alone and together with a duplicate
      * a field / oneof member / map field / group field (enum: value) whose name is reserved, declared before or after the
        reserved statement, reserved in the first or a later statement; accepted look-alikes (case differs, nested
        message's field, extension declared inside the message, group type name)
      * reserved ranges that share a number within one statement and across statements (also with max), adjacent ones
        (accepted), the same single number twice; extension ranges likewise and against reserved ranges
      * a field number (enum: value) on the first / last number of a reserved or extension range, one before, one after,
        also when the range ends in max"""
    out = []
    for syn, tag in ((P2, "p2"), (P3, "p3"), (ED, "ed")):
        ed = syn == ED
        lbl = "optional " if syn == P2 else ""

        def q(n, other=False):
            return n if (ed != other) else '"%s"' % n

        def rs(*names, **kw):
            return "reserved " + ", ".join(q(n, kw.get("other", False)) for n in names) + ";"

        def msg(body):
            return syn + "package dp; message M { %s }\n" % body

        def enum(body):
            return syn + "package dp; enum E { E_ZERO = 0; %s }\n" % body

        def add(label, text):
            out.append(("dup-%s:%s" % (tag, label), {"t.proto": text}))
        F = lbl + "int32 keep = 1;"
        V = "E_KEEP = 1;"
        for cont, wrap, X in (("msg", msg, F), ("enum", enum, V)):
            a, b, c = ("foo", "bar", "baz") if cont == "msg" else ("E_FOO", "E_BAR", "E_BAZ")
            for label, body in [
                    ("same-stmt", rs(a, a)), ("same-stmt-apart", rs(a, b, a)), ("same-stmt-last-two", rs(b, a, a)),
                    ("same-stmt-thrice", rs(a, a, a)), ("two-stmts", rs(a) + " " + rs(a)),
                    ("two-stmts-apart-last", rs(a) + " " + X + " " + rs(b, a)), ("two-stmts-apart-first", rs(b, a) + " " + X + " " + rs(a, c)),
                    ("two-stmts-before-decl", rs(a) + " " + rs(b, a, c) + " " + X),
                    ("four-stmts", rs(a) + " " + rs(b) + " " + X + " " + rs(c) + " " + rs(a)),
                    ("two-pairs", rs(a, b) + " " + rs(b, a)),
                    ("ok-distinct", rs(a, b) + " " + X + " " + rs(c)), ("ok-case", rs(a) + " " + rs(a.swapcase())),
                    ("ok-suffix", rs(a, a + "_") + " " + rs(a + a, "_" + a)),
                    ("wrong-form", rs(a, other=True)), ("wrong-form-dup", rs(a, a, other=True)),
                    ("wrong-form-then-dup", rs(a, other=True) + " " + rs(b) + " " + rs(b)),
                    ("both-forms-dup", rs(a) + " " + rs(a, other=True))]:
                add("%s-name-%s" % (cont, label), wrap(body))
        # the rule is per message / per enum
        add("msg-name-ok-nested", msg(rs("foo") + " message N { " + rs("foo") + " } enum E { E_ZERO = 0; " + rs("foo") + " } " + F))
        add("msg-name-ok-sibling", syn + "message M { %s } message N { %s } enum E { E_ZERO = 0; %s } enum G { G_ZERO = 0; %s }\n"
            % (rs("foo"), rs("foo"), rs("foo"), rs("foo")))
        add("msg-name-nested-dup", msg(rs("foo") + " message N { " + rs("foo", "bar") + " " + rs("foo") + " }"))
        add("msg-name-nested-enum-dup", msg(rs("foo") + " enum E { E_ZERO = 0; " + rs("foo") + " " + rs("bar", "foo") + " }"))
        # names in use
        fld = lambda n, k=2: lbl + "int32 %s = %d;" % (n, k)
        for label, body in [
                ("field-after", rs("foo") + " " + fld("foo")), ("field-before", fld("foo") + " " + rs("foo")),
                ("field-second-stmt", rs("bar") + " " + fld("foo") + " " + rs("baz", "foo")),
                ("field-second-name", rs("bar", "foo") + " " + fld("foo")),
                ("oneof-member", rs("foo") + " oneof o { int32 foo = 2; string other = 3; }"),
                ("map-field", rs("foo") + " map<string, int32> foo = 2;"),
                ("ok-field-case", rs("foo") + " " + fld("Foo")), ("ok-field-suffix", rs("foo") + " " + fld("foo_") + " " + fld("fo", 3)),
                ("ok-nested-field", rs("foo") + " message N { " + fld("foo") + " }"),
                ("ok-oneof-name", rs("foo") + " oneof foo { int32 member = 2; }"),
                ("ok-nested-type-name", rs("Foo") + " message Foo { } " + fld("foo"))]:
            add("msg-used-" + label, msg(body))
        if syn != P3:
            add("msg-used-ok-extension", msg(rs("foo") + " extensions 100 to 199; extend M { " + fld("foo", 100) + " }"))
        if syn == P2:
            add("msg-used-group-field", msg(rs("grp") + " optional group Grp = 2 { }"))
            add("msg-used-ok-group-type", msg(rs("Grp") + " optional group Grp = 2 { }"))
            add("msg-used-oneof-group", msg(rs("bar", "grp") + " oneof o { group Grp = 2 { } int32 k = 3; }"))
        for label, body in [
                ("value-after", rs("E_FOO") + " E_FOO = 1;"), ("value-before", "E_FOO = 1; " + rs("E_FOO")),
                ("value-second-stmt", rs("E_BAR") + " E_FOO = 1; " + rs("E_BAZ", "E_FOO")),
                ("first-value", rs("E_BAR", "E_ZERO")), ("ok-value-case", rs("E_FOO") + " e_foo = 1;"),
                ("ok-other-enum", rs("E_FOO") + " } enum G { E_FOO = 0;")]:
            add("enum-used-" + label, enum(body))
        # numeric ranges of a message
        kinds = [("reserved", "rsv")] + ([("extensions", "ext")] if syn != P3 else [])
        for kw, kt in kinds:
            for label, body in [
                    ("touch-same-stmt", "%s 1 to 5, 5 to 9;" % kw), ("adjacent-same-stmt", "%s 1 to 5, 6 to 9;" % kw),
                    ("touch-unsorted", "%s 20, 5 to 9, 1 to 5;" % kw), ("touch-two-stmts", "%s 1 to 5; %s %s 5;" % (kw, F.replace("= 1;", "= 99;"), kw)),
                    ("adjacent-two-stmts", "%s 6 to 9; %s 1 to 5;" % (kw, kw)), ("single-twice", "%s 7; %s 7;" % (kw, kw)),
                    ("single-twice-same-stmt", "%s 7, 8, 7;" % kw), ("inside-two-stmts", "%s 1 to 100; %s 200; %s 50 to 60;" % (kw, kw, kw)),
                    ("max-vs-last", "%s 1000 to max; %s %d;" % (kw, kw, FIELD_MAX)), ("max-vs-max", "%s 1000 to max, 2000 to max;" % kw),
                    ("max-adjacent", "%s 1000 to max; %s 999;" % (kw, kw)),
                    ("field-on-start", "%s 5 to 9; %s" % (kw, fld("f", 5))), ("field-on-end", "%s 5 to 9; %s" % (kw, fld("f", 9))),
                    ("field-before", "%s 5 to 9; %s" % (kw, fld("f", 4))), ("field-after", "%s 5 to 9; %s" % (kw, fld("f", 10))),
                    ("field-declared-first", "%s %s 5 to 9;" % (fld("f", 9), kw)),
                    ("field-second-stmt", "%s 1 to 3; %s %s 5 to 9, 20;" % (kw, fld("f", 20), kw)),
                    ("field-in-max", "%s 1000 to max; %s" % (kw, fld("f", FIELD_MAX))), ("field-below-max", "%s 1000 to max; %s" % (kw, fld("f", 999))),
                    ("map-field-on-end", "%s 5 to 9; map<int32, int32> f = 9;" % kw), ("oneof-member-on-start", "%s 5 to 9; oneof o { int32 f = 5; }" % kw)]:
                add("msg-%s-%s" % (kt, label), msg(body))
        if syn != P3:
            for label, body in [
                    ("touch", "extensions 1 to 5; reserved 5 to 9;"), ("touch-rev", "reserved 1 to 5; extensions 5 to 9;"),
                    ("adjacent", "extensions 1 to 5; reserved 6 to 9;"), ("same-single", "reserved 7; " + F.replace("= 1;", "= 99;") + " extensions 7;"),
                    ("max-both", "extensions 1000 to max; reserved 2000 to max;"), ("max-vs-last", "reserved 1000 to max; extensions %d;" % FIELD_MAX),
                    ("max-adjacent", "reserved 1000 to max; extensions 1 to 999;"), ("interleaved", "extensions 1 to 10, 21 to 30; reserved 11 to 20, 31;"),
                    ("interleaved-touch", "extensions 1 to 10, 21 to 30; reserved 11 to 21;")]:
                add("msg-ext-rsv-" + label, msg(body))
        if syn == P2:
            add("msg-rsv-group-on-end", msg("reserved 5 to 9; optional group Grp = 9 { }"))
        # numeric ranges of an enum (closed)
        for label, body in [
                ("touch-same-stmt", "reserved 1 to 5, 5 to 9;"), ("adjacent-same-stmt", "reserved 1 to 5, 6 to 9;"),
                ("touch-two-stmts", "reserved 1 to 5; E_KEEP = 99; reserved 5;"), ("single-twice", "reserved 7; reserved 7;"),
                ("negative-touch", "reserved -5 to -1; reserved -1 to 3;"), ("negative-adjacent", "reserved -5 to -1; reserved -9 to -6;"),
                ("max-vs-last", "reserved 1000 to max; reserved %d;" % INT32_MAX), ("max-vs-max", "reserved 1000 to max, 2000 to max;"),
                ("max-adjacent", "reserved 1000 to max, 999;"), ("value-on-start", "reserved 5 to 9; E_F = 5;"), ("value-on-end", "reserved 5 to 9; E_F = 9;"),
                ("value-before", "reserved 5 to 9; E_F = 4;"), ("value-after", "reserved 5 to 9; E_F = 10;"), ("value-declared-first", "E_F = 9; reserved 5 to 9;"),
                ("value-second-stmt", "reserved 2 to 3; E_F = 20; reserved 5 to 9, 20;"), ("value-in-max", "reserved 1000 to max; E_F = %d;" % INT32_MAX),
                ("value-below-max", "reserved 1000 to max; E_F = 999;"), ("zero-reserved", "reserved -1 to 0;"),
                ("value-negative-on-start", "reserved -9 to -5; E_F = -9;")]:
            add("enum-rsv-" + label, enum(body))
    return out


def max_sets():
    """[(label, {path: text})]: what `max` (and the largest explicit number) means in every kind of range - extension ranges
    and reserved ranges of a message, reserved ranges of an enum - in an ordinary message (2^29-1), a message with
    message_set_wire_format = true (2^31-2; option written before or after the range, = false, in a nested message of either
    kind inside a message of the other kind, in a group), and an enum (2^31-1, also nested in a message set).  One range
    statement per file set where the verdict may turn on it, so that the descriptor (range ends) of every accepted one is
    compared."""
    out = []
    for syn, tag in ((P2, "p2"), (ED, "ed"), (P3, "p3")):
        def add(label, text):
            out.append(("max-%s:%s" % (tag, label), {"t.proto": syn + "package mx;\n" + text + "\n"}))
        modes = [("plain", "", FIELD_MAX)]
        if syn != P3:
            modes += [("msgset", "option message_set_wire_format = true; ", MSGSET_MAX), ("msgset-false", "option message_set_wire_format = false; ", FIELD_MAX)]
        for mode, opt, lim in modes:
            for kw, kt in (("reserved", "rsv"), ("extensions", "ext")):
                if kw == "extensions" and syn == P3:
                    continue
                # a message set needs an extension range of its own (the Go code rejects one without; documented divergence)
                pre = opt + ("extensions 4 to 9; " if (mode == "msgset" and kw == "reserved") else "")
                for label, st in [
                        ("to-max", "%s 1000 to max;" % kw), ("to-limit", "%s 1000 to %d;" % (kw, lim)), ("to-limit-plus-1", "%s 1000 to %d;" % (kw, lim + 1)),
                        ("2-29", "%s %d;" % (kw, FIELD_MAX + 1))] if mode == "msgset-false" else [
                        ("to-max", "%s 1000 to max;" % kw), ("to-limit", "%s 1000 to %d;" % (kw, lim)), ("to-limit-plus-1", "%s 1000 to %d;" % (kw, lim + 1)),
                        ("to-limit-minus-1", "%s 1000 to %d;" % (kw, lim - 1)), ("limit", "%s %d;" % (kw, lim)), ("limit-plus-1", "%s %d;" % (kw, lim + 1)),
                        ("limit-to-max", "%s %d to max;" % (kw, lim)), ("limit-to-limit", "%s %d to %d;" % (kw, lim, lim)),
                        ("limit-plus-1-to-max", "%s %d to max;" % (kw, lim + 1)),
                        ("across-2-29", "%s %d to %d;" % (kw, FIELD_MAX, FIELD_MAX + 2)), ("2-29", "%s %d;" % (kw, FIELD_MAX + 1)),
                        ("to-int32-max", "%s 1000 to %d;" % (kw, INT32_MAX)), ("to-2-31", "%s 1000 to %d;" % (kw, 2**31)),
                        ("list-max-last", "%s 20, 30 to 40, 1000 to max;" % kw), ("list-max-first", "%s 1000 to max, 30 to 40, 20;" % kw),
                        ("two-stmts", "%s 20 to 30; %s 1000 to max;" % (kw, kw))]:
                    add("%s-%s-%s" % (mode, kt, label), "message M { %s%s }" % (pre, st))
                add("%s-%s-option-last" % (mode, kt), "message M { %s 1000 to max; %s%s }" % (kw, "extensions 4 to 9; " if kw == "reserved" and mode == "msgset" else "", opt))
            if syn != P3:
                add(mode + "-both-max-split", "message M { %sextensions 4 to 999; reserved 1000 to max; }" % opt)
                add(mode + "-both-max-split-rev", "message M { %sreserved 4 to 999; extensions 1000 to max; }" % opt)
                add(mode + "-both-last", "message M { %sextensions 4 to %d; reserved %d; }" % (opt, lim - 1, lim))
                add(mode + "-both-last-overlap", "message M { %sextensions 4 to max; reserved %d; }" % (opt, lim))
                add(mode + "-ext-at-limit", "message M { %sextensions 4 to max; } message N { } extend M { %sN n = %d; }"
                    % (opt, "optional " if syn == P2 else "", lim))
                add(mode + "-ext-above-limit", "message M { %sextensions 4 to max; } message N { } extend M { %sN n = %d; }"
                    % (opt, "optional " if syn == P2 else "", lim + 1))
        lbl = "optional " if syn == P2 else ""
        if syn != P3:
            MS = "option message_set_wire_format = true; extensions 4 to max; "
            add("nested-plain-in-msgset", "message M { %smessage N { reserved 1000 to max; extensions 4 to 999; %sint32 f = 1; } }" % (MS, lbl))
            add("nested-plain-in-msgset-ext", "message M { %smessage N { extensions 1000 to max; reserved 4 to 999; } }" % MS)
            add("nested-plain-in-msgset-2-29", "message M { %smessage N { reserved %d; } }" % (MS, FIELD_MAX + 1))
            add("nested-plain-in-msgset-field-2-29", "message M { %smessage N { %sint32 f = %d; } }" % (MS, lbl, FIELD_MAX + 1))
            add("nested-msgset-in-plain", "message M { reserved 1000 to max; %sint32 f = 1; message N { %sreserved 1 to 3; } }" % (lbl, MS))
            add("nested-msgset-in-plain-rsv", "message M { extensions 1000 to max; message N { option message_set_wire_format = true; extensions 4 to 9; reserved 1000 to max; } }")
            add("nested-msgset-in-msgset", "message M { %smessage N { option message_set_wire_format = true; reserved 10 to max; extensions 4 to 9; } }" % MS.replace("4 to max", "4 to 9; reserved 10 to max"))
            add("sibling-msgset-then-plain", "message M { %s} message N { reserved 1000 to max; extensions 4 to 999; }" % MS)
            add("sibling-plain-then-msgset", "message N { reserved 1000 to max; extensions 4 to 999; } message M { option message_set_wire_format = true; extensions 4 to 9; reserved 10 to max; }")
            add("enum-in-msgset", "message M { %senum E { E_ZERO = 0; reserved 5 to max; } }" % MS)
        if syn == P2:
            add("group-in-plain", "message M { optional group Grp = 1 { reserved 1000 to max; extensions 4 to 999; } }")
            add("group-in-extend", "message M { extensions 4 to max; } "
                "extend M { optional group Grp = 1000 { reserved 1000 to max; extensions 4 to 999; optional int32 f = 1; } }")
            add("group-in-extend-2-29", "message M { option message_set_wire_format = true; extensions 4 to max; } "
                "extend M { optional group Grp = %d { reserved %d; } }" % (FIELD_MAX + 1, FIELD_MAX + 1))
            add("oneof-group-in-plain", "message M { oneof o { group Grp = 1 { extensions 1000 to max; } int32 k = 2; } }")
        # enums
        for label, st in [
                ("to-max", "reserved 5 to max;"), ("negative-to-max", "E_NEG = -9; reserved -5 to max;" if syn != P3 else "reserved -5 to -1, 1 to max;"), ("min-to-max", "E_ZERO = 0; reserved %d to -1, 1 to max;" % INT32_MIN),
                ("to-limit", "reserved 5 to %d;" % INT32_MAX), ("to-limit-plus-1", "reserved 5 to %d;" % (INT32_MAX + 1)),
                ("to-limit-minus-1", "reserved 5 to %d;" % (INT32_MAX - 1)), ("limit", "reserved %d;" % INT32_MAX), ("limit-plus-1", "reserved %d;" % (INT32_MAX + 1)),
                ("limit-to-max", "reserved %d to max;" % INT32_MAX), ("min", "reserved %d;" % INT32_MIN), ("min-minus-1", "reserved %d to 5;" % (INT32_MIN - 1)),
                ("across-2-29", "reserved %d to %d;" % (FIELD_MAX, FIELD_MAX + 2)), ("msgset-limit-to-max", "reserved %d to max;" % MSGSET_MAX),
                ("list-max-first", "reserved 1000 to max, 30 to 40, 20;"), ("two-stmts", "reserved 20 to 30; reserved 1000 to max;"),
                ("value-at-limit", "reserved 5 to %d; E_F = %d;" % (INT32_MAX - 1, INT32_MAX))]:
            body = st if st.startswith(("E_ZERO", "E_NEG")) else "E_ZERO = 0; " + st
            add("enum-" + label, "enum E { %s }" % body)
    return out


def topo_order(asts):
    """imports before importers (stable); files importing something outside the set keep their place"""
    by = {f["name"]: f for f in asts}
    out, seen = [], set()

    def visit(f, stack):
        if f["name"] in seen or f["name"] in stack:
            return
        for i in f["imports"]:
            if i["path"] in by:
                visit(by[i["path"]], stack | {f["name"]})
        seen.add(f["name"])
        out.append(f)
    for f in asts:
        visit(f, frozenset())
    return out


def parse_sets(ctx, filesets):
    """filesets: list of {path: text}.  Returns per set (asts in topological order | None, reasons)."""
    ins, idx = [], []
    for k, fs in enumerate(filesets):
        for p in sorted(fs):
            ins.append({"mode": "parse", "path": p, "text": fs[p]})
            idx.append(k)
    outs = ctx.impl("miniproto", ins) if ins else []
    res = [([], []) for _ in filesets]
    for k, o in zip(idx, outs):
        asts, why = res[k]
        if "ast" not in o:
            why.append("syntax: " + str(o.get("syntax_error") or o.get("panic") or o.get("crash"))[:80])
            continue
        why += list(o["unfit"]) + fits_model(o["ast"])
        asts.append(o["ast"])
    out = []
    for k, (asts, why) in enumerate(res):
        names = set(f["name"] for f in asts)
        for f in asts:
            for i in f["imports"]:
                if i["path"] not in names:
                    why.append("import outside the set: " + i["path"])
        out.append((topo_order(asts) if len(asts) == len(filesets[k]) else None, why))
    return out


def first_by_file(files, out):
    first = {}
    for e in out.get("errs", []):
        if e["file"] not in first:
            first[e["file"]] = e["cls"]
    return [(f["name"], first.get(f["name"])) for f in files]


def c01_term(files, out):
    fl = clist([cpair(cbytes(n), "None" if c is None else "(Some %s)" % CLS.get(c, "EOther")) for n, c in first_by_file(files, out)])
    return "C01Case %s %s %s" % (clist([coq_file(f) for f in files]), cbool(out["ok"]), fl)


def spec_term(files, ok):
    return "SpecCase %s %s" % (clist([coq_file(f) for f in files]), cbool(ok))


def obs_by_name(out):
    return {fd["name"]: fd for fd in out.get("fds", [])}


def c02_terms(files, out):
    """(model case, spec case) for an accepted file set; None if a descriptor is missing"""
    by = obs_by_name(out)
    if any(f["name"] not in by for f in files):
        return None
    obs = clist([coq_obs_file(by[f["name"]]) for f in files])
    fs = clist([coq_file(f) for f in files])
    return "C02Case %s %s" % (fs, obs), "SpecDesc %s %s" % (fs, obs)


def gen_cases(rng, nprog, nmut, small=False, extended=False, idshapes=False, focus=()):
    """[(label, asts)] : valid programs and single-rule mutants of them; focus: mutators of which one (drawn at random)
    is applied to every program in addition (empty by default: not one extra draw from the random stream)"""
    progs = []
    for _ in range(nprog):
        g = Gen(rng, small, extended, idshapes)
        files = g.program()
        progs.append(("valid", files))
        mu = Mutator(rng)
        names = [n for n in mu.names() if extended or n not in EXTENDED_MUTATORS]
        for _ in range(nmut):
            nm = rng.choice(names)
            m = mu.apply(nm, files)
            if m is not None:
                progs.append((nm, m))
        if extended:
            m = mu.apply("extension_declaration", files)
            if m is not None:
                progs.append(("extension_declaration", m))
        if focus:
            nm = rng.choice(list(focus))
            m = mu.apply(nm, files)
            if m is not None:
                progs.append((nm, m))
    return progs


def render_sets(rng, progs):
    ren = Renderer(rng)
    return [{f["name"]: ren.file(f) for f in files} for _, files in progs]


def compile_inputs(filesets, orders):
    return [{"mode": "compile", "files": fs, "roots": order} for fs, order in zip(filesets, orders)]


def plain_text(files):
    from vlib import Rng
    ren = Renderer(Rng(1), plain=True)
    return {f["name"]: ren.file(f) for f in files}


# ---- the protoc-made goldens and the protoc-confirmed case tables of the repository
def golden_sets(repo):
    """[(protoset path, [file names in the set])] is filled by the caller from the harness"""
    import glob
    import os
    return sorted(glob.glob(os.path.join(repo, "internal", "testdata", "*.protoset")) +
                  glob.glob(os.path.join(repo, "internal", "testdata", "editions", "*.protoset")))


def golden_source(repo, name):
    import os
    for base in (os.path.join(repo, "internal", "testdata"), os.path.join(repo, "internal", "testdata", "editions"),
                 os.path.join(repo, "wellknownimports")):
        p = os.path.join(base, name)
        if os.path.exists(p):
            return open(p, encoding="utf-8", errors="surrogateescape").read()
    return None


FLOATS = ("float", "double")


def strip_unmodelled_defaults(ast, obs):
    """float / double defaults are outside the model: drop them on both sides"""
    drop = set()

    def walk(els, path):
        for e in els:
            k = e["k"]
            if k == "field" and e["type"] in FLOATS:
                if any(o["name"] == "default" for o in e["opts"]):
                    e["opts"] = [o for o in e["opts"] if o["name"] != "default"]
                    drop.add(tuple(path + [e["name"]]))
            if k in ("message", "group"):
                walk(e["body"], path + [e["name"]])
                if k == "group" and False:
                    pass
            elif k in ("oneof", "extend"):
                walk(e["elems"], path)
    walk([d for d in ast["decls"] if d["k"] != "service"], [])

    def clear(ms, path):
        for m in ms:
            for f in m["fields"] + m["extensions"]:
                if tuple(path + [m["name"], f["name"]]) in drop:
                    f["has_default"], f["default"] = False, ""
            clear(m["nested"], path + [m["name"]])
    if obs is not None:
        clear(obs["messages"], [])
        for f in obs["extensions"]:
            if (f["name"],) in drop:
                f["has_default"], f["default"] = False, ""


def cached_eval(name, terms, chk, shard_size):
    """coq_eval_mismatches for inputs that do not depend on the implementation under test (protoc's
    goldens and case tables evaluated by the specification): the result is a function of the
    terms and of the Coq sources, so it is cached under .cache keyed by their hash."""
    import hashlib
    import json
    import os
    from vlib import coq_eval_mismatches, COQ, CACHE
    h = hashlib.sha1()
    h.update((HEADER + "\0" + chk + "\0").encode())
    for f in COQ_MODEL_FILES:
        h.update(open(os.path.join(COQ, f), "rb").read())
    for t in terms:
        h.update(t.encode())
        h.update(b"\0")
    d = os.path.join(CACHE, "miniproto-spec")
    os.makedirs(d, exist_ok=True)
    p = os.path.join(d, name + "-" + h.hexdigest()[:20] + ".json")
    if os.path.exists(p):
        return json.load(open(p)), None
    bad, err = coq_eval_mismatches(name, HEADER, terms, chk, shard_size=shard_size)
    if not err:
        json.dump(bad, open(p, "w"))
    return bad, err


def golden_label(repo, path):
    import os
    return os.path.relpath(path, os.path.join(repo, "internal", "testdata"))


def load_goldens(ctx, repo):
    """[(label, asts in dependency order, {file name: observed projection})] for every protoc-made
    descriptor set whose sources are in the repository and inside the fragment (options that do not
    affect the projected fields are dropped; float defaults are dropped on both sides)"""
    sets = []
    for ps in golden_sets(repo):
        o = ctx.impl("miniproto", [{"mode": "protoset", "path": ps}], shards=1)[0]
        fds = o.get("fds", [])
        srcs = {fd["name"]: golden_source(repo, fd["name"]) for fd in fds}
        if not fds or any(v is None for v in srcs.values()):
            continue
        sets.append((golden_label(repo, ps), srcs, {fd["name"]: fd for fd in fds}))
    parsed = parse_sets(ctx, [s for _, s, _ in sets])
    out, skipped = [], []
    for (label, _, obs), (asts, why) in zip(sets, parsed):
        if asts is None or any(w.startswith(("syntax", "import outside", "edition", "missing", "map key", "visibility")) or "features" in w for w in why):
            skipped.append(label)
            continue
        for f in asts:
            strip_unmodelled_defaults(f, obs.get(f["name"]))
        out.append((label, asts, obs))
    return out, skipped
