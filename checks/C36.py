"""C36 - Diagnostics are deterministic (report.Report.Canonicalize + incremental.Run report collection)."""
import glob
import itertools
import os
import re
from vlib import *

ID = "C36"
COQ_FILES = ["Common/Corr.v", "Model/Canon.v", "Proofs/Canon.v", "Props/C36.v"]
PROPS = "Props/C36.v"
# "asis" = the six-key comparison of the pinned code; "repaired" = after the proposed tie-break repair of
# Canonicalize (two more keys: level, then Diagnostic.tieBreak; Model/Canon.v dcmp2). Flip the default when
# the repair is committed to /repo.
MODEL = os.environ.get("VERIF_C36_MODEL", "asis")
assert MODEL in ("asis", "repaired")
THEOREMS = ["C36_canon_rel_total", "C36_canon_idempotent", "C36_canon_idempotent_unique", "C36_canonicalize_idempotent",
            "C36_canon_idempotent_needs_no_sentinel", "C36_canon_perm_invariant", "C36_canon_perm_invariant_needs_injective",
            "C36_run_report_order_independent",
            "C36_canon_perm_invariant_repaired", "C36_canon_idempotent_repaired", "C36_run_report_order_independent_repaired",
            "C36_run_report_leaves_task_diagnostics_unchanged", "C36_run_heap_rerun_same", "C36_run_heap_is_run_report",
            "C36_run_alias_changes_task",
            "C36_run_walk_is_dependency_closure", "C36_run_walk_history_independent"]
AXIOMS_OK = []
TRUSTED = ["hand-written Gallina model of Report.Canonicalize (Model/Canon.v): the sort is a relation (any sorted permutation), "
           "marking and deletion are functions as written",
           "correspondence harness (harness/cmd/canon) + verif hook report.VerifNewDiagnostic/VerifViewDiagnostic",
           "incremental.Run is modelled as: the diagnostic slices of the visited tasks, each once, appended in some order to a report slice "
           "(heap of backing arrays, append in place or reallocating, any growth policy), then Canonicalize in place; "
           "that each task's own report is a function of the inputs is exercised (parallelism 1..8, repeated, re-run on the same executor), not proved",
           "which tasks a Run visits is modelled by a hand-written event system over the forward edges (Model/Canon.v Section RunWalk: a running task "
           "records the edge to every dependency it asks for, memoised or not, before it can complete); it is tied to the code only by the history "
           "oracle (every step of a history of Runs on one executor reports what a fresh executor reports), not by a correspondence inside coqc"]
ASSUMPTIONS = ["permutation invariance is proved under keys_injective: no two different diagnostics of the list agree on all six sort keys "
               "(path of primary span, sortOrder, start, end, tag, message); without it the statement is false (C36_canon_perm_invariant_needs_injective)",
               "idempotence is proved under no_sentinel: no diagnostic has level -1, the value Canonicalize uses as its deletion mark "
               "(C36_canon_idempotent_needs_no_sentinel); -1 is not a Level constant",
               "a *source.File is identified by (id, path): equal ids imply equal paths in every generated case",
               "the workspace path order is part of the input of a compiler run (it is not permuted)"]

PATHS = [b"", b"a.proto", b"a.proto", b"b.proto", b"a", b"a\xc3\xa9", b"dir/c.proto"]
TAGS = [b"", b"", b"t", b"tag-a", b"tag-b", b"u"]
MSGS = [b"m", b"m", b"n", b"", b"ma", b"M", b"\xc3\xa9", b"z"]


def hx(b):
    return b.hex()


# ---------------------------------------------------------------- diagnostic lists
def gen_diag(rng, nfiles, ident, small=False, sentinel=False):
    if rng.chance(1, 6):
        prim = None
    else:
        fi = rng.below(nfiles) if nfiles and not rng.chance(1, 12) else -1
        s = rng.choice([0, 0, 1, 2, 3]) if small else rng.range(0, 6)
        e = s + (rng.choice([0, 1, 1, 2]) if small else rng.range(0, 4))
        prim = {"file": fi, "start": s, "end": e}
    lv = rng.choice([1, 2, 2, 3, 4])
    if sentinel and rng.chance(1, 5):
        lv = -1
    return {"id": ident, "prim": prim, "sort": rng.choice([0, 0, 10, 20] if small else [0, 10, 20, 30, -10]),
            "tag": hx(rng.choice(TAGS)), "msg": hx(rng.choice(MSGS[:3] if small else MSGS)), "level": lv,
            "decoy": rng.chance(1, 5)}


def gen_list(rng, n, small, sentinel):
    nfiles = rng.range(1, 4)
    files = [{"path": hx(rng.choice(PATHS))} for _ in range(nfiles)]
    diags = [gen_diag(rng, nfiles, i + 1, small, sentinel) for i in range(n)]
    # duplicates of existing entries (same keys; sometimes another level) to force ties and dedup runs
    for _ in range(rng.choice([0, 1, 2, 3])):
        if diags:
            d = dict(rng.choice(diags))
            d["id"] = len(diags) + 1
            if rng.chance(1, 2):
                d["level"] = rng.choice([2, 3, 4])
            if rng.chance(1, 3):
                d["msg"] = hx(rng.choice(MSGS))
            diags.append(d)
    return files, rng.shuffle(diags)


def canon_corpus():
    F = [{"path": hx(b"a")}, {"path": hx(b"a")}, {"path": hx(b"b")}]

    def d(i, prim, sort=0, tag=b"", msg=b"m", level=2, decoy=False):
        return {"id": i, "prim": None if prim is None else {"file": prim[0], "start": prim[1], "end": prim[2]},
                "sort": sort, "tag": hx(tag), "msg": hx(msg), "level": level, "decoy": decoy}
    out = []
    out.append((F, [d(1, None, level=2), d(2, None, level=3)]))                       # tie_a / tie_b
    out.append((F, [d(1, (0, 0, 1), 0, b"t"), d(2, (0, 0, 1), 1, b"u", level=-1), d(3, (0, 0, 1), 2, b"t")]))  # sentinel
    out.append((F, [d(1, (0, 3, 5), 10, b"t"), d(2, (0, 3, 5), 10, b"t", b"n"), d(3, (0, 0, 1), 20, b"", b"z", 3), d(4, None, 0, b"", b"e", 1)]))
    out.append((F, [d(1, (0, 3, 5), 0, b"t"), d(2, (1, 3, 5), 0, b"t", b"n")]))       # same path, two File objects: no dedup
    out.append((F, [d(1, (0, 3, 5), 0, b"t"), d(2, (0, 3, 5), 0, b""), d(3, (0, 3, 5), 0, b"t", b"n")]))
    out.append((F, [d(1, (0, 3, 5), 0, b"t"), d(2, (0, 3, 5), 5, b"", b"q"), d(3, (0, 3, 5), 9, b"t")]))  # untagged between duplicates
    out.append((F, [d(1, (-1, 0, 0), 0, b"t"), d(2, None, 0, b"t", b"n")]))           # nil file primary vs no primary
    out.append((F, [d(1, (2, 1, 2), 0, b"t", decoy=True), d(2, (2, 1, 2), 0, b"t", b"n", decoy=True)]))
    out.append((F, []))
    return out


# ---------------------------------------------------------------- workspaces for the compiler
NAMES = ["Foo", "Bar", "Baz", "Qux"]


def gen_file(rng, idx, nfiles, pkg, acyclic=False):
    lines = []
    syn = rng.choice(['syntax = "proto2";', 'syntax = "proto3";', 'edition = "2023";', 'syntax = "proto2";', ''])
    lines.append(syn)
    lines.append("package %s;" % pkg)
    for _ in range(rng.choice([0, 1, 1, 2, 3])):
        k = rng.below(nfiles + 2)
        if acyclic and k < nfiles:
            k = rng.below(idx) if idx else nfiles
        target = "f%d.proto" % k if k < nfiles else rng.choice(["missing.proto", "google/protobuf/any.proto"])
        lines.append('import %s"%s";' % (rng.choice(["", "", "public ", "weak "]), target))
    for _ in range(rng.range(1, 4)):
        n = rng.choice(NAMES)
        kind = rng.below(6)
        if kind <= 2:
            body = []
            for fi in range(rng.range(0, 3)):
                ty = rng.choice(["int32", "string", "Foo", "Bar", "Missing", ".%s.Baz" % pkg, "bytes"])
                lab = rng.choice(["optional ", "repeated ", "required ", ""])
                body.append("  %s%s f%d = %d;" % (lab, ty, rng.below(3), rng.choice([1, 1, 2, 3, 19000, 0])))
            if rng.chance(1, 3):
                body.append("  extensions 100 to 200;")
            if rng.chance(1, 4):
                body.append("  message %s { }" % rng.choice(NAMES))
            lines.append("message %s {\n%s\n}" % (n, "\n".join(body)))
        elif kind == 3:
            lines.append("enum %s { %s_A = 0; %s_B = %d; }" % (n, rng.choice(NAMES).upper(), rng.choice(NAMES).upper(), rng.below(2)))
        elif kind == 4:
            lines.append("service %s { rpc Do(%s) returns (%s); }" % (n, rng.choice(NAMES), rng.choice(NAMES + ["Nope"])))
        else:
            lines.append("extend %s { optional int32 ext%d = %d; }" % (rng.choice(NAMES), rng.below(3), rng.choice([100, 100, 101, 150, 300])))
    text = "\n".join(lines) + "\n"
    # syntax damage
    if rng.chance(1, 4):
        pos = rng.below(len(text))
        text = text[:pos] + rng.choice([";", "}", "{", "=", "\"", "message", " 1x ", "\x01"]) + text[pos + rng.below(3):]
    return text


def gen_workspace(rng):
    nfiles = rng.range(2, 7)
    pkgs = [rng.choice(["p", "p", "p", "q", "p.q"]) for _ in range(nfiles)]
    acyclic = rng.chance(7, 10)
    files = [{"path": "f%d.proto" % i, "text": gen_file(rng, i, nfiles, pkgs[i], acyclic)} for i in range(nfiles)]
    if rng.chance(1, 3):           # an exact copy of a file under another path: same diagnostics, other path
        src = rng.choice(files)
        files.append({"path": "copy.proto", "text": src["text"]})
    ws = [f["path"] for f in files if rng.chance(4, 5)] or [files[0]["path"]]
    return files, ws


def testdata_files():
    root = os.path.join(REPO, "experimental", "ir", "testdata")
    out = []
    for f in sorted(glob.glob(os.path.join(root, "**", "*.proto"), recursive=True)):
        try:
            out.append((os.path.relpath(f, os.path.join(REPO, "experimental", "ir")), open(f, encoding="utf-8").read()))
        except Exception:
            pass
    return out


# ---------------------------------------------------------------- classifying a difference between two reports
IMPORT_RE = re.compile(r'import\s+(?:public\s+|weak\s+)?"([^"]*)"')


def has_import_cycle(files):
    g = {f["path"]: set(IMPORT_RE.findall(f["text"])) for f in files}
    state = {}

    def dfs(u):
        state[u] = 1
        for v in g.get(u, ()):
            if v not in g:
                continue
            if state.get(v) == 1 or (v not in state and dfs(v)):
                return True
        state[u] = 2
        return False
    return any(dfs(u) for u in list(g) if u not in state)


def six(d):
    return (d["Path"], d["Sort"], d["Start"], d["End"], d["Tag"], d["Msg"])


KNOWN_WHAT = {
    "tie-order": "diagnostics that agree on all six sort keys (e.g. the InFile-only warnings of two files: path empty, offsets 0) appear in an order that "
                 "changes from run to run: Canonicalize has no further tie-break and incremental.Run appends the task reports in sync.Map.Range order",
    "cyclic-import-blamed-on-schedule-dependent-file": "with an import cycle, which file's import is reported as closing the cycle (and what follows from the "
                                                       "failed import) depends on the schedule",
    "duplicate-symbol-check-skips-rest-of-file": "ir.DedupExportedSymbols leaves the loop over a file's symbols (break symCheck) at the first child of a duplicated "
                                                 "symbol; the symbols are ordered by intern id, which depends on the schedule, so a `declared multiple times` error "
                                                 "comes and goes",
}


def classify_diff(files, fa, fb):
    """fa, fb: the element-wise dumps (JSON strings) of two reports of the same workspace. Returns [(key, what, detail)]."""
    A, B = [json.loads(x) for x in fa], [json.loads(x) for x in fb]
    res = []
    if sorted(fa) == sorted(fb):
        idx = [k for k, (x, y) in enumerate(zip(fa, fb)) if x != y]
        detail = {"first_differing_index": idx[0], "element_a": A[idx[0]], "element_b": B[idx[0]]}
        if [six(d) for d in A] == [six(d) for d in B]:
            return [("tie-order", KNOWN_WHAT["tie-order"], detail)]
        return [("report-order-differs", "the same diagnostics are reported in a different order, not explained by equal sort keys", detail)]
    ca, cb = {}, {}
    for x in fa:
        ca[x] = ca.get(x, 0) + 1
    for x in fb:
        cb[x] = cb.get(x, 0) + 1
    only_a = [json.loads(x) for x in ca for _ in range(max(0, ca[x] - cb.get(x, 0)))]
    only_b = [json.loads(x) for x in cb for _ in range(max(0, cb[x] - ca.get(x, 0)))]
    sym = only_a + only_b
    dup = [d for d in sym if "declared multiple times" in d["Msg"]]
    rest = [d for d in sym if "declared multiple times" not in d["Msg"]]
    detail = {"only_in_a": only_a[:4], "only_in_b": only_b[:4]}
    if rest:
        if has_import_cycle(files) and any(d["Msg"].startswith("detected cyclic import") for d in rest):
            k = "cyclic-import-blamed-on-schedule-dependent-file"
            res.append((k, KNOWN_WHAT[k], detail))
            return res           # a failed import changes everything downstream, duplicate reports included
        res.append(("report-content-differs", "two runs report different sets of diagnostics", detail))
    if dup:
        k = "duplicate-symbol-check-skips-rest-of-file"
        res.append((k, KNOWN_WHAT[k], detail))
    return res


# ---------------------------------------------------------------- Coq terms
def cs(h):
    return "[" + ";".join(str(b) for b in bytes.fromhex(h)) + "]%N"


def c_diag(files, d):
    p = d["prim"]
    if p is None:
        sp = "zero_span"
    elif p["file"] < 0:
        sp = "(mkspan None (%d) (%d))" % (p["start"], p["end"])
    else:
        sp = "(mkspan (Some (mkfr %d %s)) (%d) (%d))" % (p["file"] + 1, cs(files[p["file"]]["path"]), p["start"], p["end"])
    return "(mkcd %s (%d) %s %s (%d) %d)" % (sp, d["sort"], cs(d["tag"]), cs(d["msg"]), d["level"], d["id"])


def c_list(files, ds):
    return "[" + "; ".join(c_diag(files, d) for d in ds) + "]"


# ---------------------------------------------------------------- run
def run(ctx):
    rng = ctx.rng
    # ---- part 1: Canonicalize on generated lists and on permutations of them
    lists = list(canon_corpus())
    for k in range(ctx.budget(80, 12000)):
        n = rng.choice([0, 1, 2, 3, 4, 5, 6, 8, 11, 12, 13, 14, ctx.budget(15, 20), ctx.budget(20, 30), ctx.budget(16, 60)])
        lists.append(gen_list(rng, n, small=rng.chance(2, 3), sentinel=(k % 7 == 0)))
    ins, meta = [], []
    for li, (files, diags) in enumerate(lists):
        orders = [diags]
        if len(diags) <= ctx.budget(3, 4) and li < 200:
            orders = [list(p) for p in itertools.permutations(diags)]
        else:
            orders += [rng.shuffle(diags) for _ in range(3)]
            orders.append(list(reversed(diags)))
        for o in orders:
            ins.append({"mode": "canon", "files": files, "diags": o})
            meta.append(li)
    ncanon = len(ins)
    cmp_ins = []
    for _ in range(ctx.budget(200, 10000)):
        files = [{"path": hx(rng.choice(PATHS))} for _ in range(2)]
        a = gen_diag(rng, 2, 1, small=rng.chance(1, 2))
        b = gen_diag(rng, 2, 2, small=rng.chance(1, 2))
        if rng.chance(1, 3):
            b = dict(a, id=2, level=3)
            fld = rng.choice(["sort", "tag", "msg", "none", "prim"])
            if fld == "sort":
                b["sort"] = a["sort"] + rng.choice([-1, 1])
            elif fld in ("tag", "msg"):
                b[fld] = hx(bytes.fromhex(a[fld]) + rng.choice([b"", b"a", b"\x00", b"\xff"]))
            elif fld == "prim" and a["prim"]:
                b["prim"] = dict(a["prim"], end=a["prim"]["end"] + 1)
        a["decoy"] = b["decoy"] = False
        cmp_ins.append({"mode": "cmp", "files": files, "a": a, "b": b})
    outs = ctx.impl("canon", ins + cmp_ins)
    terms, tmeta = [], []
    by_list = {}
    n_tie_lists = 0
    for k, (i, o) in enumerate(zip(ins + cmp_ins, outs)):
        if "crash" in o or "panic" in o:
            ctx.corr_break("canon:" + i["mode"], i, o)
            ctx.violation("panic", "Canonicalize panicked or the harness crashed", {"input": i, "observed": o})
            continue
        if i["mode"] == "cmp":
            ctx.count(("cmp", json.dumps(i, sort_keys=True)), True, "cmp:%d" % o["c"])
            terms.append("CCmp %s %s (%d)" % (c_diag(i["files"], i["a"]), c_diag(i["files"], i["b"]), o["c"]))
            tmeta.append((i, o))
            continue
        files, diags = i["files"], i["diags"]
        byid = {d["id"]: d for d in diags}
        ctx.count(("canon", json.dumps(i, sort_keys=True)), len(diags) >= 2, "canon:n<=12" if len(diags) <= 12 else "canon:n>12")

        def rebuild(idl, levels):
            res = []
            for ident, lv in zip(idl, levels):
                d = dict(byid[ident])
                d["level"] = lv
                res.append(d)
            return res
        srt, out, twice = rebuild(o["sorted"], o["sorted_levels"]), rebuild(o["out"], o["out_levels"]), rebuild(o["twice"], o["twice_levels"])
        terms.append("CCanon %s %s %s %s" % (c_list(files, diags), c_list(files, srt), c_list(files, out), c_list(files, twice)))
        tmeta.append((i, o))
        by_list.setdefault(meta[k], []).append((i, o))
    # direct oracle on Canonicalize, inside the hypotheses of the theorems
    def keyt(files, d):
        p = d["prim"]
        path = bytes.fromhex(files[p["file"]]["path"]) if p and p["file"] >= 0 else b""
        return (path, d["sort"], p["start"] if p else 0, p["end"] if p else 0, bytes.fromhex(d["tag"]), bytes.fromhex(d["msg"]))
    for li, runs in by_list.items():
        files, diags = lists[li]
        keys = [keyt(files, d) for d in diags]
        injective = len(set(keys)) == len(keys)
        if MODEL == "repaired":   # the repaired comparison separates any two entries unless one path has two File objects
            injective = injective or len({f["path"] for f in files}) == len(files)
        nosent = all(d["level"] != -1 for d in diags)
        if not injective:
            n_tie_lists += 1
        if injective:
            first = runs[0][1]
            for i, o in runs[1:]:
                if o["out"] != first["out"] or o["sorted"] != first["sorted"]:
                    ctx.violation("canonicalize-order-dependent",
                                  "Canonicalize gives different results on two orders of the same list although all sort keys are distinct",
                                  {"files": files, "order_1": runs[0][0]["diags"], "result_1": first["out"], "order_2": i["diags"], "result_2": o["out"]})
                    break
        if nosent:
            for i, o in runs:
                if o["twice"] != o["out"] or o["twice_levels"] != o["out_levels"]:
                    ctx.violation("canonicalize-not-idempotent", "a second Canonicalize changes the report",
                                  {"files": files, "diags": i["diags"], "once": o["out"], "twice": o["twice"]})
                    break
    ctx.extra["model"] = MODEL
    ctx.extra["canon_lists"] = len(lists)
    ctx.extra["canon_lists_with_key_ties"] = n_tie_lists
    ctx.sample(ins[0])
    ctx.sample(ins[min(len(ins) - 1, 40)])
    header = ("From Coq Require Import List ZArith NArith Bool.\nImport ListNotations.\n"
              "From PV Require Import Common.Corr Model.Canon.\nOpen Scope Z_scope.\n")
    mism, err = coq_eval_mismatches("cases_C36", header, terms, "canon_chk" if MODEL == "asis" else "canon_chk_repaired", shard_size=ctx.budget(90, 800))
    if err:
        raise RuntimeError(err)
    for k in mism:
        i, o = tmeta[k]
        ctx.corr_break("canon:" + i["mode"], i, {"observed": o})

    # ---- part 2: the compiler. same workspace, parallelism 1..8, repeated, cached re-run
    td = testdata_files()
    wss = []
    for p, t in td:
        wss.append(([{"path": p, "text": t}], [p], "testdata"))
    for _ in range(ctx.budget(12, 600)):
        k = rng.range(2, 6)
        pick = [rng.choice(td) for _ in range(k)] if td else []
        seen, files = set(), []
        for p, t in pick:
            if p not in seen:
                seen.add(p)
                files.append({"path": p, "text": t})
        if files:
            wss.append((files, [f["path"] for f in files], "testdata-combined"))
    for _ in range(ctx.budget(50, 4000)):
        files, ws = gen_workspace(rng)
        wss.append((files, ws, "generated"))
    reps = ctx.budget(3, 8)
    cins, cmeta = [], []
    for wi, (files, ws, kind) in enumerate(wss):
        pars = (ctx.budget((1, 2, 4, 8), tuple(range(1, 9)))) if kind != "testdata" else ctx.budget((1, 8), (1, 2, 8))
        for par in pars:
            cins.append({"mode": "compile", "files": files, "workspace": ws, "par": par, "reps": reps})
            cmeta.append(wi)
    couts = ctx.impl("canon", cins, shards=min(NCPU, 8), timeout=1500)
    per_ws = {}
    ties_same = ties_distinct = ices = 0
    tie_example = None
    ndiag = 0
    for i, o, wi in zip(cins, couts, cmeta):
        kind = wss[wi][2]
        small = {"files": i["files"], "workspace": i["workspace"], "par": i["par"], "reps": i["reps"]}
        if "crash" in o or "panic" in o or "err" in o:
            ctx.count(("compile", wi, i["par"]), True, "compile:%s:failed" % kind)
            ctx.notes.append("compile case failed (not a determinism verdict): %s" % json.dumps(o)[:300])
            continue
        ctx.count(("compile", json.dumps(i["files"], sort_keys=True), tuple(i["workspace"]), i["par"]), o["n"] > 0,
                  "compile:%s:%s" % (kind, "diagnostics" if o["n"] else "clean"))
        ctx.traces += reps + 1
        ndiag += o["n"]
        ties_same += o["ties_identical"]
        ties_distinct += o["ties_distinct"]
        if o["tie_example"] and tie_example is None:
            tie_example = {"workspace": small, "pair": o["tie_example"]}
        ices += 1 if o["ice"] else 0
        for dd in o["diffs"]:
            for key, what, detail in classify_diff(i["files"], o["full"], dd["full"]):
                ctx.violation(key, "same workspace, same parallelism, run %s vs run 0: %s" % (dd["rep"], what),
                              {"input": small, "run": dd["rep"], "report_a": o["render"], "report_b": dd["render"], "detail": detail})
        for rr in o.get("reruns", []):
            A, B = [json.loads(x) for x in o["full"]], [json.loads(x) for x in rr["full"]]
            if sorted(o["full"]) == sorted(rr["full"]) and [six(d) for d in A] == [six(d) for d in B]:
                ctx.violation("tie-order", "same executor, run %s vs run 1: %s" % (rr["run"], KNOWN_WHAT["tie-order"]),
                              {"input": small, "run": rr["run"], "report_a": o["render"], "report_b": rr["render"]})
            else:
                idx = next((k for k, (x, y) in enumerate(zip(o["full"], rr["full"])) if x != y), min(len(A), len(B)))
                ctx.violation("report-differs-on-rerun-same-executor",
                              "running the same queries again on the same executor (all cache hits, nothing evicted) reports different diagnostics "
                              "than the first run did",
                              {"input": small, "run": rr["run"], "first_differing_index": idx,
                               "report_run_1": o["render"], "report_run_n": rr["render"],
                               "element_run_1": A[idx] if idx < len(A) else None, "element_run_n": B[idx] if idx < len(B) else None})
        per_ws.setdefault(wi, []).append((i["par"], o))
    for wi, runs in per_ws.items():
        p0, o0 = runs[0]
        for p, o in runs[1:]:
            if o["render"] != o0["render"] or o["full"] != o0["full"]:
                if o["full"] == o0["full"]:
                    ctx.violation("rendering-differs", "same diagnostics, different rendered text", {"files": wss[wi][0], "workspace": wss[wi][1],
                                  "par_a": p0, "par_b": p, "report_a": o0["render"], "report_b": o["render"]})
                    continue
                for key, what, detail in classify_diff(wss[wi][0], o0["full"], o["full"]):
                    ctx.violation(key, "same workspace, parallelism %d vs %d: %s" % (p0, p, what),
                                  {"files": wss[wi][0], "workspace": wss[wi][1], "par_a": p0, "par_b": p,
                                   "report_a": o0["render"], "report_b": o["render"], "detail": detail})
    # ---- part 3: synthetic query graphs, several diagnostics per task, repeated Runs on one executor
    sins = [{"mode": "synth", "par": par, "roots": ["root"], "other": ["zzz"],
             "nodes": [{"name": "root", "n": 5, "level": 2, "deps": ["aaa", "zzz"]}, {"name": "aaa", "n": 1, "level": 2, "deps": []},
                       {"name": "zzz", "n": 1, "level": 2, "deps": []}]} for par in (1, 2, 4, 8)]
    pool = ["aaa", "bbb", "mmm", "root", "yyy", "zzz", "ccc", "nnn"]
    for _ in range(ctx.budget(120, 3000)):
        names = rng.shuffle(pool)[:rng.range(2, 7)]
        nodes = []
        for k, nm in enumerate(names):
            later = names[k + 1:]
            deps = [d for d in later if rng.chance(1, 2)]
            nodes.append({"name": nm, "n": rng.choice([0, 1, 1, 2, 3, 5, 6, 9]), "level": rng.choice([2, 2, 3, 4]), "deps": deps})
        roots = [names[0]] + [nm for nm in names[1:] if rng.chance(1, 5)]
        other = [nm for nm in names if nm not in roots and rng.chance(1, 2)][:2]
        sins.append({"mode": "synth", "par": rng.choice([1, 2, 4, 8]), "roots": roots, "other": other, "nodes": nodes})
    souts = ctx.impl("canon", sins, shards=min(NCPU, 8))
    for i, o in zip(sins, souts):
        if "crash" in o or "panic" in o or "err" in o:
            ctx.count(("synth", json.dumps(i, sort_keys=True)), True, "synth:failed")
            ctx.notes.append("synthetic case failed (not a determinism verdict): %s" % json.dumps(o)[:300])
            continue
        ctx.count(("synth", json.dumps(i, sort_keys=True)), len(o["ref"]) > 0, "synth")
        ctx.traces += 5
        if o["runs"][0] != o["ref"]:
            ctx.violation("report-differs-between-runs", "synthetic query graph: a fresh executor and another fresh executor report different diagnostics "
                          "(all messages are distinct, so the canonical order is unique)", {"input": i, "fresh": o["ref"], "first_run": o["runs"][0]})
        for k, got in enumerate(o["runs"][1:], 2):
            if got != o["runs"][0]:
                ctx.violation("report-differs-on-rerun-same-executor",
                              "synthetic query graph: run %d on the same executor (all cache hits) reports different diagnostics than run 1" % k,
                              {"input": i, "run_1": o["runs"][0], "run_%d" % k: got})
                break
    ctx.extra["synthetic_graphs"] = len(sins)
    # ---- part 4: HISTORIES of Runs with different, overlapping root sets on one executor. What a Run reports must not
    # depend on what the executor had memoised before it (which tasks were cache hits, who computed them first, whether
    # they were still pending when asked for): the report of every step equals the report of the same Run on a fresh
    # executor. Evictions between the steps included.
    hins = []
    for par in (1, 2, 8):      # two roots over one erroneous dependency, asked for one after the other, together, and again
        hins.append({"mode": "synthhist", "par": par,
                     "nodes": [{"name": "aaa", "n": 1, "level": 2, "deps": ["ccc"]}, {"name": "bbb", "n": 1, "level": 2, "deps": ["ccc"]},
                               {"name": "ccc", "n": 2, "level": 2, "deps": ["zzz"]}, {"name": "zzz", "n": 1, "level": 3, "deps": []}],
                     "history": [{"roots": ["aaa"]}, {"roots": ["bbb"]}, {"roots": ["aaa", "bbb"]}, {"roots": ["bbb"], "evict": ["zzz"]},
                                 {"roots": ["aaa"]}]})
        hins.append({"mode": "synthhist", "par": par,
                     "nodes": [{"name": "aaa", "n": 1, "level": 2, "deps": ["ccc"]}, {"name": "bbb", "n": 1, "level": 2, "deps": ["ccc"]},
                               {"name": "ccc", "n": 2, "level": 2, "deps": []}],
                     "history": [{"roots": ["aaa", "bbb"]}, {"roots": ["bbb"]}, {"roots": ["aaa"]}]})
    for _ in range(ctx.budget(300, 6000)):
        names = rng.shuffle(pool)[:rng.range(2, 7)]
        nodes = []
        for k, nm in enumerate(names):
            deps = [d for d in names[k + 1:] if rng.chance(1, 2)]
            nodes.append({"name": nm, "n": rng.choice([0, 1, 1, 2, 3, 5]), "level": rng.choice([2, 2, 3, 4]), "deps": deps})
        hist = []
        for _k in range(rng.range(2, 6)):
            roots = [nm for nm in names if rng.chance(1, 3)] or [rng.choice(names)]
            st = {"roots": rng.shuffle(roots)}
            if hist and rng.chance(1, 4):
                st["evict"] = [nm for nm in names if rng.chance(1, 3)] or [names[-1]]
            hist.append(st)
        hins.append({"mode": "synthhist", "par": rng.choice([1, 2, 4, 8]), "nodes": nodes, "history": hist})
    houts = ctx.impl("canon", hins, shards=min(NCPU, 8))
    for i, o in zip(hins, houts):
        if "crash" in o or "panic" in o or "err" in o:
            ctx.count(("synthhist", json.dumps(i, sort_keys=True)), True, "synth-history:failed")
            ctx.notes.append("synthetic history failed (not a determinism verdict): %s" % json.dumps(o)[:300])
            continue
        ctx.count(("synthhist", json.dumps(i, sort_keys=True)), any(st["fresh"] for st in o["steps"]), "synth-history")
        ctx.traces += 2 * len(o["steps"])
        for k, st in enumerate(o["steps"]):
            if st["warm"] != st["fresh"]:
                ctx.violation("report-differs-warm-vs-fresh-executor",
                              "synthetic query graph: step %d of a history of Runs on one executor reports different diagnostics than the same Run "
                              "on a fresh executor (all messages are distinct, so the canonical order is unique)" % (k + 1),
                              {"input": i, "step": k + 1, "roots": i["history"][k]["roots"], "warm": st["warm"], "fresh": st["fresh"],
                               "missing_on_warm": [x for x in st["fresh"] if x not in st["warm"]],
                               "extra_on_warm": [x for x in st["warm"] if x not in st["fresh"]]})
                break
    shared_bad = 'syntax = "proto3";\npackage p;\nmessage C { Missing m = 1; int32 x = 1; }\n'
    imp = 'syntax = "proto3";\npackage p;\nimport "c.proto";\nmessage %s { C c = 1; %s }\n'
    cfiles = [{"path": "a.proto", "text": imp % ("A", "")}, {"path": "b.proto", "text": imp % ("B", "Nope n = 2;")},
              {"path": "c.proto", "text": shared_bad}]
    chins = []
    for par in (1, 4):
        chins.append({"mode": "compilehist", "par": par, "files": cfiles,
                      "history": [{"kind": "ir", "paths": ["a.proto"]}, {"kind": "ir", "paths": ["b.proto"]},
                                  {"kind": "link", "paths": ["a.proto", "b.proto"]}, {"kind": "ir", "paths": ["b.proto"], "evict": ["c.proto"]},
                                  {"kind": "link", "paths": ["b.proto"]}]})
        chins.append({"mode": "compilehist", "par": par, "files": cfiles,
                      "history": [{"kind": "ir", "paths": ["a.proto", "b.proto"]}, {"kind": "ir", "paths": ["b.proto"]},
                                  {"kind": "link", "paths": ["a.proto"]}]})
    for _ in range(ctx.budget(36, 1500)):
        files, _ws = gen_workspace(rng)
        paths = [f["path"] for f in files]
        hist = []
        for _k in range(rng.range(2, 4)):
            st = {"kind": rng.choice(["ir", "ir", "link"]), "paths": rng.shuffle([p for p in paths if rng.chance(1, 3)] or [rng.choice(paths)])}
            if hist and rng.chance(1, 5):
                st["evict"] = [rng.choice(paths)]
            hist.append(st)
        chins.append({"mode": "compilehist", "par": rng.choice([1, 2, 8]), "files": files, "history": hist})
    chouts = ctx.impl("canon", chins, shards=min(NCPU, 8), timeout=1500)
    for i, o in zip(chins, chouts):
        if "crash" in o or "panic" in o or "err" in o:
            ctx.count(("compilehist", json.dumps(i, sort_keys=True)), True, "compile-history:failed")
            ctx.notes.append("compile history failed (not a determinism verdict): %s" % json.dumps(o)[:300])
            continue
        ctx.count(("compilehist", json.dumps(i, sort_keys=True)), o["n"] > 0, "compile-history:%s" % ("diagnostics" if o["n"] else "clean"))
        ctx.traces += 2 * len(o["steps"])
        for k, st in enumerate(o["steps"]):
            if st["same"]:
                continue
            if st["warm_full"] == st["fresh_full"]:
                ctx.violation("rendering-differs", "same diagnostics, different rendered text (warm vs fresh executor)",
                              {"input": i, "step": k + 1, "report_warm": st["warm_render"], "report_fresh": st["fresh_render"]})
                continue
            for key, what, detail in classify_diff(i["files"], st["fresh_full"], st["warm_full"]):
                if key in ("report-content-differs", "report-order-differs"):
                    key = "report-differs-warm-vs-fresh-executor"
                    what = ("the Run reports different diagnostics on an executor that had memoised other queries before than on a fresh executor "
                            "(a = fresh, b = warm)")
                ctx.violation(key, "step %d of a history of Runs on one executor vs the same Run on a fresh executor: %s" % (k + 1, what),
                              {"input": i, "step": k + 1, "query": i["history"][k], "report_fresh": st["fresh_render"],
                               "report_warm": st["warm_render"], "detail": detail})
            break
    ctx.extra["run_histories"] = {"synthetic": len(hins), "compile": len(chins)}
    ctx.extra["compile"] = {"workspaces": len(wss), "runs": ctx.traces, "diagnostics_seen": ndiag,
                            "adjacent_pairs_equal_on_all_six_keys_and_identical": ties_same,
                            "adjacent_pairs_equal_on_all_six_keys_but_different": ties_distinct,
                            "tie_example": tie_example, "cases_with_ice": ices}
    if wss:
        ctx.sample({"mode": "compile", "workspace": wss[-1][1], "files": wss[-1][0], "par": "1..8", "reps": reps})
    ctx.rule = ("(1) diagnostic lists: corpus (the witnesses of the two needs_ theorems, dedup across an untagged entry, same path with two File "
                "objects, nil file) + random lists of 0..60 entries over few paths/offsets/tags/messages with planted key ties and level -1 entries, "
                "each canonicalised in all permutations (<= 4 entries) or 5 orders; real Canonicalize checked against the relational model in coqc "
                "(sorted permutation + dedup as written + second pass); pairs through the real comparison vs dcmp. "
                "(2) workspaces: every ir/testdata .proto, random combinations of them, and generated invalid multi-file workspaces (duplicate symbols "
                "across files, extension number clashes, missing/cyclic/duplicate imports, unknown types, syntax damage), each compiled with "
                "parallelism 1..8 (quick tier: 1, 2, 4, 8) x %d fresh executors; on the first executor the same queries are run three more times (same session, all cache hits, no eviction) with an unrelated Run (File of any.proto) and a related one (AST of the first file) in between; rendered report and every diagnostic compared element-wise. (3) synthetic query graphs (2..7 tasks, 0..9 distinct diagnostics each, reported before and after resolving dependencies): a fresh-executor reference and four Runs on one executor with a Run of other roots in between, all reports equal. "
                "(4) histories of 2..5 Runs with different, overlapping root sets on ONE executor (synthetic graphs; real workspaces through IR queries per file and Link queries over "
                "sub-workspaces, one session), evictions in between, parallelism 1..8: the report of every step equals the report of the same Run on a fresh executor. "
                "distinct = distinct input; non-trivial = >= 2 diagnostics in the list / >= 1 diagnostic reported" % reps)
