"""C23 - Source code info is well-formed in every mode."""
import os
from vlib import *
import srcinfolib as S

ID = "C23"
COQ_FILES = ["Common/Bytes.v", "Common/Corr.v", "Model/Utf8.v", "Model/Lines.v", "Model/FileInfo.v", "Model/Lexer.v",
             "Model/Comments.v", "Model/ProtocComments.v", "Proofs/FileInfo.v", "Proofs/Comments.v",
             "Proofs/SourceInfo.v", "Props/C23.v"]
PROPS = "Props/C23.v"
THEOREMS = ["C23_span_well_formed", "C23_span_well_formed_lexed", "C23_comments_are_source_text",
            "C23_extra_comments_same_locations", "C23_extra_comments_only_add_refuted",
            "C23_extra_comments_only_add_partial", "C23_extra_option_locs_only_add",
            "C23_extra_option_locs_same_other_locations", "C23_comment_units_in_source"]
AXIOMS_OK = []
TRUSTED = ["hand-written Gallina models: Model/FileInfo.v (positions, shared with C13), Model/Comments.v (makeSpan, comment attribution in both comment modes, the location list as a sequence of newLoc* calls with the commentsUsed map and the two mode flags)",
           "harness srcinfo (reflection walk of every path through the compiled descriptor with the file's extensions resolved) + checks/srcinfolib.py (oracles, gap extraction)"]
ASSUMPTIONS = ["which newLoc* calls the walk over the syntax tree issues, with which paths, is not modelled: the theorems hold for every sequence of calls; that the real sequence gives paths naming existing elements and option-value locations inside option values is checked on the implementation only (direct oracle)",
               "columns inside the line are checked on the implementation only; the theorem bounds the lines",
               "int32 conversion of line and column numbers is assumed not to overflow"]

CFG = S.CFG
COQ_CFG = "(mkcfg %s %s %s)" % tuple(coq_bool(f in CFG) for f in ("fix_ws", "fix_empty", "fix_sep"))

HEADER = ("From Coq Require Import List NArith ZArith Bool.\nImport ListNotations.\n"
          "From PV Require Import Common.Corr Model.Comments Model.ProtocComments.\nOpen Scope N_scope.\n")

CORPUS = [
    # a group without label inside a oneof: with extraComments its comment moves to the type location
    b"syntax = \"proto2\";\nmessage M { oneof o {\n  // lead\n  group G = 1 { optional int32 a = 1; } } }\n",
    b"syntax = \"proto2\";\nmessage M {\n\toptional int32 \xc3\xa9x = 1; }\n" .replace(b"\xc3\xa9x", b"x"),
    b"syntax = \"proto3\";\nmessage \tM {\n\t/* \xe4\xb8\xad */ int32 a = 1; /* t */ }",
    b"",
    b"// nothing else",
    b"syntax = \"proto2\";\r\nimport \"google/protobuf/descriptor.proto\";\r\nextend google.protobuf.MessageOptions { optional Z z = 50000; }\r\n"
    b"message Z { optional int32 a = 1; repeated Z r = 2; repeated int32 n = 3; }\r\n"
    b"message M { option (z) = { a: 1 r: [{a: 2}, {n: [1, 2]}] r { a: 3 } }; }\r\n",
]


def gcase_term(has_prev, raw, nxt, extra, texp, dexp):
    t = "TSkip" if texp is None else "(TIs %s)" % S.coq_otext(texp[0])
    d = "DSkip" if dexp is None else "(DIs %s %s)" % (coq_list(dexp[0], S.coq_text), S.coq_otext(dexp[1]))
    return "(mkgcase %s %s %s %s %s %s %s None)" % (COQ_CFG, coq_bool(has_prev), coq_N_list(raw), S.coq_nextk(nxt), coq_bool(extra), t, d)


def gap_bytes(src, k):
    lo = src.toks[k - 1] if k > 0 else -1
    a = src.items[lo][0] + src.items[lo][1] if lo >= 0 else 0
    b = src.items[src.toks[k]][0]
    return bytes(src.data[a:b])


def first_claims(src, locs):
    """extra-comments mode: the first location (generation order) that starts at token k and carries leading or
    detached comments took them from the gap before k; the first location whose trailing anchor is token k and
    carries a trailing comment took it from the gap after k"""
    lead, trail = {}, {}
    hb = lambda x: None if x is None else bytes.fromhex(x)
    for loc in locs:
        s, e = src.span_tokens(loc["s"])
        if s is None or e is None:
            continue
        if (loc["l"] is not None or loc["d"]) and s not in lead:
            lead[s] = ([hb(x) for x in loc["d"]], hb(loc["l"]))
        if loc["t"] is not None:
            a = src.trail_anchor(e)
            if a not in trail:
                trail[a] = hb(loc["t"])
    return lead, trail


def run(ctx):
    rng = ctx.rng
    td = os.path.join(REPO, "internal", "testdata")
    base_ins = [{"mode": "compile", "text": h.hex()} for h in S.HAND]
    base_ins += [{"mode": "compile", "text": t.hex(), "dir": td} for _, t in S.testdata_sources(REPO)]
    base_ins += [{"mode": "compile", "text": open(os.path.join(td, f), "rb").read().hex(), "dir": td}
                 for f in ("desc_test_comments.proto", "desc_test_complex.proto")]
    bouts = ctx.impl("srcinfo", base_ins, shards=min(NCPU, len(base_ins)))
    bases = []
    for b, o in zip(base_ins, bouts):
        if "locs" not in o:
            raise RuntimeError("base source does not compile: " + str(o)[:400])
        bases.append((b, S.Src(bytes.fromhex(o["data"]), o["items"])))
    cases = list(base_ins) + [{"mode": "compile", "text": c.hex()} for c in CORPUS]
    for i in range(ctx.budget(60, 600)):
        b, src = bases[i % len(bases)]
        c = {"mode": "compile", "text": S.retrivia(rng, src, rich_all=rng.chance(1, 4)).hex()}
        if "dir" in b:
            c["dir"] = b["dir"]
        cases.append(c)
    couts = ctx.impl("srcinfo", cases)
    ctx.rule = ("accepted sources (hand-written files with every declaration kind, custom options with nested message and array literals, groups in "
                "oneofs, repository testdata) as they are and re-rendered with random whitespace and comments between all tokens (tabs, multi-byte "
                "characters, CRLF, byte order mark), each compiled in the four SourceInfoMode combinations 1, 2, 4, 6; one case = one location of one "
                "mode (span, path, comments) or one gap of the extra-comments mode; distinct = distinct (source, mode, location index) resp. "
                "(gap bytes, neighbours, observation); non-trivial = the location has a multi-line span or a comment, the gap holds a comment")
    span_terms, span_meta, gap_terms, gap_meta = [], [], [], []
    seen = set()
    nfail = 0
    nlocs = {"1": 0, "2": 0, "4": 0, "6": 0}
    for ci, (c, o) in enumerate(zip(cases, couts)):
        text = bytes.fromhex(c["text"])
        if "locs" not in o:
            nfail += 1
            if o.get("panicked") or "crash" in o or "panic" in o:
                ctx.violation("compile-panics", "the compiler panicked while generating source code info",
                              {"source_hex": c["text"], "source": text.decode("utf8", "replace"), "observed": str(o)[:1500]})
            continue
        src = S.Src(bytes.fromhex(o["data"]), o["items"])
        if src.bad:
            ctx.corr_break("gap-extraction", {"source_hex": c["text"]}, {"why": src.bad})
            continue
        ctx.traces += 1
        # ---- direct oracle: the property on the implementation
        for key, what, det in S.c23_oracle(src, o, o["lines"]):
            ctx.violation(key, what, {"source_hex": c["text"], "source": text.decode("utf8", "replace"), "detail": det})
        nlines = len(o["lines"])
        for mode in ("1", "2", "4", "6"):
            nlocs[mode] += len(o["locs"][mode])
            for i, loc in enumerate(o["locs"][mode]):
                nontrivial = len(loc["s"]) == 4 or loc["l"] is not None or loc["t"] is not None or bool(loc["d"])
                ctx.count((ci, mode, i), nontrivial, "location-mode-" + mode)
        # ---- correspondence: makeSpan (mode 6 has every location of the other modes)
        for loc in o["locs"]["6"]:
            if not loc["p"]:
                continue
            s, e = src.span_tokens(loc["s"])
            if s is None or e is None:
                ctx.corr_break("span-not-on-token-boundaries", {"source_hex": c["text"]}, {"loc": loc})
                continue
            si, ei = src.items[src.toks[s]], src.items[src.toks[e]]
            key = ("span", si[3], si[4], ei[5], ei[6], nlines, tuple(loc["s"]))
            if key in seen:
                continue
            seen.add(key)
            span_terms.append("(mkspancase (%d, %d) (%d, %d) %d %s)" % (si[3], si[4], ei[5], ei[6], nlines, coq_list(loc["s"], coq_Z)))
            span_meta.append((c, loc))
        # ---- correspondence: comment attribution with extraComments
        lead, trail = first_claims(src, o["locs"]["2"])
        for k in range(len(src.toks)):
            g = src.gaps[k]
            if not g["cidx"]:
                continue
            texp = (trail[k - 1],) if k > 0 and (k - 1) in trail else None
            dexp = lead.get(k)
            if texp is None and dexp is None:
                continue
            raw = gap_bytes(src, k)
            key = ("gap", k > 0, raw, g["nxt"], texp, None if dexp is None else (tuple(dexp[0]), dexp[1]))
            if key in seen:
                continue
            seen.add(key)
            ctx.count(key, True, "extra-comments-gap")
            gap_terms.append(gcase_term(k > 0, raw, g["nxt"], True, texp, dexp))
            gap_meta.append((c, k))
    ctx.extra["sources"] = len(cases)
    ctx.extra["sources_rejected"] = nfail
    ctx.extra["locations_per_mode"] = nlocs
    ctx.sample({"source": bytes.fromhex(cases[-1]["text"])[:400].decode("utf8", "replace")})
    ctx.sample({"source": CORPUS[0].decode()})
    if len(gap_terms) > ctx.budget(3000, 10 ** 9):
        idx = sorted(rng.shuffle(list(range(len(gap_terms))))[:ctx.budget(3000, 10 ** 9)])
        gap_terms, gap_meta = [gap_terms[i] for i in idx], [gap_meta[i] for i in idx]
    if len(span_terms) > ctx.budget(5000, 10 ** 9):
        idx = sorted(rng.shuffle(list(range(len(span_terms))))[:ctx.budget(5000, 10 ** 9)])
        span_terms, span_meta = [span_terms[i] for i in idx], [span_meta[i] for i in idx]
    ctx.extra["span_cases"] = len(span_terms)
    ctx.extra["extra_comments_gap_cases"] = len(gap_terms)
    allterms = [("span", "(CSpan %s)" % t, m) for t, m in zip(span_terms, span_meta)] + \
               [("gap", "(CGapX %s)" % t, m) for t, m in zip(gap_terms, gap_meta)]
    mism, err = coq_eval_mismatches("cases_C23", HEADER, [t for _, t, _ in allterms], "c23_chk", shard_size=700)
    if err:
        raise RuntimeError(err)
    for i in mism:
        kind, t, m = allterms[i]
        if kind == "span":
            c, loc = m
            ctx.corr_break("make-span", {"source_hex": c["text"]}, {"loc": loc, "term": t})
        else:
            c, k = m
            ctx.corr_break("extra-comments-attribution", {"source_hex": c["text"], "gap_before_token": k}, {"term": t[:600]})
