"""Helpers of the C22 / C24 plugins for writing large observations as Coq terms that coqc reads fast.

Two things dominate the time coqc spends on a cases file: elaborating list / pair notations (an
implicit type argument per element) and interpreting number literals (one Number Notation call
each).  So lists are written as nested applications of typed constructor abbreviations defined
in the header, and every distinct number is defined once as a constant and referred to by name."""
import re


def clist(c, n, xs):
    """[x1; ...; xk] as (c x1 (c x2 ... n)) for abbreviations c = cons, n = nil at a fixed type"""
    out = n
    for x in reversed(xs):
        out = "(%s %s %s)" % (c, x, out)
    return out


_N_LIT = re.compile(r"(?<![A-Za-z_0-9'])(\d+)%N")
_BARE = re.compile(r"(?<![A-Za-z_0-9'])(\d+)(?![A-Za-z_0-9%'])")


def intern_numbers(header, terms, bare_type):
    """Replaces the literals d%N by constants kd : N and the bare literals d by constants of bare_type
    ("N": also kd, "nat": td); returns (header with the definitions appended, rewritten terms)."""
    ns, bs = set(), set()

    def rep_n(m):
        ns.add(int(m.group(1)))
        return "k" + m.group(1)

    def rep_b(m):
        (ns if bare_type == "N" else bs).add(int(m.group(1)))
        return ("k" if bare_type == "N" else "t") + m.group(1)
    out = [_BARE.sub(rep_b, _N_LIT.sub(rep_n, t)) for t in terms]
    defs = "".join("Definition k%d : N := %d%%N.\n" % (n, n) for n in sorted(ns))
    defs += "".join("Definition t%d : nat := %d%%nat.\n" % (n, n) for n in sorted(bs))
    return header + defs, out
