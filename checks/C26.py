"""C26 - Bytes default values survive escaping."""
import itertools
from vlib import *

ID = "C26"
COQ_FILES = ["Common/Bytes.v", "Common/Corr.v", "Model/Escape.v", "Proofs/Escape.v", "Props/C26.v"]
PROPS = "Props/C26.v"
THEOREMS = ["C26_unescape_escape", "C26_runtime_unescape_escape", "C26_unescape_total",
            "C26_escape_is_printable_ascii", "C26_escape_injective"]
AXIOMS_OK = []
TRUSTED = ["hand-written Gallina model of internal.EscapeBytes, linker.unescape and protobuf-go text string decoding (ASCII subset)",
           "correspondence harness (vh escape) + verif hook linker.VerifUnescape"]
ASSUMPTIONS = ["protobuf-go's defval/text decoder is modelled for ASCII input only; \\u/\\U escapes in it are unmodelled (never produced by EscapeBytes)",
               "parser turns a \\xNN string literal into the byte NN (exercised end-to-end, proved nowhere)"]

ALPHA = [0x0a, 0x0d, 0x09, 0x22, 0x27, 0x5c, 0x30, 0x37, 0x38, 0x3f, 0x78, 0x00, 0x1f, 0x20, 0x7e, 0x7f, 0x80, 0xff, 0x41, 0x75]
RAW_ALPHA = [0x5c, 0x78, 0x58, 0x30, 0x33, 0x34, 0x37, 0x38, 0x39, 0x61, 0x66, 0x67, 0x41, 0x46, 0x47, 0x75, 0x55,
             0x6e, 0x72, 0x74, 0x76, 0x62, 0x22, 0x27, 0x3f, 0x20, 0x44, 0x64, 0x31]


def run(ctx):
    rng = ctx.rng
    maxlen = ctx.budget(2, 3)
    byte_cases = []
    for n in range(0, maxlen + 1):
        for t in itertools.product(ALPHA, repeat=n):
            byte_cases.append(bytes(t))
    byte_cases += [bytes([c]) for c in range(256)]
    for _ in range(ctx.budget(600, 20000)):
        byte_cases.append(rng.bytes(rng.range(0, 40)))
    raw_cases = []
    for n in range(0, ctx.budget(2, 3) + 1):
        for t in itertools.product(RAW_ALPHA, repeat=n):
            raw_cases.append(bytes(t))
    for _ in range(ctx.budget(800, 20000)):
        n = rng.range(1, 24)
        raw_cases.append(bytes(rng.choice(RAW_ALPHA) if rng.chance(5, 6) else rng.below(256) for _ in range(n)))
    rt_cases = []
    for s in raw_cases:
        if all(c < 128 for c in s):
            rt_cases.append(s)
    rt_cases = rt_cases[: ctx.budget(1500, 30000)]
    ctx.rule = ("byte strings: all of length <= %d over a 20-byte branch alphabet + all 256 single bytes + random (len 0..40, all 256 values); "
                "raw strings for unescape / runtime decoder: all of length <= %d over a 29-symbol escape alphabet + random; "
                "distinct = distinct input string per mode; non-trivial = length >= 1" % (maxlen, maxlen))

    ins = [{"mode": "bytes", "b": b.hex()} for b in byte_cases] + \
          [{"mode": "raw", "s": s.hex()} for s in raw_cases] + \
          [{"mode": "rt", "s": s.hex()} for s in rt_cases]
    outs = ctx.impl("escape", ins)
    terms, meta = [], []
    for i, o in zip(ins, outs):
        if "crash" in o or "panic" in o:
            ctx.corr_break("escape", i, o)
            ctx.violation("panic", "implementation panicked or crashed", {"input": i, "observed": o})
            continue
        if i["mode"] == "bytes":
            b = bytes.fromhex(i["b"])
            ctx.count(("b", b), len(b) > 0, "bytes")
            terms.append("CB %s %s %s" % (coq_N_list(b), coq_N_list(bytes.fromhex(o["esc"])), coq_N_list(bytes.fromhex(o["unesc"]))))
            # direct oracle: the property on the implementation
            if bytes.fromhex(o["unesc"]) != b:
                ctx.violation("unescape-escape-roundtrip", "unescape(EscapeBytes(b)) != b",
                              {"b": i["b"], "escaped": o["esc"], "decoded": o["unesc"]})
        elif i["mode"] == "raw":
            s = bytes.fromhex(i["s"])
            ctx.count(("r", s), len(s) > 0, "raw")
            terms.append("CR %s %s" % (coq_N_list(s), coq_N_list(bytes.fromhex(o["unesc"]))))
        else:
            s = bytes.fromhex(i["s"])
            ctx.count(("t", s), len(s) > 0, "runtime-ok" if o["ok"] else "runtime-reject")
            terms.append("CT %s %s %s" % (coq_N_list(s), coq_bool(o["ok"]), coq_N_list(bytes.fromhex(o.get("out", "")))))
        meta.append((i, o))
    ctx.sample({"mode": "bytes", "b": byte_cases[-1].hex()})
    ctx.sample({"mode": "raw", "s": raw_cases[-1].hex()})
    header = ("From Coq Require Import List NArith Bool.\nImport ListNotations.\n"
              "From PV Require Import Common.Corr Model.Escape.\nOpen Scope N_scope.\n")
    mism, err = coq_eval_mismatches("cases_C26", header, terms, "esc_chk", shard_size=1500)
    if err:
        raise RuntimeError(err)
    for k in mism:
        i, o = meta[k]
        ctx.corr_break("escape:" + i["mode"], i, {"observed": o})

    # end-to-end direct oracle: Default() in this compiler and in the Go runtime
    e2e = [b for b in byte_cases if len(b) <= 40]
    e2e = e2e[:: max(1, len(e2e) // ctx.budget(1200, 12000))]
    batches = [e2e[k:k + 300] for k in range(0, len(e2e), 300)]
    bouts = ctx.impl("escape", [{"mode": "e2e", "bs": [b.hex() for b in bt]} for bt in batches], shards=min(len(batches), NCPU))
    for bt, o in zip(batches, bouts):
        if "err" in o or "crash" in o or "panic" in o:
            ctx.violation("e2e-compile-failed", "file with bytes defaults did not compile or convert", {"observed": o, "first": bt[0].hex()})
            continue
        for b, lk, rv, tx in zip(bt, o["linker"], o["runtime"], o["text"]):
            ctx.count(("e", b), len(b) > 0, "e2e")
            if bytes.fromhex(lk) != b:
                ctx.violation("default-linker", "linker FieldDescriptor.Default() differs from the source bytes",
                              {"b": b.hex(), "default_value_text": tx, "linker_default": lk})
            if bytes.fromhex(rv) != b:
                ctx.violation("default-runtime", "protodesc (Go runtime) Default() differs from the source bytes",
                              {"b": b.hex(), "default_value_text": tx, "runtime_default": rv})
    ctx.exhaustive = True
    ctx.extra["exhaustive_part"] = "all byte strings of length <= %d over the 20-byte alphabet and all 256 single bytes" % maxlen
