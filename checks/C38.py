"""C38 - String interning is a bijection, also under concurrency."""
import itertools
from vlib import *

ID = "C38"
COQ_FILES = ["Common/Bytes.v", "Common/Corr.v", "Model/Char6.v", "Model/Intern.v",
             "Proofs/Char6.v", "Proofs/Intern.v", "Props/C38.v"]
PROPS = "Props/C38.v"
THEOREMS = ["C38_char6_roundtrip",
            "C38_char6_injective",
            "C38_char6_negative_nonzero",
            "C38_char6_image",
            "C38_char6_onto",
            "C38_char6_encodable_iff",
            "C38_query_present_iff",
            "C38_query_present_iff_history",
            "C38_intern_index_log_invariant",
            "C38_intern_log_nodup",
            "C38_intern_equal_strings_equal_ids",
            "C38_intern_distinct_strings_distinct_ids",
            "C38_intern_value_roundtrip",
            "C38_intern_ids_disjoint_classes",
            "C38_intern_no_panic_below_limit",
            "C38_intern_deadlock_free",
            "C38_intern_terminates_weak_fairness",
            "C38_bytes_entry_points_snapshot",
            "C38_bytes_write_after_call_unobservable"]
AXIOMS_OK = []
TRUSTED = ["hand-written Gallina models of char6.go (encodeChar6/encodeOutlined/decodeChar6) and of intern.go (Query, Intern/internSlow, Value)",
           "correspondence harness (harness/cmd/intern) + verif hook internal/intern/verif_hooks.go exposing encodeChar6/decodeChar6 and the two tables"]
ASSUMPTIONS = [
    "sync.Map (Load, LoadOrStore, Store) and atomic.Int32 (Load, Store) are modelled by their sequentially consistent contracts: each call is one atomic step on a map string -> slot; the entry pointer of a key is allocated once by LoadOrStore and only ever replaced by the nil poison value",
    "syncx.Log.Append/Load (internal/ext/syncx/log.go, built from atomics and a Gosched spin; there is no mutex in this version) is modelled by its contract: Append is one linearizable step that appends and returns the previous length, or fails once 2^31-1 elements are present; Load(i) returns element i or panics when i is out of range. Its internals are only exercised (concurrent runs, -race in the thorough tier), not proved; the counter wrap after a further 2^31 failed appends is not modelled",
    "termination is proved under weak fairness of the Go scheduler: every goroutine that has a step to take is eventually scheduled (runtime.Gosched in the spin loop yields to the leader); without it a spinning goroutine could starve the leader on GOMAXPROCS=1 only if Gosched never switched",
    "InternBytes/QueryBytes are modelled by snapshot semantics (Model/Intern.v run_bops: the table keeps the content the buffer had at call time, because internSlow clones before it builds the key and before it appends); that the code really behaves so is not proved but checked on every run: sequential histories where the caller overwrites its buffers in place between calls, and concurrent runs where every goroutine scribbles over its scratch buffer right after InternBytes returned. The stats counters are not modelled (they do not influence ids)",
    "goroutine schedules of the real runs are whatever the Go runtime produces (start barrier, optional Gosched between operations); the all-schedules claim is the Coq theorem, the concurrent runs only tie the model to the code",
]

ALPHA = b"0123456789abcdefghijklmnopqrstuvwxyzABCDEFGHIJKLMNOPQRSTUVWXYZ_."
OUTSIDE = [0x2d, 0x20, 0x80]   # '-', ' ', a non-ASCII byte
I32 = 1 << 31


def spec_encodable(s):
    """The inline domain as the property reads it: empty, or at most five alphabet symbols not ending in a dot."""
    return len(s) == 0 or (len(s) <= 5 and s[-1:] != b"." and all(c in ALPHA for c in s))


def coq_str(b):
    return coq_N_list(b) + "%N"


def rand_alpha(rng, n):
    return bytes(rng.choice(ALPHA) for _ in range(n))


def rand_string(rng):
    """Strings around every branch of encodeChar6: length 0..8, mostly alphabet, dots, a few foreign bytes."""
    n = rng.choice([0, 1, 2, 3, 4, 4, 5, 5, 5, 6, 6, 7, 8, 12])
    k = rng.below(10)
    s = bytearray(rand_alpha(rng, n))
    if n and k == 0:
        s[rng.below(n)] = rng.choice(OUTSIDE + [0x2f, 0x3a, 0x40, 0x5b, 0x60, 0x7b, 0x00, 0xff])
    elif n and k == 1:
        s[-1] = 0x2e
    elif n and k == 2:
        for i in range(n):
            if rng.chance(1, 2):
                s[i] = 0x2e
    elif n and k == 3:
        s[rng.below(n)] = rng.below(256)
    return bytes(s)


def char6_part(ctx):
    rng = ctx.rng
    syms = list(ALPHA) + OUTSIDE
    cases = [b""]
    for n in (1, 2):
        for t in itertools.product(syms, repeat=n):
            cases.append(bytes(t))
    # boundary lengths and the dot rules
    edge = [b".", b"..", b".....", b"....a", b"a....", b"a...b", b"abcde", b"abcdef", b"abcd.", b"abcde.", b"_____",
            b"00000", b"0000", b"0", b"00", b"ZZZZZ", b"ZZZZZZ", b"....", b"...._", b"_....", b"abc-e", b"-bcde", b"abcd-",
            b"foo", b"foo.", b"foo.a", b"xy.z", b"a_b_c", b"very long", b" ", b"verylong", b"?", b"abcdefghijklmnop",
            bytes([0x80]), bytes([0xff] * 5), b"\x00", b"a\x00", b"0000.", b".0000", b"00000.", b"000000"]
    cases += edge
    for n in (3, 4, 5, 6, 7):
        for _ in range(ctx.budget(120, 3000)):
            cases.append(rand_alpha(rng, n))
        for pos in range(n):
            s = bytearray(rand_alpha(rng, n))
            s[pos] = rng.choice(OUTSIDE)
            cases.append(bytes(s))
            s = bytearray(rand_alpha(rng, n))
            s[pos] = 0x2e
            cases.append(bytes(s))
    for _ in range(ctx.budget(1500, 60000)):
        cases.append(rand_string(rng))
    for c in range(256):
        cases.append(bytes([c]))
        cases.append(b"ab" + bytes([c]) + b"d")
    # ids for the decode direction
    ids = [0, -1, -2, -63, -64, -65, -(1 << 30), -(1 << 30) + 1, -(1 << 30) - 1, -I32, -I32 + 1, -4096, -4097,
           1, 2, 63, 64, I32 - 1]
    for _ in range(ctx.budget(600, 20000)):
        ids.append(-1 - rng.below(1 << 30))
    for _ in range(ctx.budget(100, 5000)):
        ids.append(-I32 + rng.below(1 << 30))
    for _ in range(ctx.budget(50, 2000)):
        ids.append(rng.below(I32))
    # ids with trailing dot sextets (short strings) of every length
    for n in range(0, 6):
        for _ in range(ctx.budget(20, 500)):
            v = -1
            for _k in range(n):
                v = (v << 6) | rng.below(64)
            ids.append(v)

    ins = [{"mode": "tables"}] + [{"mode": "char6", "s": s.hex()} for s in cases] + [{"mode": "dec", "id": i} for i in ids]
    outs = ctx.impl("intern", ins)
    terms, meta = [], []
    seen_ids = {}
    for i, o in zip(ins, outs):
        if "crash" in o or "panic" in o:
            ctx.corr_break("intern:" + i["mode"], i, o)
            ctx.violation("panic", "implementation panicked or crashed", {"input": i, "observed": o})
            continue
        if i["mode"] == "tables":
            rv = bytes.fromhex(o["reverse"])
            terms.append("CTbl %s %s" % (coq_str(bytes.fromhex(o["alphabet"])), coq_list(list(rv), lambda z: "%d" % z)))
            meta.append((i, o))
            ctx.count(("tables",), True, "tables")
            if o["max"] != 5:
                ctx.corr_break("intern:maxInlined", i, {"observed": o["max"], "model": 5})
            continue
        if i["mode"] == "dec":
            idv = i["id"]
            d = bytes.fromhex(o["dec"])
            terms.append("CDec %s %s %s" % (coq_Z(idv), coq_str(d), coq_opt(o["rid"] if o["rok"] else None, coq_Z)))
            meta.append((i, o))
            ctx.count(("d", idv), True, "decode-image" if -(1 << 30) <= idv <= -2 else "decode-outside-image")
            continue
        s = bytes.fromhex(i["s"])
        ok, idv = o["ok"], o["id"]
        klass = "empty" if not s else ("inline" if ok else ("too-long" if len(s) > 5 else ("trailing-dot" if s.endswith(b".") else "foreign-byte")))
        ctx.count(("e", s), len(s) > 0, klass)
        terms.append("CEnc %s %s %s" % (coq_str(s), coq_opt(idv if ok else None, coq_Z), coq_str(bytes.fromhex(o.get("dec", "")))))
        meta.append((i, o))
        # ---- direct oracle: the property on the implementation
        rep = {"s": i["s"], "text": s.decode("latin-1"), "observed": o}
        if ok:
            if bytes.fromhex(o["dec"]) != s:
                ctx.violation("char6-roundtrip", "decodeChar6(encodeChar6(s)) != s", rep)
            if s and idv >= 0:
                ctx.violation("char6-inline-id-not-negative", "inline id of a non-empty string is not negative (collides with table ids / the empty string)", rep)
            if not s and idv != 0:
                ctx.violation("char6-empty-not-zero", "the empty string is not ID 0", rep)
            if idv in seen_ids and seen_ids[idv] != s:
                ctx.violation("char6-collision", "two different strings share one inline id",
                              dict(rep, other=seen_ids[idv].hex(), other_text=seen_ids[idv].decode("latin-1")))
            seen_ids.setdefault(idv, s)
            if o["iid"] != idv or not o["q0ok"] or o["q0id"] != idv:
                ctx.violation("inline-intern-query-disagree", "Intern/Query of an inline string do not return its char6 id", rep)
        else:
            if o["q0ok"]:
                ctx.violation("query-present-before-intern", "Query reports a non-inline string as present on a fresh table", rep)
            if o["iid"] <= 0:
                ctx.violation("table-id-not-positive", "a non-inline string got a non-positive id", rep)
        if bytes.fromhex(o["val"]) != s:
            ctx.violation("value-intern-roundtrip", "Value(Intern(s)) != s", rep)
        if not o["q1ok"] or o["q1id"] != o["iid"]:
            ctx.violation("query-after-intern", "Query after Intern(s) does not report s present with the same id", rep)
        # the inline domain itself (model/impl agreement on it is the correspondence; the spec reading is recorded)
        if ok != spec_encodable(s):
            ctx.corr_break("intern:inline-domain", i, {"observed_ok": ok, "expected_ok": spec_encodable(s)})
    ctx.sample({"mode": "char6", "s": cases[5000].hex(), "observed": outs[5001]})
    ctx.sample({"mode": "dec", "id": ids[30], "observed": outs[len(cases) + 31]})
    header = ("From Coq Require Import List NArith ZArith Bool.\nImport ListNotations.\n"
              "From PV Require Import Common.Corr Model.Char6.\nOpen Scope Z_scope.\n")
    mism, err = coq_eval_mismatches("cases_C38a", header, terms, "char6_chk", shard_size=1200)
    if err:
        raise RuntimeError(err)
    for k in mism:
        i, o = meta[k]
        ctx.corr_break("char6:" + i["mode"], i, {"observed": o})
    return len(cases)


def sweep_part(ctx):
    """Implementation-side direct oracle over the whole inline domain (all strings of length <= 5 over the
    64-symbol alphabet): encodable exactly when not ending in a dot, id negative, decode(encode s) = s
    (which makes encode injective), Query/Intern/Value agree."""
    full = ctx.tier == "thorough"
    deep = set(ALPHA) if full else set(ctx.rng.shuffle(list(ALPHA))[:8])
    ins = [{"mode": "sweep", "first": "", "maxrest": 0}] + \
          [{"mode": "sweep", "first": bytes([c]).hex(), "maxrest": 4 if c in deep else 3} for c in ALPHA]
    outs = ctx.impl("intern", ins, shards=NCPU)
    total = enc = 0
    for i, o in zip(ins, outs):
        if "crash" in o or "panic" in o:
            ctx.violation("panic", "implementation panicked or crashed during the domain sweep", {"input": i, "observed": o})
            continue
        total += o["count"]
        enc += o["encodable"]
        if o["bad"]:
            sh, why = o["first_bad"].split(":")
            key = {"roundtrip": "char6-roundtrip", "id-not-negative": "char6-inline-id-not-negative",
                   "empty-not-zero": "char6-empty-not-zero", "value": "value-intern-roundtrip",
                   "query": "inline-intern-query-disagree", "intern": "inline-intern-query-disagree"}.get(why)
            rep = {"s": sh, "text": bytes.fromhex(sh).decode("latin-1"), "why": why, "failures_in_shard": o["bad"], "shard": i}
            if key:
                ctx.violation(key, "domain sweep: " + why, rep)
            else:
                ctx.corr_break("intern:inline-domain", i, rep)
    expect_total = sum(64 ** n for n in range(0, 5)) + len(deep) * 64 ** 4
    expect_enc = 1 + sum(63 * 64 ** (n - 1) for n in range(1, 5)) + len(deep) * 63 * 64 ** 3
    ctx.extra["sweep"] = {"strings": total, "encodable": enc, "expected_strings": expect_total, "expected_encodable": expect_enc}
    if total != expect_total or enc != expect_enc:
        ctx.corr_break("intern:sweep-count", {"mode": "sweep"}, ctx.extra["sweep"])
    ctx.evaluations += total
    ctx.hist["sweep-alphabet-strings"] = total
    ctx.extra["sweep"]["coverage"] = ("all strings of length <= 5 over the 64-symbol alphabet" if full else
                                      "all strings of length <= 4, and all of length 5 below 8 of the 64 first symbols (the thorough tier sweeps all of 64^5)")


def make_pool(rng, n):
    pool = []
    while len(pool) < n:
        k = rng.below(6)
        if k == 0:
            s = rand_alpha(rng, rng.range(1, 5))                      # inline
        elif k == 1:
            s = rand_alpha(rng, rng.range(1, 4)) + b"."               # trailing dot: table
        elif k == 2:
            s = rand_alpha(rng, rng.range(6, 10))                     # too long: table
        elif k == 3:
            s = rand_string(rng)
        elif k == 4:
            s = b"pkg." + rand_alpha(rng, rng.range(1, 3)) + b".Msg"  # shared prefixes
        else:
            s = rng.bytes(rng.range(1, 7))
        if s not in pool:
            pool.append(s)
    if rng.chance(1, 3) and b"" not in pool:
        pool[rng.below(n)] = b""
    return pool


def seq_part(ctx):
    rng = ctx.rng
    ins, plans = [], []
    for _ in range(ctx.budget(300, 6000)):
        pool = make_pool(rng, rng.range(1, 8))
        ops, got = [], 0
        for _k in range(rng.range(1, 24)):
            r = rng.below(10)
            if r < 6:
                ops.append(["i", rng.choice(pool).hex()])
                got += 1
            elif r < 8:
                ops.append(["q", rng.choice(pool + [b"never-seen", b"zz"]).hex()])
            else:
                ops.append(["v", rng.choice([0, 1, 2, 3, got, got + 1, -1, -2, -54, -(1 << 30), -I32, -1 - rng.below(1 << 30), 9])])
        ins.append({"mode": "seq", "ops": ops})
    # histories through the byte-slice entry points: the caller owns up to four buffers, fills one
    # (in place, at some offset of a fixed backing array), calls InternBytes / QueryBytes on it and
    # later overwrites it; in between, earlier strings are asked for again through every entry point
    for _ in range(ctx.budget(400, 8000)):
        pool = make_pool(rng, rng.range(1, 8))
        if rng.chance(1, 2):      # same-length table strings: an overwritten buffer holds another pool member
            n = rng.range(6, 12)
            pool += [rand_alpha(rng, n) for _k in range(rng.range(1, 4))]
        nb = rng.choice([1, 1, 2, 4])
        ops, got = [], 0
        for _k in range(rng.range(2, 20)):
            r = rng.below(12)
            b = rng.below(nb)
            if r < 5:
                ops.append(["w", b, rng.choice(pool).hex(), rng.choice([0, 0, 1, 3, 8])])
                ops.append(["ib", b] if rng.chance(4, 5) else ["qb", b])
                got += 1
            elif r == 5:
                ops.append(["ib", b] if rng.chance(1, 2) else ["qb", b])      # the same buffer again, unchanged
            elif r == 6:
                ops.append(["w", b, (rng.choice(pool) if rng.chance(1, 2) else rng.bytes(rng.range(0, 12))).hex(), rng.choice([0, 0, 2])])
            elif r < 9:
                ops.append(["i", rng.choice(pool).hex()])
                got += 1
            elif r < 11:
                ops.append(["q", rng.choice(pool + [b"never-seen"]).hex()])
            else:
                ops.append(["v", rng.choice([1, 2, 3, got, got + 1, -2, 9])])
        # afterwards every pool string is asked for once more, by Query and by Intern
        tail = rng.shuffle(pool)[: rng.range(1, len(pool))]
        ops += [["q", x.hex()] for x in tail] + [["i", x.hex()] for x in tail] + [["v", k] for k in range(1, min(got, 6) + 1)]
        ins.append({"mode": "seq", "ops": ops, "bytes": True})
    outs = ctx.impl("intern", ins)
    terms, meta = [], []
    for i, o in zip(ins, outs):
        if "crash" in o or "panic" in o:
            ctx.corr_break("intern:seq", i, o)
            ctx.violation("panic", "implementation panicked or crashed", {"input": i, "observed": o})
            continue
        cops, cobs = [], []
        by_s, by_id, interned = {}, {}, set()
        bufs = {}
        use_b = bool(i.get("bytes"))
        wrap = (lambda x: "BOp (%s)" % x) if use_b else (lambda x: x)
        res = iter(o["res"])
        for op in i["ops"]:
            if op[0] == "w":
                bufs[op[1] % 4] = bytes.fromhex(op[2])
                cops.append("BWrite %d %s" % (op[1] % 4, coq_str(bytes.fromhex(op[2]))))
                continue
            r = next(res, None)
            if r is None:
                ctx.corr_break("intern:seq-short-result", i, o)
                break
            if op[0] in ("ib", "qb"):
                # the property through the byte-slice entry point: the call is about the content the buffer has NOW
                cops.append("%s %d" % ("BInternBytes" if op[0] == "ib" else "BQueryBytes", op[1] % 4))
                op = ["i" if op[0] == "ib" else "q", bufs.get(op[1] % 4, b"").hex()]
                wr = lambda x: None
            else:
                wr = lambda x: cops.append(wrap(x))
            if op[0] == "i":
                s = bytes.fromhex(op[1])
                wr("OIntern %s" % coq_str(s))
                cobs.append("RIntern %s" % coq_Z(r[0]))
                # ---- direct oracle
                rep = {"ops": i["ops"], "res": o["res"], "string": op[1]}
                if s in by_s and by_s[s] != r[0]:
                    ctx.violation("same-string-different-ids", "one string was given two different ids on one table", rep)
                if r[0] in by_id and by_id[r[0]] != s:
                    ctx.violation("different-strings-same-id", "two different strings share an id on one table", rep)
                by_s[s] = r[0]
                by_id[r[0]] = s
                interned.add(s)
            elif op[0] == "q":
                s = bytes.fromhex(op[1])
                wr("OQuery %s" % coq_str(s))
                cobs.append("RQuery %s %s" % (coq_Z(r[0]), coq_bool(r[1])))
                rep = {"ops": i["ops"], "res": o["res"], "string": op[1]}
                if r[1] and not (s in interned or spec_encodable(s)):
                    ctx.violation("query-present-never-interned", "Query reports a string present that is not inline and was never interned", rep)
                if not r[1] and s in interned:
                    ctx.violation("query-absent-after-intern", "Query reports an interned string as absent", rep)
                if r[1] and s in by_s and by_s[s] != r[0]:
                    ctx.violation("query-id-differs-from-intern", "Query returns another id than Intern did", rep)
            else:
                wr("OValue %s" % coq_Z(op[1]))
                cobs.append("RValue %s" % ("None" if r[0] == "panic" else "(Some %s)" % coq_str(bytes.fromhex(r[0]))))
                if op[1] in by_id and (r[0] == "panic" or bytes.fromhex(r[0]) != by_id[op[1]]):
                    ctx.violation("value-intern-roundtrip", "Value(Intern(s)) != s",
                                  {"ops": i["ops"], "res": o["res"], "id": op[1], "string": by_id[op[1]].hex()})
        ctx.count(("s", repr(i["ops"])), len(by_s) > 0, "seq-bytes" if use_b else "seq")
        terms.append("%s %s %s" % ("CSeqB" if use_b else "CSeq", coq_list(cops, str), coq_list(cobs, str)))
        meta.append((i, o))
    ctx.sample(dict(ins[0], observed=outs[0]))
    return terms, meta


def conc_inputs(ctx, n):
    rng = ctx.rng
    ins = []
    for k in range(n):
        g = rng.choice([2, 2, 3, 4, 8, 8, 16, 32])
        pool = make_pool(rng, rng.range(1, 24))
        style = rng.below(3)
        progs = []
        base = rng.shuffle(pool)
        for t in range(g):
            if style == 0:      # everyone interns the same new strings in the same order: maximal contention
                p = list(base)
            elif style == 1:    # same multiset, own order
                p = rng.shuffle(pool)
            else:               # random multisets with repeats
                p = [rng.choice(pool) for _ in range(rng.range(1, 2 * len(pool)))]
            if rng.chance(1, 2):
                p = p + p[: rng.below(len(p) + 1)]
            progs.append([s.hex() for s in p])
        ins.append({"mode": "conc", "progs": progs, "yield": rng.chance(1, 2), "bytes": rng.chance(1, 2)})
    return ins


def conc_oracle(ctx, i, o, terms, meta, klass):
    if "crash" in o or "panic" in o:
        txt = str(o.get("crash", "")) + str(o.get("panic", ""))
        if "DATA RACE" in txt:
            ctx.violation("data-race", "the race detector reported a data race during concurrent Intern/Value", {"input": i, "observed": o})
        else:
            ctx.corr_break("intern:conc", i, o)
            ctx.violation("panic", "implementation panicked or crashed", {"input": i, "observed": o})
        return
    rep = {"input": i, "observed": o}
    if "gopanics" in o:
        ctx.violation("panic", "a goroutine panicked inside Intern/Value", rep)
        return
    by_s, by_id = {}, {}
    for prog, ids, vals in zip(i["progs"], o["ids"], o["vals"]):
        for sh, idv, v in zip(prog, ids, vals):
            if sh in by_s and by_s[sh] != idv:
                ctx.violation("same-string-different-ids", "goroutines interning concurrently got different ids for one string",
                              dict(rep, string=sh, ids=[by_s[sh], idv]))
            if idv in by_id and by_id[idv] != sh:
                ctx.violation("different-strings-same-id", "two different strings share an id", dict(rep, id=idv, strings=[by_id[idv], sh]))
            by_s.setdefault(sh, idv)
            by_id.setdefault(idv, sh)
            if v != sh:
                ctx.violation("value-intern-roundtrip", "Value(Intern(s)) != s under concurrency", dict(rep, string=sh, id=idv, value=v))
    for prog, fin in zip(i["progs"], o["final"]):
        for sh, (qid, qok) in zip(prog, fin):
            if not qok or qid != by_s.get(sh):
                ctx.violation("query-after-intern", "Query after all goroutines finished does not report the interned id", dict(rep, string=sh))
    nthreads = len(i["progs"])
    ctx.count(("c", repr(i["progs"])), nthreads > 1 and len(o["log"]) > 0, klass)
    if "panic" in o["log"]:
        ctx.corr_break("intern:conc-log", i, o)
        return
    terms.append("CConc %s %s %s" % (
        coq_list(i["progs"], lambda p: coq_list(p, lambda h: coq_str(bytes.fromhex(h)))),
        coq_list(o["ids"], lambda l: coq_list(l, coq_Z)),
        coq_list(o["log"], lambda h: coq_str(bytes.fromhex(h)))))
    meta.append((i, o))
    if o["beyond"] != "panic":
        ctx.corr_break("intern:conc-log-length", i, {"observed": "Value(max id + 1) did not panic: log longer than the ids handed out", "beyond": o["beyond"]})


def run(ctx):
    import time
    tm = {}
    t0 = time.time()
    char6_part(ctx)
    tm["char6"] = round(time.time() - t0, 1)
    t0 = time.time()
    sweep_part(ctx)
    tm["sweep"] = round(time.time() - t0, 1)
    t0 = time.time()
    terms, meta = seq_part(ctx)
    ins = conc_inputs(ctx, ctx.budget(800, 6000))
    outs = ctx.impl("intern", ins, shards=4)
    # every run goes through the direct oracle; the first ones (and every one the oracle flags) also go to the model
    ncoq = ctx.budget(100, 1500)
    for k, (i, o) in enumerate(zip(ins, outs)):
        nv = len(ctx.violations)
        sink_t, sink_m = ([], []) if k >= ncoq else (terms, meta)
        conc_oracle(ctx, i, o, sink_t, sink_m, "conc")
        if k >= ncoq and len(ctx.violations) > nv and len(meta) < ncoq + 20:
            terms += sink_t
            meta += sink_m
    ctx.sample({"mode": "conc", "goroutines": len(ins[0]["progs"]), "progs": ins[0]["progs"][:2], "ids": outs[0].get("ids", [])[:2], "log": outs[0].get("log")})
    if ctx.tier == "thorough":
        rins = conc_inputs(ctx, 2000)
        routs = ctx.impl("intern", rins, race=True, shards=8, env={"GORACE": "halt_on_error=1 exitcode=66"})
        nrace = 0
        for i, o in zip(rins, routs):
            if "crash" in o and ("exit 66" in str(o["crash"]) or "DATA RACE" in str(o["crash"])):
                # the race detector halted this shard; the first unanswered case is the one that was running
                nrace += 1
                if nrace == 1:
                    ctx.violation("data-race", "the race detector reported a data race during concurrent Intern/Value (exit code 66)",
                                  {"input": i, "observed": o, "rerun": "go build -race -tags verif ./cmd/intern; GORACE=halt_on_error=1 ./intern < case"})
                continue
            conc_oracle(ctx, i, o, [], [], "conc-race")
        ctx.extra["race_reports"] = nrace
        ctx.extra["race_detector_runs"] = len(rins)
    header = ("From Coq Require Import List NArith ZArith Bool.\nImport ListNotations.\n"
              "From PV Require Import Common.Corr Model.Char6 Model.Intern.\nOpen Scope Z_scope.\n")
    tm["table-runs"] = round(time.time() - t0, 1)
    t0 = time.time()
    mism, err = coq_eval_mismatches("cases_C38b", header, terms, "intern_chk", shard_size=max(25, len(terms) // 12 + 1))
    tm["table-model"] = round(time.time() - t0, 1)
    ctx.extra["timing_s"] = tm
    if err:
        raise RuntimeError(err)
    for k in mism:
        i, o = meta[k]
        ctx.corr_break("intern:" + i["mode"], i, {"observed": o})
    ctx.rule = ("char6: the empty string, all strings of length <= 2 over the 64 alphabet symbols + 3 foreign bytes, boundary lengths 3..7 "
                "(random alphabet strings, a dot / a foreign byte at every position), hand-picked dot cases, all 256 single bytes, random strings "
                "(len 0..12), and decode on boundary / random int32 ids; plus an implementation-side sweep of ALL 64^0+..+64^5 alphabet strings; "
                "table: random op sequences (Intern/Query/Value) on one table run sequentially against the model's sequential schedule; random histories "
                "through InternBytes/QueryBytes on up to four caller-owned buffers that the caller overwrites in place between calls (same-length and "
                "different-length contents, several offsets), followed by Query/Intern/Value of every earlier string, against the model's snapshot semantics "
                "and the direct oracle; and random "
                "string multisets interned by 2..32 goroutines (same order / own order / random repeats; in half of the runs through InternBytes on a "
                "per-goroutine scratch buffer scribbled over after each call): every run through the direct oracle, the first "
                "100 (quick) also checked against the model run in the observed commit order; distinct = distinct input string / id / op sequence / program set; non-trivial = non-empty string, at least one Intern, "
                "more than one goroutine with at least one table string")
    ctx.exhaustive = True
    ctx.extra["exhaustive_part"] = ("all strings of length <= 2 over 67 symbols (model vs implementation); implementation-side oracle: "
                                    + ctx.extra["sweep"]["coverage"])
