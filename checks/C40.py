"""C40 - Interval maps match a naive model (internal/interval: Intersect, Nesting)."""
import itertools
from vlib import *

ID = "C40"
COQ_FILES = ["Common/Corr.v", "Model/Interval.v", "Proofs/Interval.v", "Proofs/IntervalNest.v", "Props/C40.v"]
PROPS = "Props/C40.v"

# Which instance of the parametrised model (coq/Model/Interval.v, record cfg) describes the working
# tree. "asis" = the pinned tree with its four defects; after a repair set the corresponding field
# to True here (and move the known-finding line to fixed:), nothing else changes.
CFG = {"fix_gap": False, "fix_clip": True, "fix_eqend": True, "fix_encl": True}
# for trying a repair in a scratch copy (VERIF_REPO=...): VERIF_C40_CFG=fix_gap,fix_clip,fix_eqend,fix_encl
import os as _os
for _k in filter(None, _os.environ.get("VERIF_C40_CFG", "").split(",")):
    CFG[_k.strip()] = True

THEOREMS = [
    # the tree as it is (cfg asis): refutations + what still holds, and under which guard
    "C40_entries_sorted_disjoint_refuted", "C40_get_eq_naive_refuted", "C40_get_eq_naive_aliasing_refuted",
    "C40_insert_disjoint_flag_refuted", "C40_intersect_partial", "C40_intersect_guarded", "C40_insert_panics_iff",
    # the repaired code (cfg repaired): the full property
    "C40_entries_sorted_disjoint_repaired", "C40_get_eq_naive_repaired", "C40_insert_disjoint_flag_repaired",
    "C40_nesting_sets_laminar_refuted", "C40_nesting_partition_refuted", "C40_nesting_partial", "C40_nesting_guarded",
    "C40_nesting_sets_laminar_repaired", "C40_nesting_partition_repaired",
]
AXIOMS_OK = []
TRUSTED = ["hand-written Gallina model of Intersect.Insert/Get/Entries and Nesting.Insert/Sets (coq/Model/Interval.v)",
           "tidwall/btree Map is abstracted to a list sorted strictly by End with the contract of Set (insert/replace at the sorted "
           "position), Iter.Seek (first key >= k), Iter.Next/Prev/Last/First and Scan (in key order); the B-tree itself is not verified",
           "Go slices are modelled as (array, len, cap) over a heap of backing arrays; runtime.growslice's capacity rule for 8-byte "
           "elements is transcribed (size classes up to 256 elements) and compared with cap() observed on the implementation",
           "correspondence harness harness/cmd/interval (Intersect[int,int], Nesting[int,int])"]
ASSUMPTIONS = ["endpoints are mathematical integers: overflow of end+1 / start-1 at the extremes of the Go integer type is not modelled",
               "values are the insertion indices 1,2,...; the theorems are stated for arbitrary natural-number values",
               "reading of 'strictly nested': one interval is a strict subset of the other (the weaker reading; sharing one endpoint is allowed)"]

KEY_GAP = "intersect-gap-adjacent-entries"
KEY_ALIAS = "intersect-append-aliasing"
KEY_EQEND = "nesting-equal-end-overwrite"
KEY_ENCL = "nesting-enclosing-interval-straddled"


# ------------------------------------------------------------------ the property, evaluated on observations
def naive(ops, p):
    return [i + 1 for i, (a, b) in enumerate(ops) if a <= p <= b]


def sorted_disjoint(entries):
    for e in entries:
        if e[0] > e[1]:
            return False
    for x, y in zip(entries, entries[1:]):
        if not x[1] < y[0]:
            return False
    return True


def lookup(entries, p):
    for e in entries:
        if e[1] >= p:
            return list(e[2]) if e[0] <= p else []
    return []


def intersect_state_ok(ops, entries, lo, hi):
    """Returns None or (kind, detail) for the first part of the property that fails on this state."""
    if not sorted_disjoint(entries):
        return ("entries-not-sorted-disjoint", {"entries": entries})
    for p in range(lo, hi + 1):
        if lookup(entries, p) != naive(ops, p):
            return ("get-mismatch", {"point": p, "got": lookup(entries, p), "want": naive(ops, p)})
    return None


def flag_want(ops, i):
    a, b = ops[i]
    return all(d < a or b < c for (c, d) in ops[:i])


def classify_intersect(ops, steps, lo, hi, flags):
    """First failing step of the trace and the defect class (known hazard) that explains it, if any."""
    prev = []
    clip_hz = False
    for i, (a, b) in enumerate(ops):
        gap_hz = any(x[1] + 1 == y[0] and x[1] >= a and y[0] <= b for x, y in zip(prev, prev[1:]))
        if any(e[1] >= a and e[0] <= b and len(e[2]) < e[3] for e in prev):
            clip_hz = True
        bad = intersect_state_ok(ops[:i + 1], steps[i], lo, hi)
        if bad is None and flags[i] != flag_want(ops, i):
            bad = ("disjoint-flag-wrong", {"step": i, "got": flags[i]})
        if bad is not None:
            if gap_hz:
                return KEY_GAP, i
            if clip_hz:
                return KEY_ALIAS, i
            return "intersect-" + bad[0], i
        prev = steps[i]
    return None, None


def laminar_pair(x, y):
    (a, b), (c, d) = (x[0], x[1]), (y[0], y[1])
    if b < c or d < a:
        return True
    if (a, b) == (c, d):
        return False
    return (c <= a and b <= d) or (a <= c and d <= b)


def nesting_state_ok(ops, sets):
    for s in sets:
        for x, y in itertools.combinations(s, 2):
            if not laminar_pair(x, y):
                return ("sets-not-laminar", {"pair": [x, y]})
    got = sorted(tuple(e) for s in sets for e in s)
    want = sorted((a, b, i + 1) for i, (a, b) in enumerate(ops))
    if got != want:
        return ("not-a-partition", {"sets": sets})
    return None


def classify_nesting(ops, steps):
    prev = []
    for i, (a, b) in enumerate(ops):
        bad = nesting_state_ok(ops[:i + 1], steps[i])
        if bad is not None:
            # the set that received the interval
            for k, s in enumerate(steps[i]):
                if [a, b, i + 1] in s and k < len(prev):
                    old = prev[k]
                    if bad[0] == "not-a-partition" and any(e[1] == b for e in old):
                        return KEY_EQEND, i
                    later = [e for e in old if e[1] >= b][1:]
                    if bad[0] == "sets-not-laminar" and any(a <= e[0] <= b and not laminar_pair(e, (a, b)) for e in later) \
                            and all(laminar_pair(e, (a, b)) for e in old if e not in later):
                        return KEY_ENCL, i
            return "nesting-" + bad[0], i
        prev = steps[i]
    return None, None


def oracle_intersect(ctx, i, o):
    """Direct oracle on the final state of one Intersect history (real Get, real flags, real Entries)."""
    ops = [tuple(x) for x in i["ops"]]
    if "panic" in o:
        ctx.violation("intersect-panic", "Insert panicked on valid intervals", {"ops": i["ops"], "observed": o})
        return
    fails = []
    if not sorted_disjoint(o["entries"]):
        fails.append(("intersect-entries-not-sorted-disjoint", "Entries() is not sorted / pairwise disjoint / non-empty"))
    for p, g in zip(range(i["lo"], i["hi"] + 1), o["gets"]):
        if list(g[2]) != naive(ops, p):
            fails.append(("intersect-get-mismatch", "Get(%d) returned %s, the intervals containing it are %s" % (p, g[2], naive(ops, p))))
            break
    for k in range(len(ops)):
        if o["flags"][k] != flag_want(ops, k):
            fails.append(("intersect-disjoint-flag-wrong", "Insert #%d returned disjoint=%s" % (k + 1, o["flags"][k])))
            break
    if fails:
        key, step = classify_intersect(ops, o["steps"], i["lo"], i["hi"], o["flags"])
        if key is None:
            key = fails[0][0]
        ctx.violation(key, fails[0][1], {"ops": i["ops"], "first_failing_step": step, "entries": o["entries"],
                                         "flags": o["flags"], "gets_from": i["lo"], "gets": o["gets"], "all": [f[0] for f in fails]})


def oracle_nesting(ctx, i, o):
    ops = [tuple(x) for x in i["ops"]]
    bad = nesting_state_ok(ops, o["sets"])
    if bad is not None:
        key, step = classify_nesting(ops, o["steps"])
        if key is None:
            key = "nesting-" + bad[0]
        ctx.violation(key, "Nesting.Sets(): " + bad[0], {"ops": i["ops"], "first_failing_step": step, "sets": o["sets"], "detail": bad[1]})


def unknown_violations(ctx):
    known = load_known()
    return [v for v in ctx.violations if (ID, v[0]) not in known]


def escalate(ctx, breaks):
    """The model and the implementation disagree somewhere but no history violated the property so far:
    search harder around the disagreeing histories before giving up (direct oracle only, no model).
    (1) every disagreeing history (shortest first) extended by every sequence of <= 2 (<= 3 on tiny domains) further
    insertions over its own endpoint range; (2) long random histories made of repeated intervals followed by nested and
    remainder insertions."""
    rng = ctx.rng
    seen, ins = set(), []

    def add(mode, ops, lo=None, hi=None):
        k = (mode, tuple(ops))
        if k in seen or any(a > b for a, b in ops):
            return
        seen.add(k)
        if mode == "intersect":
            ins.append({"mode": mode, "ops": [list(x) for x in ops], "trace": True,
                        "lo": min(a for a, _ in ops) - 1, "hi": max(b for _, b in ops) + 1})
        else:
            ins.append({"mode": mode, "ops": [list(x) for x in ops], "trace": True})
    todo = sorted(breaks, key=lambda c: len(c["ops"]))[: ctx.budget(250, 1500)]
    for c in todo:
        ops = [tuple(x) for x in c["ops"]]
        if not ops or any(a > b for a, b in ops):
            continue
        lo, hi = min(a for a, _ in ops), max(b for _, b in ops)
        if hi - lo > 5:
            pts = sorted({p for o in ops for p in (o[0], o[1], o[0] - 1, o[1] + 1)})[:7]
            ivs = [(a, b) for a in pts for b in pts if a <= b]
        else:
            ivs = intervals(lo, hi)
        for x in ivs:
            add(c["mode"], ops + [x])
        for x in ivs:
            for y in ivs:
                add(c["mode"], ops + [x, y])
                if len(ivs) <= 6:
                    for z in ivs:
                        add(c["mode"], ops + [x, y, z])
    for _ in range(ctx.budget(4000, 60000)):
        w = rng.range(1, 5)
        ops = [(0, w)] * rng.range(3, 9)
        for _ in range(rng.range(2, 8)):
            a = rng.range(0, w)
            ops.append((a, rng.range(a, w)) if rng.chance(4, 5) else (0, w))
        add("intersect", ops)
    for _ in range(ctx.budget(2000, 30000)):
        span = rng.choice([3, 5, 8])
        ops = []
        for _ in range(rng.range(3, 12)):
            a = rng.range(0, span)
            ops.append((a, min(span, a + rng.choice([0, 1, 1, 2, 3, span]))))
        add("nesting", ops)
    outs = ctx.impl("interval", ins)
    for i, o in zip(ins, outs):
        if "crash" in o:
            continue
        ctx.count(("esc", i["mode"], tuple(tuple(x) for x in i["ops"])), True, "escalated-" + i["mode"])
        if i["mode"] == "intersect":
            oracle_intersect(ctx, i, o)
        elif "panic" not in o:
            oracle_nesting(ctx, i, o)
    ctx.extra["escalated_search"] = {"cases": len(ins), "around_disagreeing_histories": len(todo),
                                     "found_failing_input": bool(unknown_violations(ctx))}
    ctx.notes.append("correspondence broke without a property failure in the regular cases: escalated search over %d further histories" % len(ins))


# ------------------------------------------------------------------ Coq terms
def cz(z):
    return "(%d)" % z if z < 0 else "%d" % z


def cfg_term():
    return "{| fix_gap := %s; fix_clip := %s; fix_eqend := %s; fix_encl := %s |}" % tuple(
        coq_bool(CFG[k]) for k in ("fix_gap", "fix_clip", "fix_eqend", "fix_encl"))


def ops_term(ops):
    return coq_list(ops, lambda o: "(%s, %s)" % (cz(o[0]), cz(o[1])))


def intervals(lo, hi):
    return [(a, b) for a in range(lo, hi + 1) for b in range(a, hi + 1)]


def run(ctx):
    rng = ctx.rng
    icases = []   # (ops, lo, hi)
    ncases = []
    corpus_i = [
        [(0, 4), (5, 9), (2, 7)], [(0, 4), (5, 9), (2, 7), (3, 3)],
        [(0, 1), (0, 1), (0, 1), (1, 1), (0, 0)], [(0, 10), (0, 10), (0, 10), (0, 4), (5, 10)],
        [(0, 9)], [(0, 9), (30, 39)], [(30, 39), (0, 9)], [(0, 9), (30, 39), (20, 25)], [(0, 9), (30, 39), (20, 29)],
        [(0, 9), (30, 39), (10, 19)], [(0, 9), (30, 39), (10, 29)], [(0, 9), (1, 2)], [(0, 9), (0, 2)], [(0, 9), (0, 9)],
        [(0, 9), (9, 12)], [(0, 9), (30, 39), (9, 12)], [(0, 9), (30, 39), (9, 35)], [(0, 9), (30, 39), (-5, 45)],
        [(10, 19), (30, 39), (50, 59), (15, 55)], [(10, 19), (20, 29), (30, 39), (0, 100)], [(3, 2)], [(0, 1), (5, 4)],
        [(-3, -1), (-2, 0), (-5, 5)],
    ]
    corpus_n = [
        [(0, 10), (5, 10)], [(3, 10), (5, 6), (2, 4)], [(3, 10), (5, 6), (2, 3)], [(1, 2), (8, 9), (4, 6)],
        [(1, 10), (5, 15), (4, 9), (9, 11)], [(0, 10), (0, 10)], [(0, 10), (2, 3), (5, 10)], [(0, 10), (2, 3), (1, 5)],
        [(11, 20), (12, 13), (0, 10), (5, 15), (12, 15), (14, 15), (9, 9), (10, 12), (10, 11)], [(3, 4), (0, 10)], [(5, 3), (4, 4)],
    ]
    for ops in corpus_i:
        icases.append((ops, min(min(o) for o in ops) - 1, max(max(o) for o in ops) + 1))
    ncases += corpus_n
    # exhaustive small domains
    plans = ctx.budget([(4, 3), (2, 4), (1, 6)], [(5, 3), (3, 5), (1, 9)])
    for hi, n in plans:
        ivs = intervals(0, hi)
        for k in range(0, n + 1):
            for t in itertools.product(ivs, repeat=k):
                icases.append((list(t), -1, hi + 1))
    nplans = ctx.budget([(3, 3), (2, 4)], [(5, 3), (3, 5)])
    for hi, n in nplans:
        ivs = intervals(0, hi)
        for k in range(0, n + 1):
            for t in itertools.product(ivs, repeat=k):
                ncases.append(list(t))
    # k >= 3 insertions of the same interval (its value slice gets spare capacity), then every sequence of <= 3
    # insertions of sub-intervals (nested pieces and the remainders around them, in all orders)
    sub = intervals(0, 2)
    for k in ctx.budget([3, 5], [3, 4, 5, 6, 7, 9]):
        for m in range(1, 4):
            for t in itertools.product(sub, repeat=m):
                icases.append(([(0, 2)] * k + list(t), -1, 3))
    for k in ctx.budget([3], [3, 5]):
        for t in itertools.permutations([(1, 2), (0, 0), (3, 3), (1, 1), (2, 2)], 4):
            icases.append(([(0, 3)] * k + list(t), -1, 4))
    n_exh_i, n_exh_n = len(icases), len(ncases)

    # random longer histories; endpoints from a small domain so that intervals touch and stack up
    def rand_ops(maxn, span, allow_bad):
        n = rng.range(1, maxn)
        ops = []
        for _ in range(n):
            a = rng.range(0, span)
            w = rng.choice([0, 0, 1, 1, 2, 3, span // 2, span])
            b = min(span + 2, a + w)
            if allow_bad and rng.chance(1, 200):
                a, b = b + 1, a
            ops.append((a, b))
        return ops
    for _ in range(ctx.budget(800, 60000)):
        span = rng.choice([2, 3, 5, 8, 12, 20])
        ops = rand_ops(rng.choice([6, 10, 16, 30]), span, True)
        icases.append((ops, -1, span + 3))
    for _ in range(ctx.budget(800, 60000)):
        span = rng.choice([3, 5, 8, 12, 20])
        ncases.append(rand_ops(rng.choice([5, 8, 12, 24]), span, False))
    ctx.rule = ("Intersect: every insertion sequence of length <= n over all intervals with endpoints 0..hi for (hi,n) in %s, a corpus of "
                "the repository's own test cases and hand-picked edge cases, and random histories of up to 30 insertions over spans 2..20 "
                "(widths biased to 0-3 so that entries become adjacent and stack up), and 3 or 5 insertions of [0,2] (resp. [0,3]) followed by "
                "every sequence of <= 3 (resp. 4 distinct) nested / remainder insertions; when the model and the implementation disagree "
                "without a property failure, an escalated oracle-only search runs around the disagreeing histories; every case observes the Insert flags, Entries with "
                "cap(), and Get at every point from below the smallest to above the largest endpoint. Nesting: same construction for %s. "
                "distinct = distinct (mode, operation sequence); non-trivial = at least two insertions" % (plans, nplans))

    ins = [{"mode": "intersect", "ops": [list(o) for o in ops], "lo": lo, "hi": hi, "trace": True} for ops, lo, hi in icases] + \
          [{"mode": "nesting", "ops": [list(o) for o in ops], "trace": True} for ops in ncases]
    outs = ctx.impl("interval", ins)
    terms, meta = [], []
    cfg = cfg_term()
    for i, o in zip(ins, outs):
        ops = [tuple(x) for x in i["ops"]]
        if "crash" in o:
            ctx.corr_break("interval", i, o)
            ctx.violation("crash", "harness crashed on this case", {"input": i, "observed": o})
            continue
        if i["mode"] == "intersect":
            bad_op = any(a > b for a, b in ops)
            ctx.count(("i", tuple(ops)), len(ops) >= 2, "intersect-panic" if bad_op else "intersect")
            if "panic" in o:
                terms.append("CI %s %s true [] [] 0 []" % (cfg, ops_term(ops)))
                meta.append((i, o))
                if not bad_op:
                    oracle_intersect(ctx, i, o)
                continue
            ent = lambda e: "(%s, %s, %s, %d%%nat)" % (cz(e[0]), cz(e[1]), coq_nat_list(e[2]), e[3])
            get = lambda e: "(%s, %s, %s)" % (cz(e[0]), cz(e[1]), coq_nat_list(e[2]))
            terms.append("CI %s %s false %s %s %s %s" % (cfg, ops_term(ops), coq_list(o["flags"], coq_bool),
                                                      coq_list(o["entries"], ent), cz(i["lo"]), coq_list(o["gets"], get)))
            meta.append((i, o))
            if bad_op:
                continue
            oracle_intersect(ctx, i, o)
        else:
            ctx.count(("n", tuple(ops)), len(ops) >= 2, "nesting")
            if "panic" in o:
                ctx.corr_break("interval:nesting", i, o)
                ctx.violation("nesting-panic", "Nesting.Insert panicked", {"ops": i["ops"], "observed": o})
                continue
            ent = lambda e: "(%s, %s, %d%%nat)" % (cz(e[0]), cz(e[1]), e[2])
            terms.append("CN %s %s %s" % (cfg, ops_term(ops), coq_list(o["sets"], lambda s: coq_list(s, ent))))
            meta.append((i, o))
            if any(a > b for a, b in ops):
                continue
            oracle_nesting(ctx, i, o)
    ctx.sample({"mode": "intersect", "ops": [list(x) for x in icases[-1][0]]})
    ctx.sample({"mode": "nesting", "ops": [list(x) for x in ncases[-1]]})
    ctx.sample(ins[3])
    header = ("From Coq Require Import List ZArith Bool.\nImport ListNotations.\n"
              "From PV Require Import Common.Corr Model.Interval.\nOpen Scope Z_scope.\n")
    mism, err = coq_eval_mismatches("cases_C40", header, terms, "ival_chk", shard_size=ctx.budget(600, 1500))
    if err:
        raise RuntimeError(err)
    for k in mism:
        i, o = meta[k]
        o = dict(o)
        o.pop("steps", None)
        ctx.corr_break("interval:" + i["mode"], {"mode": i["mode"], "ops": i["ops"]}, {"observed": o, "model_cfg": CFG})
    if mism and not unknown_violations(ctx):
        escalate(ctx, [meta[k][0] for k in mism])
    ctx.exhaustive = True
    ctx.extra["exhaustive_part"] = "Intersect: all sequences for (max endpoint, max length) in %s; Nesting: %s" % (plans, nplans)
    ctx.extra["model_cfg"] = CFG
