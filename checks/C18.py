"""C18 - Resolvers expose exactly the visible elements."""
import os, re, subprocess
from vlib import *

ID = "C18"
COQ_FILES = ["Common/Corr.v", "Model/Visibility.v", "Proofs/Visibility.v", "Props/C18.v"]
PROPS = "Props/C18.v"
THEOREMS = ["C18_find_iff_visible", "C18_find_sound", "C18_find_total", "C18_resolveInFile_terminates",
            "C18_pub_closure_is_rt_closure"]
AXIOMS_OK = []
TRUSTED = ["hand-written Gallina mirror of linker/resolve.go resolveInFile (publicImportsOnly, checked path list) and of the "
           "lookup functions of linker/files.go fileResolver (by name, by extendee and tag, by path)",
           "correspondence harness (harness/cmd/visibility): linker.ResolverFromFile on every file of a compiled graph; "
           "graph generator, renderer and the visible-set oracle in checks/C18.py"]
ASSUMPTIONS = ["files are identified by path; a compile gives every file its imports (graph_ok: unique paths, imports present); "
               "cycles cannot be compiled, so the correspondence uses acyclic graphs while the theorems also cover cyclic ones",
               "findExtension's walk over nested messages is flattened to a list of (extendee, tag, extension) per file",
               "FindMessageByName / FindExtensionByName / FindMessageByURL use the same traversal with a lookup that can also fail with a kind error; not modelled"]


def q(parent, n):
    return n if parent == "" else parent + "." + n


PKGS = ["", "p", "p.q", "r", "p.q.s"]


class File:
    def __init__(self, i, pkg):
        self.i = i
        self.path = "g%d.proto" % i
        self.pkg = pkg
        self.imports = []        # (File, public)
        self.lines = []
        self.names = []          # every full name the file declares
        self.exts = []           # (extendee full name, tag, extension full name)
        self.msgs = []           # extendable messages (full names)


def visible(f):
    """the definition: the file, its direct imports, the public closure of the direct imports"""
    out = [f]
    todo = [g for g, _ in f.imports]
    while todo:
        g = todo.pop()
        if g in out:
            continue
        out.append(g)
        todo += [h for h, pub in g.imports if pub]
    return out


def build(rng, n, edges, sizes=None):
    """edges: list of (i, j, public) with i importing j; files are declared in a shuffled order of ids."""
    files = [File(i, rng.choice(PKGS)) for i in range(n)]
    for i, j, pub in edges:
        files[i].imports.append((files[j], pub))
    tag = [1000]
    used = set()
    # elements, in dependency order (imports first) so that extendees exist
    done = []

    def fill(f):
        if f in done:
            return
        for g, _ in f.imports:
            fill(g)
        done.append(f)
        L = f.lines
        L.append('syntax = "proto2";')
        if f.pkg:
            L.append("package %s;" % f.pkg)
        for g, pub in f.imports:
            L.append('import %s"%s";' % ("public " if pub else "", g.path))
        nm = rng.range(1, 3)
        for k in range(nm):
            m = "M%d_%d" % (f.i, k)
            fq = q(f.pkg, m)
            f.names += [fq, fq + ".a", fq + ".In", fq + ".In.b", fq + ".K", fq + ".V%d_%d" % (f.i, k)]
            f.msgs.append(fq)
            L.append("message %s { extensions 1000 to max; optional int32 a = 1; message In { optional int32 b = 1; } "
                     "enum K { V%d_%d = 0; } }" % (m, f.i, k))
        # extensions of messages this file may see
        cand = []
        for g in visible(f):
            cand += g.msgs
        for k in range(rng.range(0, 3)):
            ext = rng.choice(cand)
            tag[0] += 1
            nested = rng.chance(1, 3)
            if nested:
                holder = "H%d_%d" % (f.i, k)
                hq = q(f.pkg, holder)
                f.names += [hq, hq + ".x%d" % k]
                L.append("message %s { extend .%s { optional int32 x%d = %d; } }" % (holder, ext, k, tag[0]))
                f.exts.append((ext, tag[0], hq + ".x%d" % k))
            else:
                xq = q(f.pkg, "e%d_%d" % (f.i, k))
                f.names.append(xq)
                L.append("extend .%s { optional int32 e%d_%d = %d; }" % (ext, f.i, k, tag[0]))
                f.exts.append((ext, tag[0], xq))
        if rng.chance(1, 3):
            s = q(f.pkg, "S%d" % f.i)
            f.names += [s, s + ".call"]
            L.append("service S%d { rpc call(.%s) returns (.%s); }" % (f.i, f.msgs[0], f.msgs[0]))
    for f in files:
        fill(f)
    return files


def corpus(rng):
    out = []
    # deep public chain: 0 -> 1 (plain) -> 2 -> 3 -> 4 -> 5 (public), 5 -> 6 (plain)
    out.append(build(rng, 7, [(0, 1, False), (1, 2, True), (2, 3, True), (3, 4, True), (4, 5, True), (5, 6, False)]))
    # diamond through public imports, private tail behind it
    out.append(build(rng, 6, [(0, 1, False), (0, 2, True), (1, 3, True), (2, 3, True), (3, 4, True), (3, 5, False), (1, 5, False)]))
    # the same file imported both publicly and not, behind a non-public import
    out.append(build(rng, 5, [(0, 1, False), (1, 2, False), (1, 3, True), (3, 2, True), (2, 4, False), (0, 4, True)]))
    # only non-public imports: nothing beyond the direct imports is visible
    out.append(build(rng, 4, [(0, 1, False), (1, 2, False), (2, 3, False)]))
    # only public imports: everything is visible
    out.append(build(rng, 4, [(0, 1, True), (1, 2, True), (2, 3, True)]))
    # first import leads nowhere, second one holds the element (loop goes on after NotFound)
    out.append(build(rng, 5, [(0, 1, False), (0, 2, False), (0, 3, True), (3, 4, True), (1, 4, False)]))
    return out


def gen_graph(rng):
    n = rng.range(2, 8)
    edges = []
    dens = rng.range(2, 6)
    for i in range(n):
        for j in range(i + 1, n):
            if rng.below(10) < dens:
                edges.append((i, j, rng.chance(1, 2)))
    # shuffle so that import order in a file is not always ascending
    edges = rng.shuffle(edges)
    return build(rng, n, edges)


HEADER = ("From Coq Require Import List NArith ZArith Bool.\nImport ListNotations.\n"
          "From PV Require Import Common.Corr Model.Visibility.\nOpen Scope N_scope.\n")


def coq_eval_vis(name, groups, per_shard, timeout=1500):
    """groups: list of (graph term, [(root id, [query/observation terms])]).  Returns {(group, root index): [indices]}."""
    os.makedirs(os.path.join(COQ, "cases"), exist_ok=True)
    shards, cur, n = [], [], 0
    for gi, (g, roots) in enumerate(groups):
        cur.append(gi)
        n += sum(len(t) for _, t in roots)
        if n >= per_shard:
            shards.append(cur)
            cur, n = [], 0
    if cur:
        shards.append(cur)
    procs = []
    for k, gis in enumerate(shards):
        fn = os.path.join(COQ, "cases", "%s_%d.v" % (name, k))
        with open(fn, "w") as f:
            f.write(HEADER)
            for gi in gis:
                g, roots = groups[gi]
                f.write("Definition G%d : graph := %s.\n" % (gi, g))
                f.write("Definition K%d := Eval vm_compute in graph_ok G%d.\nPrint K%d.\n" % (gi, gi, gi))
                for ri, (root, terms) in enumerate(roots):
                    f.write("Definition M%d_%d := Eval vm_compute in mismatches (qchk G%d %d) [\n%s\n].\nPrint M%d_%d.\n"
                            % (gi, ri, gi, root, ";\n".join(terms), gi, ri))
        procs.append((fn, gis))
    res, err = {}, None
    running, idx = [], 0

    def reap(p, fn, gis):
        nonlocal err
        out, _ = p.communicate()
        if p.returncode != 0:
            err = (err or "") + "coqc failed on %s:\n%s\n" % (fn, out[-2000:])
            return
        flat = " ".join(out.split())
        for gi in gis:
            k = re.search(r"\bK%d = (true|false) : bool" % gi, flat)
            if not k or k.group(1) != "true":
                err = (err or "") + "graph %d is not graph_ok (generator error)\n" % gi
            for ri in range(len(groups[gi][1])):
                m = re.search(r"\bM%d_%d = (.*?) : list nat" % (gi, ri), flat)
                if not m:
                    err = (err or "") + "cannot parse coqc output for M%d_%d in %s\n" % (gi, ri, fn)
                    continue
                res[(gi, ri)] = [int(d) for d in re.findall(r"\d+", m.group(1))]
        for ext in (".v", ".vo", ".vok", ".vos", ".glob"):
            try:
                os.remove(fn[:-2] + ext)
            except OSError:
                pass
        try:
            os.remove(os.path.join(os.path.dirname(fn), "." + os.path.basename(fn)[:-2] + ".aux"))
        except OSError:
            pass
    while idx < len(procs) or running:
        while idx < len(procs) and len(running) < NCPU:
            fn, gis = procs[idx]
            p = subprocess.Popen(["timeout", str(timeout), "coqc", "-Q", COQ, "PV", fn],
                                 stdout=subprocess.PIPE, stderr=subprocess.STDOUT, text=True, cwd=COQ)
            running.append((p, fn, gis))
            idx += 1
        p, fn, gis = running.pop(0)
        reap(p, fn, gis)
    return res, err


def run(ctx):
    rng = ctx.rng
    graphs = corpus(rng)
    for _ in range(ctx.budget(90, 3000)):
        graphs.append(gen_graph(rng))
    ins = []
    metas = []
    for files in graphs:
        names = []
        for f in files:
            names += f.names
        names += ["zz.Nothing", files[0].names[0] + "x"]
        exts = []
        for f in files:
            exts += [(e, t) for e, t, _ in f.exts]
        if exts:
            exts.append((exts[0][0], 999999))
        exts.append(("zz.Nothing", 1001))
        paths = [f.path for f in files] + ["nowhere.proto"]
        order = [f.path for f in rng.shuffle(files)]
        ins.append({"files": {f.path: "\n".join(f.lines) + "\n" for f in files}, "order": order,
                    "names": names, "exts": [[e, t] for e, t in exts], "paths": paths})
        metas.append((names, exts, paths))
    outs = ctx.impl("visibility", ins)
    groups, gmeta = [], []
    for files, i, (names, exts, paths), o in zip(graphs, ins, metas, outs):
        shape = {"files": i["files"]}
        if "res" not in o:
            ctx.corr_break("visibility:harness", shape, o)
            if "panic" in o:
                ctx.violation("panic", "resolver or compiler panicked on a generated import graph", {"files": i["files"], "observed": o})
            continue
        by_path = {f.path: f for f in files}
        owner_n = {}
        for f in files:
            for n in f.names:
                owner_n[n] = f
        owner_x = {}
        for f in files:
            for e, t, x in f.exts:
                owner_x[(e, t)] = (f, x)
        nid = {n: k for k, n in enumerate(names)}          # element ids for the model
        for f in files:
            for e, t, x in f.exts:
                nid.setdefault(e, len(nid))
        nid.setdefault("zz.Nothing", len(nid))
        g_term = "[%s]" % "; ".join(
            "mkV %d [%s] [%s] [%s]" % (f.i, "; ".join("(%d, %s)" % (g.i, coq_bool(pub)) for g, pub in f.imports),
                                      "; ".join(str(nid[n]) for n in f.names),
                                      "; ".join("(%d, %d%%Z, %d)" % (nid[e], t, nid[x]) for e, t, x in f.exts))
            for f in files)
        roots = []
        rmeta = []
        for f in files:
            vis = visible(f)
            r = o["res"][f.path]
            terms, tm = [], []

            def one(kind, key, got, owner, elem, qterm, elem_id):
                ctx.count((tuple(sorted(i["files"].items())), f.path, kind, key), True,
                          "%s:%s" % (kind, "visible" if owner in vis else ("hidden" if owner is not None else "absent")))
                replay = {"files": i["files"], "resolver_of": f.path, "query": [kind, key], "answer": got,
                          "defined_in": owner.path if owner else None,
                          "visible_files": sorted(g.path for g in vis)}
                if got.startswith("ERR:"):
                    ctx.corr_break("visibility:" + kind, replay, {"observed": got})
                    ctx.violation("lookup-error", "a lookup failed with an error other than NotFound", replay)
                    return
                want = (owner.path + "|" + elem) if (owner is not None and owner in vis) else ""
                if got != want:
                    if want == "":
                        ctx.violation("hidden-element-found", "the resolver found an element that is not defined in the visible set "
                                      "(file itself, direct imports, public closure of those)", replay)
                    elif got == "":
                        ctx.violation("visible-element-not-found", "the resolver did not find an element defined in the visible set", replay)
                    else:
                        ctx.violation("wrong-element-found", "the resolver answered with another element or file", replay)
                if got == "":
                    ob = "ONotFound"
                else:
                    gp, ge = got.split("|", 1)
                    if gp not in by_path or (kind != "path" and ge not in nid):
                        ctx.corr_break("visibility:" + kind, replay, {"observed": got})
                        return
                    ob = "OFound %d %d" % (by_path[gp].i, by_path[ge].i if kind == "path" else nid[ge])
                terms.append("(%s, %s)" % (qterm, ob))
                tm.append(replay)
            for n, got in zip(names, r["n"]):
                one("name", n, got, owner_n.get(n), n, "QName %d" % nid[n], nid[n])
            for (e, t), got in zip(exts, r["x"]):
                ow = owner_x.get((e, t))
                one("ext", "%s/%d" % (e, t), got, ow[0] if ow else None, ow[1] if ow else "", "QExt %d %d%%Z" % (nid[e], t), None)
            for p, got in zip(paths, r["p"]):
                ow = by_path.get(p)
                one("path", p, got, ow, p, "QPath %d" % (ow.i if ow else 999), None)
            roots.append((f.i, terms))
            rmeta.append(tm)
        groups.append((g_term, roots))
        gmeta.append(rmeta)
    ctx.sample({"files": ins[0]["files"]})
    ctx.sample({"files": ins[-1]["files"]})
    res, err = coq_eval_vis("cases_C18", groups, per_shard=ctx.budget(4000, 12000))
    if err:
        raise RuntimeError(err)
    for (gi, ri), mm in sorted(res.items()):
        for k in mm:
            rp = gmeta[gi][ri][k]
            ctx.corr_break("visibility:" + rp["query"][0], rp, {"observed": rp["answer"]})
    ctx.rule = ("import graphs: %d hand-picked (deep public chain, diamond, file imported both ways, all non-public, all public, "
                "NotFound before the hit) + random acyclic graphs of 2-8 files with density 0.2-0.6 and a fair coin per edge for public; "
                "every file declares 1-3 messages (field, nested message, nested enum with value), 0-3 extensions (top-level or nested in a "
                "message) of messages it can see, sometimes a service; for every file as resolver root: every declared full name of the "
                "whole graph + 2 absent names, every (extendee, tag) + 2 absent, every path + 1 absent; "
                "distinct = distinct (graph text, root, query)" % len(corpus(Rng(0))))
