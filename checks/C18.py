"""C18 - Resolvers expose exactly the visible elements."""
import os, re, subprocess, hashlib
from vlib import *

ID = "C18"
COQ_FILES = ["Common/Corr.v", "Model/Visibility.v", "Proofs/Visibility.v", "Props/C18.v"]
PROPS = "Props/C18.v"
THEOREMS = ["C18_find_iff_visible", "C18_find_sound", "C18_find_total", "C18_resolveInFile_terminates",
            "C18_weak_flag_irrelevant", "C18_pub_closure_is_rt_closure"]
AXIOMS_OK = []
TRUSTED = ["hand-written Gallina mirror of linker/resolve.go resolveInFile (publicImportsOnly, checked path list) and of the "
           "lookup functions of linker/files.go fileResolver (by name, by extendee and tag, by path)",
           "correspondence harness (harness/cmd/visibility): linker.ResolverFromFile on every file of a compiled graph; "
           "graph generator, renderer and the visible-set oracle in checks/C18.py"]
ASSUMPTIONS = ["files are identified by path; a compile gives every file its imports (graph_ok: unique paths, imports present); "
               "cycles cannot be compiled, so the correspondence uses acyclic graphs while the theorems also cover cyclic ones",
               "findExtension's walk over nested messages is flattened to a list of (extendee, tag, extension) per file",
               "FindMessageByName / FindExtensionByName / FindMessageByURL use the same traversal with a lookup that can also fail with a kind error; "
               "not modelled in Coq, observed and judged by the plugin's visible-set oracle only",
               "an import carries IsPublic and IsWeak (both can be set only through a descriptor proto); the model keeps the weak imports of a file as a list of paths (vf_weak) that the walk never reads"]


def q(parent, n):
    return n if parent == "" else parent + "." + n


PKGS = ["", "p", "p.q", "r", "p.q.s"]


class File:
    def __init__(self, i, pkg):
        self.i = i
        self.path = "g%d.proto" % i
        self.pkg = pkg
        self.imports = []        # (File, kind) with kind in KINDS
        self.kind = {}           # full name -> "message" | "extension" | "other"
        self.lines = []
        self.names = []          # every full name the file declares
        self.exts = []           # (extendee full name, tag, extension full name)
        self.msgs = []           # extendable messages (full names)


KINDS = ["plain", "public", "weak", "public+weak"]     # import modifiers; the last one only through a descriptor proto


def is_pub(kind):
    return kind.startswith("public")


def is_weak(kind):
    return kind.endswith("weak")


def kind_of(x):
    """edges of the hand-written graphs may still say True / False for public / plain"""
    return x if isinstance(x, str) else ("public" if x else "plain")


def visible(f):
    """the definition: the file, its direct imports (whatever their modifier), the public closure of the direct imports"""
    out = [f]
    todo = [g for g, _ in f.imports]
    while todo:
        g = todo.pop()
        if g in out:
            continue
        out.append(g)
        todo += [h for h, k in g.imports if is_pub(k)]
    return out


def reached(f):
    """for the evidence histogram: visible file -> (depth of the walk, modifier of the last import followed) on a shortest way"""
    out = {f: (0, "self")}
    level = [(g, k) for g, k in f.imports]
    d = 1
    while level:
        nxt = []
        for g, k in level:
            if g in out:
                continue
            out[g] = (d, k)
            nxt += [(h, k2) for h, k2 in g.imports if is_pub(k2)]
        level = nxt
        d += 1
    return out


def build(rng, n, edges, sizes=None):
    """edges: list of (i, j, public) with i importing j; files are declared in a shuffled order of ids."""
    files = [File(i, rng.choice(PKGS)) for i in range(n)]
    for i, j, kind in edges:
        files[i].imports.append((files[j], kind_of(kind)))
    tag = [1000]
    used = set()
    # elements, in dependency order (imports first) so that extendees exist
    done = []

    def fill(f):
        if f in done:
            return
        for g, _ in f.imports:
            fill(g)
        done.append(f)
        L = f.lines
        L.append('syntax = "proto2";')
        if f.pkg:
            L.append("package %s;" % f.pkg)
        for g, kind in f.imports:
            # public+weak cannot be written in source: the text says public, the harness adds the weak flag (also_weak)
            L.append('import %s"%s";' % ("public " if is_pub(kind) else ("weak " if is_weak(kind) else ""), g.path))
        nm = rng.range(1, 3)
        for k in range(nm):
            m = "M%d_%d" % (f.i, k)
            fq = q(f.pkg, m)
            f.names += [fq, fq + ".a", fq + ".In", fq + ".In.b", fq + ".K", fq + ".V%d_%d" % (f.i, k)]
            f.kind[fq] = f.kind[fq + ".In"] = "message"
            f.msgs.append(fq)
            L.append("message %s { extensions 1000 to max; optional int32 a = 1; message In { optional int32 b = 1; } "
                     "enum K { V%d_%d = 0; } }" % (m, f.i, k))
        # extensions of messages this file may see
        cand = []
        for g in visible(f):
            cand += g.msgs
        for k in range(rng.range(0, 3)):
            ext = rng.choice(cand)
            tag[0] += 1
            nested = rng.chance(1, 3)
            if nested:
                holder = "H%d_%d" % (f.i, k)
                hq = q(f.pkg, holder)
                f.names += [hq, hq + ".x%d" % k]
                f.kind[hq] = "message"
                f.kind[hq + ".x%d" % k] = "extension"
                L.append("message %s { extend .%s { optional int32 x%d = %d; } }" % (holder, ext, k, tag[0]))
                f.exts.append((ext, tag[0], hq + ".x%d" % k))
            else:
                xq = q(f.pkg, "e%d_%d" % (f.i, k))
                f.names.append(xq)
                f.kind[xq] = "extension"
                L.append("extend .%s { optional int32 e%d_%d = %d; }" % (ext, f.i, k, tag[0]))
                f.exts.append((ext, tag[0], xq))
        if rng.chance(1, 3):
            s = q(f.pkg, "S%d" % f.i)
            f.names += [s, s + ".call"]
            L.append("service S%d { rpc call(.%s) returns (.%s); }" % (f.i, f.msgs[0], f.msgs[0]))
    for f in files:
        fill(f)
    return files


def corpus(rng):
    out = []
    # deep public chain: 0 -> 1 (plain) -> 2 -> 3 -> 4 -> 5 (public), 5 -> 6 (plain)
    out.append(build(rng, 7, [(0, 1, False), (1, 2, True), (2, 3, True), (3, 4, True), (4, 5, True), (5, 6, False)]))
    # diamond through public imports, private tail behind it
    out.append(build(rng, 6, [(0, 1, False), (0, 2, True), (1, 3, True), (2, 3, True), (3, 4, True), (3, 5, False), (1, 5, False)]))
    # the same file imported both publicly and not, behind a non-public import
    out.append(build(rng, 5, [(0, 1, False), (1, 2, False), (1, 3, True), (3, 2, True), (2, 4, False), (0, 4, True)]))
    # only non-public imports: nothing beyond the direct imports is visible
    out.append(build(rng, 4, [(0, 1, False), (1, 2, False), (2, 3, False)]))
    # only public imports: everything is visible
    out.append(build(rng, 4, [(0, 1, True), (1, 2, True), (2, 3, True)]))
    # first import leads nowhere, second one holds the element (loop goes on after NotFound)
    out.append(build(rng, 5, [(0, 1, False), (0, 2, False), (0, 3, True), (3, 4, True), (1, 4, False)]))
    # a direct weak import is a direct import: 1 and what 1 re-exports (2, 3) are visible from 0, 4 is not
    out.append(build(rng, 5, [(0, 1, "weak"), (1, 2, "public"), (2, 3, "public"), (2, 4, "weak")]))
    # only weak imports; a weak import of an indirectly visited file is not followed (it is not public)
    out.append(build(rng, 4, [(0, 1, "weak"), (0, 2, "weak"), (1, 3, "weak")]))
    # every modifier as the direct import of one root, each with a public, a plain and a weak import behind it
    out.append(build(rng, 8, [(0, 1, "plain"), (0, 2, "public"), (0, 3, "weak"), (1, 4, "public"), (2, 5, "weak"), (3, 6, "public"),
                              (3, 7, "plain"), (1, 7, "weak")]))
    # weak import behind a public chain at depth 2 and 3; the same file reached weakly and publicly
    out.append(build(rng, 6, [(0, 1, "plain"), (1, 2, "public"), (2, 3, "weak"), (2, 4, "public"), (4, 5, "weak"), (0, 5, "weak"), (4, 3, "public")]))
    # descriptor-proto input: imports that are public AND weak are public (root, depth 1 and depth 2), next to plain weak ones
    out.append(build(rng, 6, [(0, 1, "public+weak"), (1, 2, "public+weak"), (2, 3, "public+weak"), (3, 4, "weak"), (0, 5, "weak")]))
    out.append(build(rng, 5, [(0, 1, "weak"), (1, 2, "public+weak"), (2, 3, "public"), (3, 4, "public+weak")]))
    return out


def gen_graph(rng):
    n = rng.range(2, 8)
    edges = []
    # one graph in four goes through descriptor protos, where public+weak imports exist as well
    mods = ["plain"] * 3 + ["public"] * 3 + ["weak"] * 2
    if rng.chance(1, 4):
        mods = mods + ["public+weak"] * 2
    dens = rng.range(2, 6)
    for i in range(n):
        for j in range(i + 1, n):
            if rng.below(10) < dens:
                edges.append((i, j, rng.choice(mods)))
    # shuffle so that import order in a file is not always ascending
    edges = rng.shuffle(edges)
    files = build(rng, n, edges)
    if "public+weak" in mods:
        files[0].via_proto = True
    return files


HEADER = ("From Coq Require Import List NArith ZArith Bool.\nImport ListNotations.\n"
          "From PV Require Import Common.Corr Model.Visibility.\nOpen Scope N_scope.\n")


def coq_eval_vis(name, groups, per_shard, timeout=1500):
    """groups: list of (graph term, [(root id, [query/observation terms])]).  Returns {(group, root index): [indices]}."""
    os.makedirs(os.path.join(COQ, "cases"), exist_ok=True)
    shards, cur, n = [], [], 0
    for gi, (g, roots) in enumerate(groups):
        cur.append(gi)
        n += sum(len(t) for _, t in roots)
        if n >= per_shard:
            shards.append(cur)
            cur, n = [], 0
    if cur:
        shards.append(cur)
    procs = []
    for k, gis in enumerate(shards):
        fn = os.path.join(COQ, "cases", "%s_%d.v" % (name, k))
        with open(fn, "w") as f:
            f.write(HEADER)
            for gi in gis:
                g, roots = groups[gi]
                f.write("Definition G%d : graph := %s.\n" % (gi, g))
                f.write("Definition K%d := Eval vm_compute in graph_ok G%d.\nPrint K%d.\n" % (gi, gi, gi))
                for ri, (root, terms) in enumerate(roots):
                    f.write("Definition M%d_%d := Eval vm_compute in mismatches (qchk G%d %d) [\n%s\n].\nPrint M%d_%d.\n"
                            % (gi, ri, gi, root, ";\n".join(terms), gi, ri))
        procs.append((fn, gis))
    res, err = {}, None
    running, idx = [], 0

    def reap(p, fn, gis):
        nonlocal err
        out, _ = p.communicate()
        if p.returncode != 0:
            err = (err or "") + "coqc failed on %s:\n%s\n" % (fn, out[-2000:])
            return
        flat = " ".join(out.split())
        for gi in gis:
            k = re.search(r"\bK%d = (true|false) : bool" % gi, flat)
            if not k or k.group(1) != "true":
                err = (err or "") + "graph %d is not graph_ok (generator error)\n" % gi
            for ri in range(len(groups[gi][1])):
                m = re.search(r"\bM%d_%d = (.*?) : list nat" % (gi, ri), flat)
                if not m:
                    err = (err or "") + "cannot parse coqc output for M%d_%d in %s\n" % (gi, ri, fn)
                    continue
                res[(gi, ri)] = [int(d) for d in re.findall(r"\d+", m.group(1))]
        for ext in (".v", ".vo", ".vok", ".vos", ".glob"):
            try:
                os.remove(fn[:-2] + ext)
            except OSError:
                pass
        try:
            os.remove(os.path.join(os.path.dirname(fn), "." + os.path.basename(fn)[:-2] + ".aux"))
        except OSError:
            pass
    while idx < len(procs) or running:
        while idx < len(procs) and len(running) < NCPU:
            fn, gis = procs[idx]
            p = subprocess.Popen(["timeout", str(timeout), "coqc", "-Q", COQ, "PV", fn],
                                 stdout=subprocess.PIPE, stderr=subprocess.STDOUT, text=True, cwd=COQ)
            running.append((p, fn, gis))
            idx += 1
        p, fn, gis = running.pop(0)
        reap(p, fn, gis)
    return res, err


def run(ctx):
    rng = ctx.rng
    graphs = corpus(rng)
    for _ in range(ctx.budget(84, 3000)):
        graphs.append(gen_graph(rng))
    ins = []
    metas = []
    for files in graphs:
        names = []
        for f in files:
            names += f.names
        names += ["zz.Nothing", files[0].names[0] + "x"]
        exts = []
        for f in files:
            exts += [(e, t) for e, t, _ in f.exts]
        if exts:
            exts.append((exts[0][0], 999999))
        exts.append(("zz.Nothing", 1001))
        paths = [f.path for f in files] + ["nowhere.proto"]
        order = [f.path for f in rng.shuffle(files)]
        one_in = {"files": {f.path: "\n".join(f.lines) + "\n" for f in files}, "order": order,
                  "names": names, "exts": [[e, t] for e, t in exts], "paths": paths}
        aw = {f.path: [g.path for g, k in f.imports if k == "public+weak"] for f in files}
        if any(aw.values()) or getattr(files[0], "via_proto", False):
            one_in["also_weak"] = {p_: l for p_, l in aw.items() if l}
        ins.append(one_in)
        metas.append((names, exts, paths))
    outs = ctx.impl("visibility", ins)
    groups, gmeta = [], []
    for files, i, (names, exts, paths), o in zip(graphs, ins, metas, outs):
        shape = {"files": i["files"]}
        if "also_weak" in i:
            shape["also_weak"] = i["also_weak"]
        if "res" not in o:
            ctx.corr_break("visibility:harness", shape, o)
            if "panic" in o:
                ctx.violation("panic", "resolver or compiler panicked on a generated import graph", dict(shape, observed=o))
            continue
        gkey = hashlib.sha1(repr((sorted(i["files"].items()), sorted(i.get("also_weak", {}).items()))).encode()).hexdigest()
        by_path = {f.path: f for f in files}
        owner_n = {}
        for f in files:
            for n in f.names:
                owner_n[n] = f
        owner_x = {}
        for f in files:
            for e, t, x in f.exts:
                owner_x[(e, t)] = (f, x)
        nid = {n: k for k, n in enumerate(names)}          # element ids for the model
        for f in files:
            for e, t, x in f.exts:
                nid.setdefault(e, len(nid))
        nid.setdefault("zz.Nothing", len(nid))
        g_term = "[%s]" % "; ".join(
            "mkV %d [%s] [%s] [%s] [%s]" % (f.i, "; ".join("(%d, %s)" % (g.i, coq_bool(is_pub(k))) for g, k in f.imports),
                                      "; ".join(str(nid[n]) for n in f.names),
                                      "; ".join("(%d, %d%%Z, %d)" % (nid[e], t, nid[x]) for e, t, x in f.exts),
                                           "; ".join(str(g.i) for g, k in f.imports if is_weak(k)))
            for f in files)
        roots = []
        rmeta = []
        for f in files:
            vis = visible(f)
            how = reached(f)
            base = dict(shape, resolver_of=f.path, visible_files=sorted(g.path for g in vis),
                        imports={g.path: ["%s %s" % (k, h.path) for h, k in g.imports] for g in files if g.imports})
            r = o["res"][f.path]
            terms, tm = [], []

            def one(kind, key, got, owner, elem, qterm, elem_id):
                ctx.count((gkey, f.path, kind, key), True,
                          "%s:%s" % (kind, ("visible:depth%d:%s" % how[owner]) if owner in vis else ("hidden" if owner is not None else "absent")))
                replay = dict(base, query=[kind, key], answer=got, defined_in=owner.path if owner else None)
                want = (owner.path + "|" + elem) if (owner is not None and owner in vis) else ""
                if elem_id == "typed":
                    # FindMessageByName / FindMessageByURL / FindExtensionByName: the same walk, but the first visible file that
                    # declares the name answers with a kind error when the element is of another kind (not modelled in Coq)
                    right = owner is not None and owner.kind.get(elem, "other") == qterm
                    if want != "" and not right:
                        if not got.startswith("ERR:"):
                            ctx.violation("wrong-element-found", "a typed lookup answered although the visible element is of another kind", replay)
                        return
                if got.startswith("ERR:"):
                    if elem_id != "typed":
                        ctx.corr_break("visibility:" + kind, replay, {"observed": got})
                    ctx.violation("lookup-error", "a lookup failed with an error other than NotFound", replay)
                    return
                if got != want:
                    if want == "":
                        ctx.violation("hidden-element-found", "the resolver found an element that is not defined in the visible set "
                                      "(file itself, direct imports, public closure of those)", replay)
                    elif got == "":
                        ctx.violation("visible-element-not-found", "the resolver did not find an element defined in the visible set", replay)
                    else:
                        ctx.violation("wrong-element-found", "the resolver answered with another element or file", replay)
                if elem_id == "typed":
                    return
                if got == "":
                    ob = "ONotFound"
                else:
                    gp, ge = got.split("|", 1)
                    if gp not in by_path or (kind != "path" and ge not in nid):
                        ctx.corr_break("visibility:" + kind, replay, {"observed": got})
                        return
                    ob = "OFound %d %d" % (by_path[gp].i, by_path[ge].i if kind == "path" else nid[ge])
                terms.append("(%s, %s)" % (qterm, ob))
                tm.append(replay)
            for n, got in zip(names, r["n"]):
                one("name", n, got, owner_n.get(n), n, "QName %d" % nid[n], nid[n])
            for n, gm, gu, ge_ in zip(names, r["m"], r["u"], r["e"]):
                one("msgname", n, gm, owner_n.get(n), n, "message", "typed")
                one("msgurl", n, gu, owner_n.get(n), n, "message", "typed")
                one("extname", n, ge_, owner_n.get(n), n, "extension", "typed")
            for (e, t), got in zip(exts, r["x"]):
                ow = owner_x.get((e, t))
                one("ext", "%s/%d" % (e, t), got, ow[0] if ow else None, ow[1] if ow else "", "QExt %d %d%%Z" % (nid[e], t), None)
            for p, got in zip(paths, r["p"]):
                ow = by_path.get(p)
                one("path", p, got, ow, p, "QPath %d" % (ow.i if ow else 999), None)
            roots.append((f.i, terms))
            rmeta.append(tm)
        groups.append((g_term, roots))
        gmeta.append(rmeta)
    ctx.sample({"files": ins[0]["files"]})
    ctx.sample({"files": ins[-1]["files"]})
    res, err = coq_eval_vis("cases_C18", groups, per_shard=ctx.budget(4000, 12000))
    if err:
        raise RuntimeError(err)
    for (gi, ri), mm in sorted(res.items()):
        for k in mm:
            rp = gmeta[gi][ri][k]
            ctx.corr_break("visibility:" + rp["query"][0], rp, {"observed": rp["answer"]})
    ctx.rule = ("import graphs: %d hand-picked (deep public chain, diamond, file imported both ways, all non-public, all public, "
                "NotFound before the hit, direct weak import with re-exports behind it, only weak imports, every modifier as direct import "
                "with every modifier behind it, weak behind public chains, public+weak through descriptor protos) + random acyclic graphs of "
                "2-8 files with density 0.2-0.6 and a modifier per edge (plain 3 : public 3 : weak 2; one graph in four is handed to the "
                "compiler as descriptor protos, there also public+weak 2); "
                "every file declares 1-3 messages (field, nested message, nested enum with value), 0-3 extensions (top-level or nested in a "
                "message) of messages it can see, sometimes a service; for every file as resolver root: every declared full name of the "
                "whole graph + 2 absent names (FindDescriptorByName, and FindMessageByName / FindMessageByURL / FindExtensionByName judged by "
                "the visible-set oracle only), every (extendee, tag) + 2 absent, every path + 1 absent; histogram classes = kind of lookup x "
                "(depth of the walk and modifier of the last import followed | hidden | absent); "
                "distinct = distinct (graph text, root, query)" % len(corpus(Rng(0))))
