"""C11 - AST reproduces the source exactly."""
from lexlib import *

ID = "C11"
COQ_FILES = COQ_LEX + ["Props/C11.v"]
PROPS = "Props/C11.v"
THEOREMS = ["C11_lex_tiles", "C11_tiles_rebuild", "C11_bom_only_exception", "C11_lex_rebuilds_source"]
AXIOMS_OK = []
TRUSTED = TRUSTED_LEX
ASSUMPTIONS = ["P-core: tiling of the input by the lexer's items is proved; that the AST built by the goyacc actions holds every token "
               "exactly once, in order, and that NodeInfo's LeadingWhitespace/RawText/comment accessors return those pieces, is "
               "exercised by the suite's own printAST walk on every accepted input (direct oracle), not modelled"]

WS = [b" ", b"  ", b"\t", b"\n", b"\r\n", b"\x0c", b"\x0b", b"\n\n", b""]
COMMENTS = [b"// c\n", b"/* b */", b"/** d\n * e\n */", b"//\n", b"/**/", b"// \xc3\xa9 \xe2\x82\xac\n", b"/* \xf0\x9f\x98\x80 */"]
TOKENS = [b"syntax", b"=", b"\"proto3\"", b";", b"package", b"a.b", b"import", b"\"x.proto\"", b"message", b"M", b"{", b"}", b"int32", b"f", b"1",
          b"0x1F", b"077", b"1.5e3", b".5", b"[", b"]", b"default", b"'a\\n\\x41\\101\\u00e9'", b"\"s\" 'concat'", b"option", b"(", b")", b"true", b"-", b"inf",
          b"repeated", b"enum", b"E", b"A", b"0", b"oneof", b"o", b"map", b"<", b">", b",", b"string", b"service", b"S", b"rpc", b"returns", b"stream", b"extensions",
          b"to", b"max", b"reserved", b"extend", b"optional", b"group", b"G"]

def with_empty_statements(rng, toks, only):
    """inserts extra `;` (empty statements) after `{`, `;` and `}`; with only=True every declaration of some bodies is
    replaced by empty statements (a body that consists solely of empty statements)"""
    out = []
    depth = 0
    i = 0
    n = len(toks)
    while i < n:
        t = toks[i]
        out.append(t)
        if t == b"{":
            depth += 1
            if only and depth >= 1 and rng.chance(1, 2) and b"{" not in toks[i + 1:toks.index(b"}", i)] and toks[i - 1] not in (b"=",):
                # drop the body's declarations, keep one to three empty statements
                j = toks.index(b"}", i)
                out += [b";"] * rng.range(1, 3)
                i = j
                continue
        if t == b"}":
            depth -= 1
        if t in (b"{", b";", b"}") and rng.chance(1, 4):
            out += [b";"] * rng.range(1, 2)
        i += 1
    return out


def render(rng, toks, adversarial):
    if rng.chance(1, 3):
        toks = with_empty_statements(rng, list(toks), rng.chance(1, 2))
    out = [rng.choice([b"", b"", b"\xef\xbb\xbf"]) if adversarial else b""]
    for t in toks:
        k = rng.range(0, 2) if adversarial else rng.choice([0, 0, 1])
        pre = b""
        for _ in range(k):
            pre += rng.choice(WS) + rng.choice(COMMENTS)
        pre += rng.choice(WS[:6]) if adversarial else b" "
        out.append(pre + t)
    out.append(rng.choice(WS) + (rng.choice(COMMENTS) if rng.chance(1, 2) else b"") + rng.choice([b"", b"\n", b" ", b"// eof"]))
    return b"".join(out)


KEYWORDS = [b"syntax", b"edition", b"import", b"weak", b"public", b"package", b"option", b"true", b"false", b"inf", b"nan", b"repeated", b"optional",
            b"required", b"double", b"float", b"int32", b"int64", b"uint32", b"uint64", b"sint32", b"sint64", b"fixed32", b"fixed64", b"sfixed32",
            b"sfixed64", b"bool", b"string", b"bytes", b"group", b"oneof", b"map", b"extensions", b"to", b"max", b"reserved", b"enum", b"message",
            b"extend", b"service", b"rpc", b"stream", b"returns", b"export", b"local", b"foo"]


def unique_render(toks, variant):
    """the tokens with a DIFFERENT piece of trivia in front of each one (numbered comments, alternating whitespace), so that any
    token the AST holds out of order, twice or not at all changes the printed text"""
    out = []
    for i, t in enumerate(toks):
        k = (i + variant) % 5
        pre = [b" ", b"/*%d*/" % i, b"\n", b"\t/*%d*/ " % i, b" /*%d*/\n" % i][k] if i or variant % 2 else b""
        out.append(pre + t)
    out.append([b"", b"\n", b" // e%d" % variant, b" /*z*/ "][variant % 4])
    return b"".join(out)


def grammar_cases(ctx):
    """small files that put every keyword as the first, a middle and the last component of a (dotted) identifier in every position of
    the grammar that takes one - the grammar has separate productions for identifiers that start with a keyword - plus every kind of
    declaration once; each token gets its own trivia (unique_render).  Most are only parsed (unresolvable names are fine)."""
    out = []

    def dotted(parts, lead=False):
        r = [b"."] if lead else []
        for i, x in enumerate(parts):
            if i:
                r.append(b".")
            r.append(x)
        return r

    H2, H3, HE = [b"syntax", b"=", b"\"proto2\"", b";"], [b"syntax", b"=", b"\"proto3\"", b";"], [b"edition", b"=", b"\"2023\"", b";"]
    v = 0
    for K in KEYWORDS:
        idents = [dotted([K, b"a", b"B"]), dotted([b"a", K, b"B"]), dotted([b"a", b"b", K]), dotted([K, b"a", b"B"], True), dotted([K]), dotted([K, K])]
        for idn in idents:
            shapes = [
                H3 + [b"message", b"M", b"{"] + idn + [b"f", b"=", b"1", b";", b"}"],
                H2 + [b"message", b"M", b"{", b"optional"] + idn + [b"f", b"=", b"1", b";", b"repeated"] + idn + [b"g", b"=", b"2", b";", b"}"],
                H3 + [b"message", b"M", b"{", b"map", b"<", b"string", b","] + idn + [b">", b"m", b"=", b"1", b";", b"oneof", b"o", b"{"] + idn + [b"x", b"=", b"2", b";", b"}", b"}"],
                H3 + [b"service", b"S", b"{", b"rpc", b"R", b"("] + idn + [b")", b"returns", b"(", b"stream"] + idn + [b")", b";", b"}"],
                H2 + [b"extend"] + idn + [b"{", b"optional", b"int32", b"e", b"=", b"100", b";", b"}"],
                H3 + [b"option", b"("] + idn + [b")", b"."] + idn[-1:] + [b"=", b"1", b";", b"message", b"M", b"{", b"int32", b"f", b"=", b"1", b"[", b"("] + idn + [b")", b"=", b"{"] + idn[-1:] + [b":"] + idn[-1:] + [b"}", b"]", b";", b"}"],
                HE + [b"message", b"M", b"{"] + idn + [b"f", b"=", b"1", b";", b"reserved"] + idn[-1:] + [b";", b"}"],
            ]
            if len(idn) <= 1 or idn[0] != b".":
                shapes.append(H3 + [b"package"] + idn + [b";", b"message"] + idn[-1:] + [b"{", b"int32"] + idn[-1:] + [b"=", b"1", b";", b"enum", b"E", b"{"] + idn[-1:] + [b"=", b"0", b";", b"}", b"}"])
            for sh in shapes:
                out.append(unique_render(sh, v))
                v += 1
    # every kind of declaration once (visibility modifiers, groups, extension ranges with options, reserved, aggregates, rpc bodies)
    decls = [
        HE + [b"export", b"message", b"A", b"{", b"local", b"enum", b"E", b"{", b"X", b"=", b"0", b";", b"}", b"export", b"message", b"B", b"{", b"}", b"}", b"local", b"enum", b"F", b"{", b"Y", b"=", b"0", b";", b"}"],
        H2 + [b"message", b"M", b"{", b"optional", b"group", b"G", b"=", b"1", b"[", b"deprecated", b"=", b"true", b"]", b"{", b"optional", b"int32", b"x", b"=", b"1", b";", b"}",
              b"extensions", b"10", b"to", b"20", b",", b"30", b"to", b"max", b"[", b"(", b"a", b")", b"=", b"1", b",", b"(", b"b", b")", b"=", b"\"s\"", b"]", b";",
              b"reserved", b"2", b",", b"3", b"to", b"5", b";", b"reserved", b"\"q\"", b",", b"'r'", b";", b"}"],
        H3 + [b"import", b"public", b"\"a.proto\"", b";", b"import", b"weak", b"\"b.proto\"", b";", b"import", b"\"c\"", b"'d.proto'", b";",
              b"option", b"(", b"o", b")", b"=", b"{", b"a", b":", b"1", b",", b"b", b"{", b"c", b":", b"[", b"1", b",", b"2", b"]", b"}", b";", b"[", b"x.y/z", b"]", b"<", b"d", b":", b"-", b"inf", b">", b"}", b";"],
        H3 + [b"service", b"S", b"{", b"option", b"deprecated", b"=", b"false", b";", b"rpc", b"R", b"(", b"stream", b".", b"a", b".", b"B", b")", b"returns", b"(", b"C", b")", b"{", b"option", b"(", b"x", b")", b".", b"y", b"=", b"-", b"1.5", b";", b";", b"}", b"}"],
        H2 + [b"message", b"M", b"{", b"oneof", b"o", b"{", b"option", b"(", b"oo", b")", b"=", b"1", b";", b"int32", b"a", b"=", b"1", b";", b"group", b"H", b"=", b"2", b"{", b"}", b"}", b"extend", b"M", b"{", b"repeated", b"group", b"X", b"=", b"100", b"{", b"}", b"}", b"}"],
        H3 + [b"enum", b"E", b"{", b"option", b"allow_alias", b"=", b"true", b";", b"A", b"=", b"0", b"[", b"(", b"v", b")", b"=", b"'x'", b"'y'", b"]", b";", b"B", b"=", b"-", b"1", b";", b"reserved", b"5", b"to", b"max", b",", b"-", b"3", b";", b"reserved", b"\"Z\"", b";", b"}"],
    ]
    for d in decls:
        for var in range(5):
            out.append(unique_render(d, v + var))
        v += 5
    return out


def run(ctx):
    import glob, os
    rng = ctx.rng
    ins = []
    for p in sorted(glob.glob(os.path.join(REPO, "internal", "testdata", "*.proto"))):
        ins.append(open(p, "rb").read())
    for _ in range(ctx.budget(1200, 30000)):
        ins.append(render(rng, rng.choice(TEMPLATES), rng.chance(2, 3)))
    ins += [b"message Foo { ; }", b"message Foo { ; ; /* c */ ; }", b"enum E { ; A = 0; }", b"service S { ; }", b"service S { rpc R(M) returns (M) { ; } }",
            b"message M { oneof o { int32 a = 1; ; } }", b"; ; message A {} ;", b"syntax = \"proto3\"; ; message A { ; int32 x = 1; ; }",
            b"", b"\xef\xbb\xbf", b"// only a comment", b"\n\n", b"/* c */", b"\xef\xbb\xbfsyntax = \"proto3\";", b"syntax=\"proto3\";message A{}"]
    ncore = len(ins)
    ins += grammar_cases(ctx)
    ctx.rule = ("the repository's testdata files + accepted programs rendered from %d token templates with random whitespace (space, tab, CR LF, FF, VT, "
                "blank lines), line / block / doc comments incl. multi-byte characters between any two tokens, optional BOM, missing final newline; "
                "small files with every keyword as first / middle / last component of a dotted identifier in every position of the grammar and "
                "every kind of declaration, each token with its own trivia; each is parsed, the suite's printAST walk is replayed and compared with the bytes; the lexer's item list is compared with the "
                "model; distinct = distinct text; non-trivial = accepted by the parser and longer than 10 bytes" % len(TEMPLATES))
    par = ctx.impl("lexer", [{"mode": "parse", "data": d.hex()} for d in ins])
    lex = ctx.impl("lexer", [{"mode": "lex", "data": d.hex()} for d in ins])
    terms, meta = [], []
    acc = 0
    for d, po, lo in zip(ins, par, lex):
        rep = {"data_hex": d.hex(), "data_text": d[:300].decode("latin1")}
        if "panic" in po or "crash" in po:
            ctx.count(d, False, "panic")
            ctx.notes.append("parser panicked on a generated input (judged by C12): %s" % rep["data_text"][:80])
            continue
        accepted = not po["err"]
        ctx.count(d, accepted and len(d) > 10, "accepted" if accepted else "rejected")
        if accepted:
            acc += 1
            want = d[3:] if d[:3] == b"\xef\xbb\xbf" else d
            got = bytes.fromhex(po.get("printed", ""))
            if got != want:
                k = next((i for i, (a, b) in enumerate(zip(got, want)) if a != b), min(len(got), len(want)))
                ctx.violation("ast-print-differs-from-source", "printing the AST's tokens with their comments and whitespace does not reproduce the source",
                              dict(rep, first_difference_at=k, printed_around=got[max(0, k - 20):k + 20].decode("latin1"),
                                   source_around=want[max(0, k - 20):k + 20].decode("latin1")))
        # the model is evaluated on a bounded sample in the quick tier (reading long byte lists dominates coqc's time);
        # every input still goes through the round-trip oracle above
        if "panic" not in lo and "crash" not in lo and len(d) <= ctx.budget(2500, 8000) and len(terms) < ctx.budget(350, 6000):
            terms.append(coq_lex_case(d, lo))
            meta.append((d, lo))
    ctx.extra["accepted_inputs"] = acc
    ctx.sample({"text": ins[20].decode("latin1")[:300]}); ctx.sample({"text": ins[ncore - 9].decode("latin1")[:300]}); ctx.sample({"text": ins[ncore + 7].decode("latin1")[:300]})
    ctx.extra["model_evaluated_cases"] = len(terms)
    mism, err = coq_eval_mismatches("cases_C11", HEADER, terms, "lex_chk", shard_size=25)
    if err:
        raise RuntimeError(err)
    for k in mism:
        d, lo = meta[k]
        ctx.corr_break("lexer items", {"data_hex": d.hex(), "data_text": d[:200].decode("latin1")}, {"observed": lo})
