"""C08 - generator of MIXED multi-file requests for the end-to-end part of the check.

One request mixes, in every order, files of these kinds:
  clean     compiles
  warn      compiles with a warning
  errp      an error reported by the parser stage (syntax error / basic validation)
  errl      an error reported by a later stage (unresolvable type, duplicate symbol, unknown option, JSON-name conflict)
  miss      imports a file that does not exist          -> the task fails, NOTHING is given to the reporter
  rferr     imports a file for which the resolver returns an error of its own      (same)
  rfpanic   imports a file on which the resolver panics  (same; the task error is a PanicError)
  reqnone   the requested name itself does not exist     (same)
  reqrferr  the resolver refuses the requested name itself
  reqrfpanic the resolver panics on the requested name itself
and optionally an OVERRIDDEN google/protobuf/descriptor.proto (valid, or broken in one of four ways) that is an
implicit dependency of every other file, an explicit import of some, and/or requested itself.

The plugin runs every such request with a reporter that accepts everything, one that aborts at the k-th error,
and one that behaves like the default reporter (returns the reported error itself); the oracle is the property's
own rules on (number of reporter calls, what the reporter returned, what Compile returned)."""

ROLES = ["clean", "warn", "errp", "errl", "miss", "rferr", "rfpanic", "reqnone", "reqrferr", "reqrfpanic"]
CONTENT_ROLES = ["clean", "warn", "errp", "errl", "miss", "rferr", "rfpanic"]
UNREPORTED = {"miss", "rferr", "rfpanic", "reqnone", "reqrferr", "reqrfpanic"}
REPORTING = {"errp", "errl"}

DESC_PATH = "google/protobuf/descriptor.proto"
_OPT_MSGS = ["FileOptions", "MessageOptions", "FieldOptions", "OneofOptions", "EnumOptions", "EnumValueOptions",
             "ServiceOptions", "MethodOptions", "ExtensionRangeOptions"]
DESC_VARIANTS = ["valid", "validate", "syntax", "link", "dup"]


def desc_text(variant):
    out = ['syntax = "proto2";', "package google.protobuf;", "message UninterpretedOption { optional string identifier_value = 3; }"]
    for m in _OPT_MSGS:
        out.append("message %s { repeated UninterpretedOption uninterpreted_option = 999; extensions 1000 to max; }" % m)
    if variant == "validate":
        out.append("message Broken { optional int32 x = 0; }")
    elif variant == "syntax":
        out.append("message Broken { optional int32 x = ; }")
    elif variant == "link":
        out.append("message Broken { optional NoSuchType x = 1; }")
    elif variant == "dup":
        out.append("message Broken { }\nmessage Broken { }")
    return "\n".join(out) + "\n"


def role_text(i, role, variant, imports, explicit_desc):
    """source text of content file i.  variant selects among the causes of one role."""
    p3 = variant % 2 == 0 and role != "warn"
    lbl = "" if p3 else "optional "
    out = ['syntax = "%s";' % ("proto3" if p3 else "proto2"), "package p%d;" % i]
    if explicit_desc:
        out.append('import "%s";' % DESC_PATH)
    for d in imports:
        out.append('import "f%d.proto";' % d)
    if role == "miss":
        out.append('import "f99.proto";')
    elif role in ("rferr", "rfpanic"):
        out.append('import "r%d.proto";' % i)
    for d in imports:
        out.append("message U%d_%d { %sp%d.M%d a = 1; }" % (i, d, lbl, d, d))
    out.append("message M%d { %sint32 a = 1; %sstring b = 2; }" % (i, lbl, lbl))
    n = "X%d" % i
    if role == "errp":
        out.append(["message %s { %sint32 a = ; }", "message %s { %sint32 a = 0; }"][variant // 2 % 2] % (n, lbl))
    elif role == "errl":
        k = variant // 2 % 4
        if k == 0:
            out.append("message %s { %sUndefined%d u = 1; }" % (n, lbl, i))
        elif k == 1:
            out.append("message %s { }\nmessage %s { }" % (n, n))
        elif k == 2:
            out.append("message %s { option (no_such_option_%d) = 1; }" % (n, i))
        else:
            out.append('message %s { %sint32 a = 1 [json_name="q"]; %sint32 b = 2 [json_name="q"]; }' % (n, lbl, lbl))
    elif role == "warn":
        out.append("message %s { optional int32 foo_bar = 1; optional int32 fooBar = 2; }" % n)
    return "\n".join(out) + "\n"


def build(roles, edges, desc, desc_explicit, desc_requested_at, variant, std):
    """roles: role per requested slot (slot i is file f<i>.proto, or a name without content);
    edges: set of (i, d): content file i imports content file d (i < d is not required, but no cycles are made here);
    desc: None or a DESC_VARIANTS member; desc_explicit: slots whose file imports descriptor.proto explicitly;
    desc_requested_at: None or the position in the request at which descriptor.proto is inserted."""
    files, rfail, req = {}, {}, []
    for i, role in enumerate(roles):
        if role in CONTENT_ROLES:
            name = "f%d.proto" % i
            imps = sorted(d for (a, d) in edges if a == i and roles[d] in CONTENT_ROLES)
            files[name] = role_text(i, role, variant + i, imps, desc is not None and i in desc_explicit)
            if role == "rferr":
                rfail["r%d.proto" % i] = "error"
            elif role == "rfpanic":
                rfail["r%d.proto" % i] = "panic"
        elif role == "reqnone":
            name = "nofile%d.proto" % i
        else:
            name = "q%d.proto" % i
            rfail[name] = "error" if role == "reqrferr" else "panic"
        req.append(name)
    if desc is not None:
        files[DESC_PATH] = desc_text(desc)
        if desc_requested_at is not None:
            req.insert(min(desc_requested_at, len(req)), DESC_PATH)
    return {"files": files, "req": req, "rfail": rfail, "std": bool(std),
            "roles": list(roles), "desc": desc, "desc_explicit": sorted(desc_explicit) if desc is not None else [],
            "edges": sorted(edges)}


def klass(m):
    """stratum label of a mixed request (for the evidence histogram)."""
    rs = set(m["roles"])
    parts = []
    if rs & REPORTING:
        parts.append("reported")
    if rs & UNREPORTED:
        parts.append("unreported")
    if m["desc"] is not None:
        parts.append("desc-" + ("ok" if m["desc"] == "valid" else "broken") +
                     ("-explicit" if m["desc_explicit"] else "-implicit"))
    return "+".join(parts) or "clean"


def pair_specs(rng, quick):
    """Every ordered pair of roles as a two-file request (both orders are distinct pairs), without and with an
    import edge from the first to the second file; crossed with the descriptor.proto scenarios."""
    out = []
    v = 0
    for a in ROLES:
        for b in ROLES:
            for edge in (False, True):
                if edge and not (a in CONTENT_ROLES and b in CONTENT_ROLES):
                    continue
                if edge and quick and rng.chance(1, 2):
                    continue
                v += 1
                edges = {(0, 1)} if edge else set()
                out.append(build([a, b], edges, None, set(), None, v, std=(v % 3 == 0)))
                # overridden descriptor.proto: implicit only / explicit import in the first content file / requested
                scen = []
                for dv in DESC_VARIANTS:
                    scen.append((dv, set(), None))
                    scen.append((dv, {0}, None))
                    scen.append((dv, set(), v % 3))
                if quick:
                    scen = [scen[(v * 7) % len(scen)]]
                for dv, expl, at in scen:
                    out.append(build([a, b], edges, dv, expl, at, v, std=(v % 4 == 0)))
    # the errors are ONLY in the overridden descriptor.proto, every other file is clean (1-3 requested files)
    for dv in DESC_VARIANTS:
        for n in (1, 2, 3):
            for expl in (set(), {n - 1}):
                for at in (None, 0, n):
                    v += 1
                    if quick and (expl or at is not None) and v % 3:
                        continue          # the implicit-only, not requested case is always kept
                    edges = {(0, 1)} if n > 1 and v % 2 else set()
                    out.append(build(["clean"] * n, edges, dv, expl, at, v, std=(v % 2 == 0)))
    return out


def random_spec(rng):
    n = rng.range(3, 6)
    roles = []
    for _ in range(n):
        r = rng.below(10)
        roles.append("clean" if r < 3 else rng.choice(ROLES))
    if not (set(roles) & UNREPORTED) and rng.chance(3, 4):
        roles[rng.below(n)] = rng.choice(sorted(UNREPORTED))
    if not (set(roles) & REPORTING) and rng.chance(3, 4):
        k = rng.below(n)
        roles[k] = rng.choice(sorted(REPORTING))
    edges = set()
    for i in range(n):
        for d in range(i + 1, n):
            if roles[i] in CONTENT_ROLES and roles[d] in CONTENT_ROLES and rng.chance(1, 3):
                edges.add((i, d))
    desc = rng.choice(DESC_VARIANTS) if rng.chance(1, 3) else None
    expl = set(i for i in range(n) if rng.chance(1, 4))
    at = rng.below(n + 1) if rng.chance(1, 4) else None
    m = build(roles, edges, desc, expl, at, rng.below(64), std=rng.chance(1, 3))
    # the request order is a random permutation of the slots (descriptor.proto keeps its relative place)
    m["req"] = rng.shuffle(m["req"])
    if rng.chance(1, 3) and len(m["req"]) > 2:
        m["req"] = m["req"][:rng.range(2, len(m["req"]))]
    return m


def e2e_input(m, abort, par, yield_seed):
    return {"mode": "e2e", "files": m["files"], "req": m["req"], "par": par, "abort": abort, "yield": yield_seed,
            "std": m["std"], "rfail": m["rfail"]}
