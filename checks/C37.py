"""C37 - Diagnostic reports survive serialization (report.Report.ToProto / AppendFromProto)."""
import os
from vlib import *

ID = "C37"
COQ_FILES = ["Common/Corr.v", "Model/ReportCodec.v", "Proofs/ReportCodec.v", "Props/C37.v"]
PROPS = "Props/C37.v"

# Which variant of the model the working tree is compared with: three bits fix_text, fix_eof, fix_ice.
# "000" = the pinned code as it is; "111" = after the proposed repair (see Model/ReportCodec.v).
# Flip the default to "111" when the repair is committed to /repo.
MODEL = os.environ.get("VERIF_C37_MODEL", "111")
assert len(MODEL) == 3 and set(MODEL) <= {"0", "1"}, "VERIF_C37_MODEL must be three bits"
FIX_TEXT, FIX_EOF, FIX_ICE = (c == "1" for c in MODEL)

if MODEL == "111":
    THEOREMS = ["C37_report_roundtrip_repaired", "C37_roundtrip_all_variants", "C37_to_proto_injective"]
else:
    THEOREMS = ["C37_report_roundtrip_refuted", "C37_report_roundtrip_refuted_exists", "C37_report_roundtrip_partial",
                "C37_report_roundtrip_repaired", "C37_roundtrip_all_variants", "C37_repairs_independent", "C37_to_proto_injective"]
AXIOMS_OK = []
TRUSTED = ["hand-written Gallina model of Report.ToProto and Report.AppendFromProto (Model/ReportCodec.v), variant " + MODEL,
           "correspondence harness (harness/cmd/reportcodec) + verif hook report.VerifNewDiagnostic/VerifViewDiagnostic",
           "protobuf-go: proto.Merge and Marshal/Unmarshal are the identity on compilerpb.Report messages whose string fields are valid UTF-8 (exercised on every case, proved nowhere)"]
ASSUMPTIONS = ["well-formed report (wf): message non-empty (the proto documents it as required), level one of ICE/Error/Warning/Remark, "
               "0 <= start <= end <= len(text), offsets and edit offsets below 2^32, fewer than 2^32 snippets, a diagnostic with snippets has a primary one "
               "(Snippetf guarantees it), snippets with the same path refer to the same file (ToProto documents that it identifies files by path)",
               "sortOrder is not part of the proto: the decoded diagnostic has sortOrder 0 (not among the fields the property lists)",
               "a Go string is a byte list; nil and empty slices are identified; *source.File is compared by (path, text)"]

U32 = 1 << 32
PATHS = [b"a.proto", b"b.proto", b"dir/c.proto", b""]
WORDS = [b"", b"m", b"unexpected `;`", b"help: do x", b"tag-one", "café".encode(), "日本".encode(), b"a\nb", b"note", b"x" * 9]


def hx(b):
    return b.hex()


# ---------------------------------------------------------------- generation
def gen_text(rng):
    k = rng.below(10)
    if k == 0:
        return b""
    if k == 1:
        return rng.bytes(rng.range(1, 4))
    return bytes(rng.choice(b"ab\n m;{}") for _ in range(rng.range(1, 7)))


def gen_word(rng, nonempty=False):
    w = rng.choice(WORDS)
    if nonempty and not w:
        w = b"msg"
    return w


def gen_edits(rng, span_len, wild):
    out = []
    for _ in range(rng.choice([0, 0, 0, 1, 2])):
        if wild and rng.chance(1, 3):
            s, e = rng.choice([-1, 0, 5, U32 - 1, U32, U32 + 2]), rng.choice([-2, 0, 7, U32 - 1, U32 + 1])
        else:
            s = rng.range(0, span_len)
            e = rng.range(s, span_len)
        out.append({"start": s, "end": e, "replace": hx(gen_word(rng))})
    return out


def gen_span(rng, n, friendly_eof, wild):
    """n = len(text). Returns (start, end)."""
    if wild and rng.chance(1, 2):
        return rng.choice([(-1, 0), (0, n + 1), (n + 1, n + 1), (n, n - 1) if n else (1, 0), (U32, U32 + min(n, 1)),
                           (U32 + n, U32 + n), (0, U32 + n), (2, 1), (n + 2, n + 3)])
    k = rng.below(8)
    if k == 0 and not friendly_eof:
        return (n, n)                      # empty span at the end of the file
    if k == 1:
        return (0, n)
    if k == 2:
        return (0, 0) if (n > 0 or not friendly_eof) else (0, 0)
    if n == 0:
        return (0, 0)
    s = rng.range(0, n - 1 if friendly_eof else n)
    return (s, rng.range(s, n))


def gen_report(rng, kind):
    """kind: 'friendly' (inside the guard of the code as it is), 'wf' (any well-formed report), 'wild' (anything)."""
    wild = kind == "wild"
    friendly = kind == "friendly"
    nfiles = rng.range(1, 3)
    files, used = [], set()
    for _ in range(nfiles):
        p = rng.choice(PATHS)
        if p in used and not (wild and rng.chance(1, 2)):
            continue
        used.add(p)
        t = gen_text(rng)
        if friendly and not t:
            t = b"x;"
        files.append({"path": hx(p), "text": hx(t)})
    seen_paths = set()
    diags = []
    for _ in range(rng.choice([0, 1, 1, 1, 2, 2, 3])):
        if wild and rng.chance(1, 4):
            level = rng.choice([0, 5, -1, 6, 127, -128, 1])
        elif friendly:
            level = rng.choice([2, 3, 4])
        else:
            level = rng.choice([1, 2, 2, 3, 4])
        d = {"tag": hx(gen_word(rng)), "msg": hx(gen_word(rng, nonempty=not (wild and rng.chance(1, 6)))),
             "level": level, "sort": rng.choice([0, 0, 10, 20, -3]), "infile": hx(rng.choice([b"", b"", b"x.proto"])),
             "notes": [hx(gen_word(rng)) for _ in range(rng.choice([0, 0, 1, 2]))],
             "help": [hx(gen_word(rng)) for _ in range(rng.choice([0, 0, 1]))],
             "debug": [hx(gen_word(rng)) for _ in range(rng.choice([0, 0, 0, 2]))],
             "snips": []}
        nsn = rng.choice([0, 1, 1, 2, 2, 3])
        for j in range(nsn):
            fi = rng.below(len(files))
            f = files[fi]
            n = len(f["text"]) // 2
            first_use = f["path"] not in seen_paths
            seen_paths.add(f["path"])
            if friendly and first_use:
                s, e = 0, n
            elif not wild and first_use and rng.chance(1, 3):
                s, e = 0, n
            else:
                s, e = gen_span(rng, n, friendly, wild)
            primary = (j == 0)
            if wild and rng.chance(1, 4):
                primary = rng.chance(1, 2)
            d["snips"].append({"file": fi, "start": s, "end": e, "msg": hx(gen_word(rng)), "primary": primary,
                               "break": rng.chance(1, 5), "edits": gen_edits(rng, max(0, min(e, n) - max(s, 0)), wild)})
        diags.append(d)
    return {"mode": "rt", "via": rng.choice(["wire", "merge"]), "files": files, "diags": diags, "kind": kind}


def gen_proto(rng):
    nfiles = rng.choice([0, 1, 1, 2, 3])
    files = [{"path": hx(rng.choice(PATHS)), "text": hx(gen_text(rng))} for _ in range(nfiles)]
    pds = []
    for _ in range(rng.choice([0, 1, 1, 2, 3])):
        level = rng.choice([2, 3, 4, 2, 3, 4, 1, 0, 5, 258, 257, -254, 130, 2147483647, -2147483648, 1026])
        anns = []
        for _ in range(rng.choice([0, 1, 1, 2, 3])):
            fi = rng.choice([0, 0, 0, 1, 1, 2, 3, U32 - 1])
            n = len(files[fi]["text"]) // 2 if fi < len(files) else 3
            if rng.chance(1, 3):
                s, e = rng.choice([(n, n), (n + 1, n + 1), (0, n + 1), (1, 0), (U32 - 1, U32 - 1), (n, n + 1), (0, 0)])
            else:
                s = rng.range(0, n)
                e = rng.range(s, n)
            anns.append({"file": fi, "start": s, "end": e, "msg": hx(gen_word(rng)), "primary": rng.chance(1, 3),
                         "break": rng.chance(1, 5),
                         "edits": [{"start": rng.choice([0, 1, 9, U32 - 1]), "end": rng.choice([0, 2, U32 - 1]),
                                    "replace": hx(gen_word(rng))} for _ in range(rng.choice([0, 0, 1, 2]))]})
        pds.append({"msg": hx(gen_word(rng, nonempty=not rng.chance(1, 8))), "tag": hx(gen_word(rng)), "level": level,
                    "infile": hx(rng.choice([b"", b"x.proto"])), "annots": anns,
                    "notes": [hx(gen_word(rng)) for _ in range(rng.choice([0, 1, 2]))],
                    "help": [hx(gen_word(rng)) for _ in range(rng.choice([0, 1]))],
                    "debug": [hx(gen_word(rng)) for _ in range(rng.choice([0, 0, 2]))]})
    return {"mode": "dec", "via": rng.choice(["wire", "merge"]), "files": files, "pdiags": pds}


def sn(fi, s, e, primary=True, **kw):
    d = {"file": fi, "start": s, "end": e, "msg": "", "primary": primary, "break": False, "edits": []}
    d.update(kw)
    return d


def dg(level=2, snips=(), msg=b"m", **kw):
    d = {"tag": "", "msg": hx(msg), "level": level, "sort": 0, "infile": "", "notes": [], "help": [], "debug": [], "snips": list(snips)}
    d.update(kw)
    return d


def corpus():
    A = {"path": hx(b"a"), "text": hx(b"abc")}
    E = {"path": hx(b"a"), "text": ""}
    B = {"path": hx(b"b"), "text": hx(b"xy")}
    A2 = {"path": hx(b"a"), "text": hx(b"zzzz")}
    out = []

    def rt(files, diags, kind="wf", via="wire"):
        out.append({"mode": "rt", "via": via, "files": files, "diags": diags, "kind": kind})
    rt([A], [dg(2, [sn(0, 0, 3), sn(0, 3, 3, False)])])                 # w_eof
    rt([E], [dg(2, [sn(0, 0, 0)])])                                     # w_empty
    rt([], [dg(1)])                                                     # w_ice
    rt([A], [dg(2, [sn(0, 1, 2)])])                                     # w_text
    rt([A], [dg(2, [sn(0, 3, 3)])])                                     # lone empty span at EOF
    rt([A], [dg(2, [sn(0, 0, 3)])], kind="friendly")
    rt([A, B], [dg(3, [sn(0, 0, 3), sn(1, 0, 2, False, **{"break": True}), sn(0, 1, 2, False)], tag=hx(b"t"),
                   notes=[hx(b"n")], help=[hx(b"h")], debug=[hx(b"d1"), hx(b"d2")]),
                dg(4, infile=hx(b"f"))], kind="friendly", via="merge")
    rt([A], [dg(2, [sn(0, 0, 3, edits=[{"start": 0, "end": 1, "replace": hx(b"z")}, {"start": 3, "end": 3, "replace": ""}])])], kind="friendly")
    rt([A], [dg(2, [sn(0, 0, 3, False), sn(0, 1, 2, False)])], kind="wild")   # no primary: first becomes primary
    rt([A], [dg(2, [sn(0, 0, 3, False), sn(0, 1, 2, True)])], kind="friendly")  # primary is the second
    rt([A], [dg(2, [sn(0, 0, 3)], msg=b"")], kind="wild")                # missing message
    rt([A, A2], [dg(2, [sn(0, 0, 3), sn(1, 0, 4, False)])], kind="wild")  # same path, two texts
    rt([A], [dg(2, [sn(0, 0, 3), sn(0, U32 + 1, U32 + 2, False)])], kind="wild")  # uint32 narrowing
    rt([A], [dg(2, [sn(0, 2, 5)])], kind="wild")                         # Span.Text panics
    rt([A], [dg(2, [sn(0, 0, 3)]), dg(5), dg(3)], kind="wild")           # invalid level after one good diagnostic
    for lv in (0, 1, 2, 3, 4, 5, -1):
        rt([], [dg(lv)], kind="wf" if 1 <= lv <= 4 else "wild")
    return out


# ---------------------------------------------------------------- the property on the implementation
def is_wf(case):
    files = case["files"]
    nsn = 0
    path_text = {}
    for d in case["diags"]:
        if not d["msg"] or not (1 <= d["level"] <= 4):
            return False
        if d["snips"] and not any(s["primary"] for s in d["snips"]):
            return False
        for s in d["snips"]:
            f = files[s["file"]]
            n = len(f["text"]) // 2
            if not (0 <= s["start"] <= s["end"] <= n and s["end"] < U32):
                return False
            if path_text.setdefault(f["path"], f["text"]) != f["text"]:
                return False
            for e in s["edits"]:
                if not (0 <= e["start"] < U32 and 0 <= e["end"] < U32):
                    return False
            nsn += 1
    return nsn < U32


def expected_out(case):
    out = []
    for d in case["diags"]:
        out.append({"tag": d["tag"], "msg": d["msg"], "level": d["level"], "sort": 0, "infile": d["infile"],
                    "notes": d["notes"], "help": d["help"], "debug": d["debug"],
                    "snips": [{"nilfile": False, "path": case["files"][s["file"]]["path"], "text": case["files"][s["file"]]["text"],
                               "start": s["start"], "end": s["end"], "msg": s["msg"], "primary": s["primary"],
                               "break": s["break"], "edits": s["edits"]} for s in d["snips"]]})
    return out


def classify(case, o):
    """Why a well-formed report did not come back: one of the three known classes, else 'roundtrip-other'."""
    err = o["err"]
    if err["kind"] == "invalid-level" and err.get("level") == 1:
        return "level-ice", "AppendFromProto rejects level ICE"
    pfiles = {f["path"]: f["text"] for f in o["proto"]["files"]}
    for d in case["diags"]:
        for s in d["snips"]:
            f = case["files"][s["file"]]
            if pfiles.get(f["path"]) != f["text"]:
                return ("file-text-replaced-by-span-text",
                        "ToProto stores the text of the first snippet's span as the text of the file")
    if err["kind"] == "oob":
        s = case["diags"][err["i"]]["snips"][err["j"]]
        n = len(case["files"][s["file"]]["text"]) // 2
        if n == 0:
            return "span-in-empty-file", "AppendFromProto rejects every span of an empty file (Start >= len(text))"
        if s["start"] == n:
            return "zero-width-span-at-eof", "AppendFromProto rejects an empty span at the end of the file (Start >= len(text))"
    return "roundtrip-other", "a well-formed report does not survive ToProto + AppendFromProto"


# ---------------------------------------------------------------- Coq terms
def cs(h):
    return "[" + ";".join(str(b) for b in bytes.fromhex(h)) + "]%N"


def cz(z):
    return "(%d)" % z


def cb(b):
    return "true" if b else "false"


def cstrs(xs):
    return "[" + "; ".join(cs(x) for x in xs) + "]"


def c_edit(e):
    return "(mkedit %s %s %s)" % (cz(e["start"]), cz(e["end"]), cs(e["replace"]))


def c_snip(path, text, s):
    return "(mksnip (mkfile %s %s) %s %s %s %s %s [%s])" % (cs(path), cs(text), cz(s["start"]), cz(s["end"]), cs(s["msg"]),
                                                           cb(s["primary"]), cb(s["break"]), "; ".join(c_edit(e) for e in s["edits"]))


def c_diag_in(case, d):
    sn_ = "; ".join(c_snip(case["files"][s["file"]]["path"], case["files"][s["file"]]["text"], s) for s in d["snips"])
    return "(mkdiag %s %s %s %s %s [%s] %s %s %s)" % (cs(d["tag"]), cs(d["msg"]), cz(d["level"]), cz(d["sort"]), cs(d["infile"]),
                                                     sn_, cstrs(d["notes"]), cstrs(d["help"]), cstrs(d["debug"]))


def c_diag_out(d):
    sn_ = "; ".join(c_snip(s["path"], s["text"], s) for s in d["snips"])
    return "(mkdiag %s %s %s %s %s [%s] %s %s %s)" % (cs(d["tag"]), cs(d["msg"]), cz(d["level"]), cz(d["sort"]), cs(d["infile"]),
                                                     sn_, cstrs(d["notes"]), cstrs(d["help"]), cstrs(d["debug"]))


def c_pedit(e):
    return "(mkpedit %s %s %s)" % (cz(e["start"]), cz(e["end"]), cs(e["replace"]))


def c_pannot(a):
    return "(mkpannot %s %s %s %s %s %s [%s])" % (cz(a["file"]), cz(a["start"]), cz(a["end"]), cs(a["msg"]), cb(a["primary"]),
                                                  cb(a["break"]), "; ".join(c_pedit(e) for e in a["edits"]))


def c_pdiag(d):
    return "(mkpdiag %s %s %s %s [%s] %s %s %s)" % (cs(d["msg"]), cs(d["tag"]), cz(d["level"]), cs(d["infile"]),
                                                   "; ".join(c_pannot(a) for a in d["annots"]),
                                                   cstrs(d["notes"]), cstrs(d["help"]), cstrs(d["debug"]))


def c_preport(files, pdiags):
    return "(mkpreport [%s] [%s])" % ("; ".join("(mkpfile %s %s)" % (cs(f["path"]), cs(f["text"])) for f in files),
                                      "; ".join(c_pdiag(d) for d in pdiags))


def c_res(o):
    ds = "[" + "; ".join(c_diag_out(d) for d in o["out"]) + "]"
    e = o["err"]
    k = e["kind"]
    if k == "ok":
        return "(Ok %s)" % ds
    if k == "missing-message":
        et = "(EMissingMessage %d)" % e["i"]
    elif k == "invalid-level":
        et = "(EInvalidLevel %s)" % cz(e["level"])
    elif k == "bad-file":
        et = "(EBadFile %d %d %s)" % (e["i"], e["j"], cz(e["file"]))
    elif k == "oob":
        et = "(EOutOfBounds %d %d %s %s)" % (e["i"], e["j"], cz(e["start"]), cz(e["end"]))
    else:
        return None
    return "(Err %s %s)" % (et, ds)


# ---------------------------------------------------------------- run
def run(ctx):
    rng = ctx.rng
    cases = corpus()
    n = ctx.budget(800, 40000)
    for k in range(n):
        r = k % 10
        cases.append(gen_report(rng, "friendly" if r < 4 else ("wf" if r < 7 else "wild")))
    ndec = ctx.budget(400, 20000)
    for _ in range(ndec):
        cases.append(gen_proto(rng))
    ctx.rule = ("corpus of %d hand-picked reports (the four witnesses of the refutation, edits, page breaks, missing primary, uint32 narrowing, "
                "same path with two texts, Span.Text panic, every level), then random reports over 1-3 generated files (texts of 0-6 bytes incl. empty and non-UTF-8): "
                "40%% inside the guard of the unrepaired code, 30%% any well-formed report (empty spans at EOF, empty files, ICE), 30%% arbitrary "
                "(out-of-range and >= 2^32 offsets, invalid levels, no/multiple primary, empty message), each through proto.Merge or Marshal/Unmarshal; "
                "plus random arbitrary protos through AppendFromProto (bad file index, int8 level wrap, out-of-bounds spans). "
                "distinct = distinct (files, diagnostics, transport); non-trivial = at least one diagnostic" % len(corpus()))
    ins = [{k: v for k, v in c.items() if k != "kind"} for c in cases]
    outs = ctx.impl("reportcodec", ins)
    terms, meta = [], []
    for c, o in zip(cases, outs):
        if "crash" in o:
            ctx.corr_break("reportcodec", c, o)
            ctx.violation("harness-crash", "harness crashed", {"input": c, "observed": o})
            continue
        key = json.dumps({k: v for k, v in c.items() if k != "kind"}, sort_keys=True)
        if c["mode"] == "dec":
            ctx.count(key, len(c["pdiags"]) > 0, "dec:" + o.get("err", {}).get("kind", "panic"))
            if "panic" in o:
                ctx.corr_break("reportcodec:dec", c, o)
                continue
            rt_ = c_res(o)
            if rt_ is None or "transport" in o:
                ctx.corr_break("reportcodec:dec", c, o)
                continue
            terms.append("CDec %s %s" % (c_preport(c["files"], c["pdiags"]), rt_))
            meta.append((c, o))
            continue
        wf = is_wf(c)
        if "panic" in o:
            ctx.count(key, len(c["diags"]) > 0, "rt:%s:panic" % c["kind"])
            if wf:
                ctx.violation("toproto-panic", "ToProto / AppendFromProto panicked on a well-formed report", {"input": c, "observed": o})
            terms.append("CRt [%s] None None" % "; ".join(c_diag_in(c, d) for d in c["diags"]))
            meta.append((c, o))
            continue
        ctx.count(key, len(c["diags"]) > 0, "rt:%s:%s" % (c["kind"], o["err"]["kind"]))
        rt_ = c_res(o)
        if rt_ is None or "transport" in o:
            ctx.corr_break("reportcodec:rt", c, o)
            if wf:
                ctx.violation("roundtrip-other", "unexpected error from AppendFromProto / transport", {"input": c, "observed": o})
            continue
        terms.append("CRt [%s] (Some %s) (Some %s)" % ("; ".join(c_diag_in(c, d) for d in c["diags"]),
                                                       c_preport(o["proto"]["files"], o["proto"]["diags"]), rt_))
        meta.append((c, o))
        # ToProto must not modify the report it serialises
        src_expect = expected_out(c)
        for d, dd in zip(src_expect, c["diags"]):
            d["sort"] = dd["sort"]
        if o["src"] != src_expect:
            ctx.violation("toproto-mutates-report", "the report differs after ToProto", {"input": c, "after": o["src"]})
        # direct oracle: the property itself
        if wf:
            if not (o["err"]["kind"] == "ok" and o["out"] == expected_out(c)):
                k, what = classify(c, o)
                ctx.violation(k, what, {"input": c, "proto": o["proto"], "error": o["err"], "decoded": o["out"],
                                        "expected": expected_out(c)})
    for c in cases[:3] + cases[len(corpus()):len(corpus()) + 2]:
        ctx.sample({k: v for k, v in c.items()})
    header = ("From Coq Require Import List ZArith NArith Bool.\nImport ListNotations.\n"
              "From PV Require Import Common.Corr Model.ReportCodec.\nOpen Scope Z_scope.\n")
    mism, err = coq_eval_mismatches("cases_C37", header, terms, "rc_chk_" + MODEL, shard_size=ctx.budget(150, 600))
    if err:
        raise RuntimeError(err)
    for k in mism:
        c, o = meta[k]
        ctx.corr_break("reportcodec:" + c["mode"], c, {"observed": o, "model_variant": MODEL})
    ctx.extra["model_variant"] = {"fix_text": FIX_TEXT, "fix_eof": FIX_EOF, "fix_ice": FIX_ICE}
