"""C29 - Lexer tokens tile the input."""
from vlib import *
import xlexlib as X

ID = "C29"
COQ_FILES = ["Common/Corr.v", "Model/XLexer.v", "Model/XLexerTables.v", "Model/XLexerCorr.v",
             "Proofs/XLexerUtf8.v", "Proofs/XLexerScan.v", "Proofs/XLexerStep.v", "Proofs/XLexerLoop.v",
             "Proofs/XLexer.v", "Proofs/XLexerParser.v", "Proofs/XLexerBraces.v", "Props/C29.v"]
PROPS = "Props/C29.v"
THEOREMS = ["C29_tokens_tile", "C29_xlex_total", "C29_prelude_reject_reports_error", "C29_brackets_matched_or_reported",
            "C29_fused_brackets_match"]
# about the lexer as it was before the repairs ([as_is] variant of the model); kept in Props/C29.v, audited with the rest
HISTORICAL = ["C29_tokens_tile_refuted", "C29_tokens_tile_refuted_by_panic", "C29_tokens_tile_partial", "C29_loop_ends_partial"]
AXIOMS_OK = []
TRUSTED = ["hand-written Gallina mirror of experimental/internal/lexer (loop.go, lexer.go, string.go; number.go for the token "
           "boundary only) and of token.Stream.Push / token.Fuse as far as offsets and fusion go",
           "keyword table, OnKeyword actions, Lexer switches and the six Unicode classes transcribed into Model/XLexerTables.v "
           "and compared with the working tree on every run (harness mode table)",
           "correspondence harness harness/cmd/xlexer + verif hook parser.VerifLexer"]
ASSUMPTIONS = ["number literals: only lexRawNumber (where the token ends) is mirrored; lexNumber's value parsing and the "
               "InvalidNumber diagnostics are not modelled and are dropped from the comparison (their spans are checked by the oracle)",
               "EmitNewline is nil in the parser's configuration; the kind rewrite of newlines() for a non-nil EmitNewline is not modelled",
               "files above MaxFileSize (2 GB) are modelled but never exercised",
               "two places that index with a rune of -1 (unicodex.Digit(-1), spanFrom with RuneLen(-1)) are unreachable on valid UTF-8 "
               "and modelled as not-a-digit / zero width",
               "Go's utf8.DecodeRuneInString and the trie behind keyword.Prefixes are mirrored by decode_rune / kw_select, tied by correspondence only"]


def lex_variant():
    return X.TREE["flush"], X.TREE["esc"]


def run(ctx):
    import time as _t
    _t0 = _t.time()
    phases = {}
    ctx.extra["phase_s"] = phases
    rng = ctx.rng
    ff, fe = lex_variant()

    # --- the transcribed tables against the working tree
    table = ctx.impl("xlexer", [{"mode": "table"}], shards=1)[0]
    if "panic" in table or "crash" in table:
        raise RuntimeError("harness table mode failed: %r" % table)
    X.set_bracket_kws(table)
    tterms = X.table_terms(table)

    # --- cases
    maxlen = ctx.budget(3, 4)
    cases = list(X.CORPUS)
    cases += X.small_exhaustive(maxlen)
    # every sequence of bracket tokens over the three kinds ( ) [ ] { }: up to blen tokens through implementation, model
    # and oracle; up to blen_o tokens (quick tier: longer than blen) through the implementation and the oracle only
    SIX = (b"(", b")", b"[", b"]", b"{", b"}")
    blen, blen_o = ctx.budget(4, 6), ctx.budget(5, 7)
    cases += X.bracket_exhaustive(blen, SIX)
    # the same sequences with something between the brackets (the heuristics of fuseBraces look at bracket tokens only)
    cases += [b" x ".join(bytes([b]) for b in c) for c in X.bracket_exhaustive(3, SIX)]
    oracle_only = [c for c in X.bracket_exhaustive(blen_o, SIX) if len(c) > blen]
    cases += X.random_rich(rng, ctx.budget(700, 30000))
    files = X.testdata_files(REPO)
    chunks = []
    for _ in range(ctx.budget(40, 1500)):
        f = rng.choice(files)
        if not f:
            continue
        i = rng.range(0, max(0, len(f) - 1))
        c = X.mutate(rng, f[i:i + rng.range(20, ctx.budget(200, 700))])
        chunks.append(c)
    cases += chunks
    seen = set()
    uniq = []
    for c in cases:
        if c not in seen:
            seen.add(c)
            uniq.append(c)
    cases = uniq
    ctx.rule = ("texts: %d hand-picked edge cases + all strings of length <= %d over a 14-symbol alphabet (quote, backslash, newline, "
                "space, slash, star, braces, letter, digit, dot, caret, a 2-byte rune, x) + all bracket strings of length <= %d over ( ) [ ] { } "
                "(implementation, model and oracle; up to length %d: implementation and oracle only) + those of length <= 3 with an identifier between "
                "the brackets + random strings of 1..16 symbols over a "
                "72-symbol alphabet (escapes, brackets, comment markers, BOM, invalid UTF-8 bytes, non-ASCII digits / marks / spaces, "
                "keywords) + mutated chunks of the .proto files under internal/testdata and experimental/parser/testdata; "
                "distinct = distinct text; non-trivial = non-empty; when model and implementation disagree on a text and the oracle "
                "found nothing, the oracle is also run on all substrings / one-byte deletions / one-bracket extensions of the disagreeing texts"
                % (len(X.CORPUS), maxlen, blen, blen_o))

    outs = ctx.impl("xlexer", [{"mode": "lex", "s": c.hex()} for c in cases])

    # texts whose tokens stop early are lexed once more with a space appended: the token that then covers the
    # uncovered part tells which bytes were left out (all of these in one batch)
    def covered(o):
        end = 0
        for t in o.get("tokens") or []:
            end = t[2]
        return end
    need = [c for c, o in zip(cases, outs)
            if "diags" in o and not X.prelude_rejected(o) and not any(d["level"] == 1 for d in o["diags"]) and covered(o) != len(c)]
    pouts = ctx.impl("xlexer", [{"mode": "lex", "s": (c + b" ").hex()} for c in need]) if need else []
    probe_cache = {c: (o.get("tokens") if "tokens" in o else None) for c, o in zip(need, pouts)}
    # where the appended space makes the prelude decline the text (a NUL among the first two bytes), the uncovered
    # tail is lexed on its own instead
    outmap = dict(zip(cases, outs))
    need2 = [c for c, o in zip(need, pouts) if "diags" in o and X.prelude_rejected(o)]
    touts = ctx.impl("xlexer", [{"mode": "lex", "s": c[covered(outmap[c]):].hex()} for c in need2]) if need2 else []
    for c, o in zip(need2, touts):
        if "diags" in o and not o["diags"] and not (o.get("tokens") or []):
            probe_cache[c] = "tail-unrecognized"

    def flushed_probe(s):
        return probe_cache.get(s)

    terms, meta = list(tterms), [("table", None)] * len(tterms)
    nviol = {}

    def oracle(c, o, suffix=""):
        """direct oracle: the property on the implementation, one text; False when the harness crashed on it"""
        if "crash" in o or "panic" in o:
            ctx.corr_break("xlexer:lex", {"s": c.hex()}, o)
            ctx.violation("panic-escaped-lexer", "Lexer.Lex panicked past CatchICE or the harness crashed", {"s": c.hex(), "observed": o})
            return False
        klass = "prelude-reject" if X.prelude_rejected(o) else ("ice" if any(d["level"] == 1 for d in o["diags"]) else
                                                                ("clean" if not o["diags"] else "diagnosed"))
        ctx.count(c, len(c) > 0, klass + suffix)
        for key, what in X.tiling_oracle(c, o, flushed_probe):
            nviol[key] = nviol.get(key, 0) + 1
            if nviol[key] <= 3:
                ctx.violation(key, what, {"s": c.hex(), "text": repr(c), "tokens": o.get("tokens"),
                                          "diags": [(d["level"], d["class"], [sp[:2] for sp in d["spans"]]) for d in o["diags"]]})
        return True

    for c, o in zip(cases, outs):
        if not oracle(c, o):
            continue
        t, why = X.lex_term(c, o, ff, fe)
        if t is None:
            ctx.corr_break("xlexer:lex", {"s": c.hex()}, {"unexpressible": why})
            continue
        terms.append(t)
        meta.append((c, o))
    # the longer bracket sequences after the shorter ones, so that the first replay of a key is the shortest input
    oouts = ctx.impl("xlexer", [{"mode": "lex", "s": c.hex()} for c in oracle_only])
    for c, o in zip(oracle_only, oouts):
        oracle(c, o, ":oracle-only")
    ctx.extra["oracle_failures_by_key"] = dict(nviol)
    for c in (b"message A {} \x01", b'a "x\\', cases[-1]):
        ctx.sample({"mode": "lex", "s": c.hex(), "text": repr(c)})

    phases["cases+impl+oracle"] = round(_t.time() - _t0, 1)
    _t1 = _t.time()
    mism, err = coq_eval_mismatches("cases_C29", X.CORR_HEADER, terms, "xlex_chk", shard_size=ctx.budget(300, 1200))
    phases["coq_eval"] = round(_t.time() - _t1, 1)
    phases["before_run"] = round(_t0 - ctx.t0, 1)
    if err:
        raise RuntimeError(err)
    disagreeing = []
    for k in mism:
        c, o = meta[k]
        if c != "table":
            disagreeing.append(c)
        if c == "table":
            ctx.corr_break("xlexer:tables", {"table_term_index": k},
                           {"detail": "keyword table / Unicode class / constants of the working tree differ from Model/XLexerTables.v"})
        else:
            ctx.corr_break("xlexer:lex", {"s": c.hex(), "text": repr(c)},
                           {"tokens": o.get("tokens"),
                            "diags": [(d["level"], d["class"], [sp[:2] for sp in d["spans"]]) for d in o["diags"]],
                            "model_variant": {"fix_flush": ff, "fix_esc": fe}})
    if disagreeing and not nviol:
        # model and implementation disagree but the property held on every text so far: look around the disagreeing
        # texts (shortest first) for one on which it fails
        seen_all = set(cases) | set(oracle_only)
        extra = []

        def add(x):
            if x not in seen_all and len(extra) < ctx.budget(6000, 60000):
                seen_all.add(x)
                extra.append(x)
        for c in sorted(disagreeing, key=len)[:60]:
            if len(c) <= 24:
                for i in range(len(c)):
                    for j in range(i + 1, len(c) + 1):
                        add(c[i:j])
            for i in range(len(c)):
                add(c[:i] + c[i + 1:])
            for b in SIX:
                add(c + b)
                add(b + c)
                for i in range(1, len(c)):
                    add(c[:i] + b + c[i:])
        eouts = ctx.impl("xlexer", [{"mode": "lex", "s": c.hex()} for c in extra]) if extra else []
        for c, o in zip(extra, eouts):
            oracle(c, o, ":escalation")
        ctx.extra["escalation_cases"] = len(extra)
        ctx.extra["oracle_failures_by_key"] = dict(nviol)
    ctx.exhaustive = True
    ctx.extra["exhaustive_part"] = ("all strings of length <= %d over the 14-symbol alphabet; all bracket sequences of length <= %d over ( ) [ ] { } "
                                    "(length <= %d also through the model in coqc)" % (maxlen, blen_o, blen))
    ctx.extra["model_variant"] = {"fix_flush": ff, "fix_esc": fe}
    ctx.extra["historical_lemmas"] = HISTORICAL
