"""Shared by checks/C30.py and checks/C31.py: generator of .proto sources with a controlled layout.

A source is generated as a list of items: ("t", text) is a syntactic token, ("h", hint) a gap between
two tokens.  Two renderers fill the gaps:

  plain        the layout a formatter would produce: one declaration per line, two-space indent,
               comments only on their own lines before a declaration or trailing a complete
               declaration, blank lines only between declarations, final newline.
  adversarial  every gap may be replaced by arbitrary trivia (spaces, tabs, newlines, CRLF, block and
               line comments, blank lines), the file may lack its final newline or end in
               whitespace / a comment, concatenated strings get trivia between their parts.

Hints: "sp" one space, "no" nothing, "nl" line break + indentation, "in"/"de" indentation level,
"decl" start of a declaration (own-line comment / blank-line slot), "tc" trailing-comment slot after
a complete declaration, "eof" end of file.

The generated files are valid for both the experimental parser and the stable compiler: names are
unique, references resolve, custom options are declared in the file itself.
"""

WORD = set(b"abcdefghijklmnopqrstuvwxyzABCDEFGHIJKLMNOPQRSTUVWXYZ0123456789_.\"'-+")

SCALARS = ["int32", "int64", "uint32", "uint64", "sint32", "sint64", "fixed32", "fixed64", "sfixed32",
           "sfixed64", "bool", "string", "bytes", "double", "float"]
STD_IMPORTS = ["google/protobuf/any.proto", "google/protobuf/timestamp.proto", "google/protobuf/duration.proto",
               "google/protobuf/empty.proto", "google/protobuf/wrappers.proto", "google/protobuf/struct.proto",
               "google/protobuf/field_mask.proto"]
STD_TYPES = {"google/protobuf/any.proto": "google.protobuf.Any", "google/protobuf/timestamp.proto": "google.protobuf.Timestamp",
             "google/protobuf/duration.proto": "google.protobuf.Duration", "google/protobuf/empty.proto": "google.protobuf.Empty",
             "google/protobuf/wrappers.proto": "google.protobuf.StringValue", "google/protobuf/struct.proto": "google.protobuf.Struct",
             "google/protobuf/field_mask.proto": "google.protobuf.FieldMask"}


class Src:
    def __init__(self):
        self.items = []

    def t(self, *texts):
        """tokens separated by single spaces"""
        for i, x in enumerate(texts):
            if i:
                self.items.append(("h", "sp"))
            self.items.append(("t", x))
        return self

    def h(self, hint):
        self.items.append(("h", hint))
        return self

    def sp(self):
        return self.h("sp")

    def no(self):
        return self.h("no")


class Gen:
    """One generated file. feature switches select the strata."""

    def __init__(self, rng, flat=False, size=3, literals=True, shuffle_header=False):
        self.rng = rng
        self.flat = flat
        self.size = size
        self.literals = literals
        self.shuffle_header = shuffle_header
        self.n = 0
        self.s = Src()
        self.msgs = []     # fully qualified-in-file names usable as field types
        self.enums = []

    def name(self, base):
        self.n += 1
        return "%s%d" % (base, self.n)

    # ---- pieces
    def string(self, text, parts=1):
        """a string literal, possibly written as several implicitly concatenated parts"""
        s = self.s
        if parts <= 1 or len(text) < parts:
            s.t('"%s"' % text)
            return
        cuts = sorted(set(self.rng.range(1, len(text) - 1) for _ in range(parts - 1))) if len(text) > 1 else []
        prev = 0
        first = True
        for c in cuts + [len(text)]:
            if not first:
                s.h("cat")
            s.t('"%s"' % text[prev:c])
            prev = c
            first = False

    def path(self, dotted):
        """a dotted name; components are separate tokens so that trivia can go between them"""
        s = self.s
        comps = dotted.split(".")
        for i, c in enumerate(comps):
            if i:
                s.no().t(".").no()
            s.t(c)

    def literal(self, depth=0):
        """message literal for the option type Meta"""
        s, rng = self.s, self.rng
        op, cl = ("{", "}") if depth == 0 or rng.chance(3, 5) else ("<", ">")
        s.t(op)
        fields = []
        if rng.chance(3, 4):
            fields.append("a")
        if rng.chance(1, 2):
            fields.append("b")
        if depth < 2 and rng.chance(1, 3):
            fields.append("nested")
        if rng.chance(1, 3):
            fields.append("r")
        first = True
        for f in fields:
            s.h("lit_nl" if not first else "lit_open")
            first = False
            s.t(f)
            if f == "a":
                s.no().t(":").sp().t(str(rng.range(0, 99)))
            elif f == "b":
                s.no().t(":").sp()
                self.string("v%d" % rng.below(100), parts=rng.choice([1, 1, 2, 3]))
            elif f == "nested":
                if rng.chance(1, 2):
                    s.no().t(":")
                s.sp()
                self.literal(depth + 1)
            else:
                s.no().t(":").sp().t("[")
                k = rng.range(0, 3)
                for i in range(k):
                    if i:
                        s.no().t(",").sp()
                    else:
                        s.no()
                    s.t(str(rng.below(10)))
                s.no().t("]")
            sep = rng.choice(["", "", ",", ";"])
            if sep:
                s.no().t(sep)
        s.h("lit_close" if fields else "no")
        s.t(cl)

    def compact_options(self, kind, syntax):
        """[ ... ] after a field / enum value"""
        s, rng = self.s, self.rng
        opts = []
        if rng.chance(1, 3):
            opts.append(("deprecated", lambda: s.t(rng.choice(["true", "false"]))))
        if kind == "field" and rng.chance(1, 4):
            nm = "j%d" % rng.below(1000)
            opts.append(("json_name", lambda: self.string(nm, parts=rng.choice([1, 1, 2]))))
        if self.custom and rng.chance(1, 3):
            ext = {"field": "fld", "enumvalue": "evl"}[kind]
            opts.append(("(%s)" % ext, lambda: self.string("t%d" % rng.below(100), parts=rng.choice([1, 2, 3]))))
        if self.custom and self.literals and kind == "field" and rng.chance(1, 4):
            opts.append(("(fldm)", lambda: self.literal()))
        if not opts:
            return
        opts = rng.shuffle(opts)
        s.sp().t("[")
        for i, (k, v) in enumerate(opts):
            if i:
                s.no().t(",").h("co_sep")
            else:
                s.h("co_open")
            if k.startswith("("):
                s.t("(").no()
                self.path(k[1:-1])
                s.no().t(")")
            else:
                s.t(k)
            s.sp().t("=").sp()
            v()
        s.h("co_close").t("]")

    def field(self, syntax, num, in_oneof=False):
        s, rng = self.s, self.rng
        s.h("decl")
        label = ""
        if not in_oneof:
            if syntax == "proto2":
                label = rng.choice(["optional", "optional", "repeated", "required"])
            else:
                label = rng.choice(["", "", "", "repeated", "optional"])
        kind = rng.below(10)
        if kind < 6 or not (self.msgs or self.enums):
            ty = rng.choice(SCALARS)
        elif kind < 8 and self.msgs:
            ty = rng.choice(self.msgs)
        elif self.enums:
            ty = rng.choice(self.enums)
            if label == "required":
                label = "optional"
        else:
            ty = rng.choice(SCALARS)
        if self.std_types and rng.chance(1, 8):
            ty = rng.choice(self.std_types)
        if label:
            s.t(label).sp()
        self.path(ty)
        fname = self.name("f")
        s.sp().t(fname, "=", str(num))
        self.compact_options("field", syntax)
        s.no().t(";").h("tc")

    def map_field(self, num):
        s, rng = self.s, self.rng
        s.h("decl")
        s.t("map").no().t("<").no().t(rng.choice(["string", "int32", "int64", "bool"])).no().t(",").sp()
        s.t(rng.choice(SCALARS + (self.msgs[:1])))
        s.no().t(">").sp().t(self.name("m"), "=", str(num)).no().t(";").h("tc")

    def enum(self, syntax, scope):
        s, rng = self.s, self.rng
        nm = self.name("E")
        s.h("decl").t("enum", nm).sp().t("{").h("in")
        k = rng.range(1, 3)
        prefix = nm.upper()
        for i in range(k):
            s.h("nl").h("decl").t("%s_V%d" % (prefix, i), "=", str(i))
            self.compact_options("enumvalue", syntax)
            s.no().t(";").h("tc")
        if rng.chance(1, 4):
            s.h("nl").h("decl").t("reserved").sp().t(str(rng.range(10, 20))).no().t(",").sp().t(str(rng.range(30, 40)), "to", "max").no().t(";").h("tc")
        s.h("de").h("nl").t("}").h("tc")
        self.enums.append(scope + nm if scope else nm)
        return nm

    def message(self, syntax, scope, depth=0):
        s, rng = self.s, self.rng
        nm = self.name("M")
        full = scope + nm
        s.h("decl").t("message", nm).sp().t("{")
        body = rng.range(0, 2 + self.size)
        if body == 0:
            if rng.chance(1, 2):
                s.no().t("}").h("tc")
                self.msgs.append(full)
                return nm
        s.h("in")
        num = 0
        used = set()
        for _ in range(body):
            s.h("nl")
            num += rng.range(1, 3)
            k = rng.below(12)
            if k < 6:
                self.field(syntax, num)
            elif k == 6:
                self.map_field(num)
            elif k == 7 and depth < 2:
                self.message(syntax, full + ".", depth + 1)
            elif k == 8:
                self.enum(syntax, full + ".")
            elif k == 9:
                s.h("decl").t("oneof", self.name("o")).sp().t("{").h("in")
                for _ in range(rng.range(1, 2)):
                    num += 1
                    s.h("nl")
                    self.field(syntax, num, in_oneof=True)
                s.h("de").h("nl").t("}").h("tc")
            elif k == 10:
                s.h("decl").t("reserved").sp().t(str(num * 100 + 1000)).no().t(",").sp().t(str(num * 100 + 1010), "to", str(num * 100 + 1020)).no().t(";").h("tc")
            elif "opt" in used:
                self.field(syntax, num)
            elif self.custom and rng.chance(1, 2):
                used.add("opt")
                s.h("decl").t("option").sp().t("(").no().t("mopt").no().t(")").sp().t("=").sp()
                self.string("mo%d" % rng.below(100), parts=rng.choice([1, 2]))
                s.no().t(";").h("tc")
            else:
                used.add("opt")
                s.h("decl").t("option", "deprecated", "=", rng.choice(["true", "false"])).no().t(";").h("tc")
        s.h("de").h("nl").t("}").h("tc")
        self.msgs.append(full)
        return nm

    def service(self):
        s, rng = self.s, self.rng
        if not self.msgs:
            return
        s.h("decl").t("service", self.name("S")).sp().t("{").h("in")
        for _ in range(rng.range(1, 3)):
            s.h("nl").h("decl").t("rpc", self.name("R")).no().t("(").no()
            if rng.chance(1, 4):
                s.t("stream").sp()
            self.path(rng.choice(self.msgs))
            s.no().t(")").sp().t("returns").sp().t("(").no()
            if rng.chance(1, 4):
                s.t("stream").sp()
            self.path(rng.choice(self.msgs))
            s.no().t(")")
            if rng.chance(1, 3):
                s.sp().t("{")
                if rng.chance(2, 3):
                    s.h("in").h("nl").h("decl").t("option", "deprecated", "=", "true").no().t(";").h("tc").h("de").h("nl")
                s.t("}").h("tc")
            else:
                s.no().t(";").h("tc")
        s.h("de").h("nl").t("}").h("tc")

    def custom_defs(self, syntax):
        """Meta + extensions of the descriptor options used by the generated options"""
        s = self.s
        lab = "optional " if syntax == "proto2" else ""
        s.h("decl").t("message", "Meta").sp().t("{").h("in")
        for line in ["%sint32 a = 1" % lab, "%sstring b = 2" % lab, "%sMeta nested = 3" % lab, "repeated int32 r = 4"]:
            s.h("nl").h("decl").t(*line.split(" ")).no().t(";").h("tc")
        s.h("de").h("nl").t("}").h("tc")
        for target, exts in [("FileOptions", ["string fopt = 50001", "Meta fmsg = 50002"]),
                             ("MessageOptions", ["string mopt = 50001"]),
                             ("FieldOptions", ["string fld = 50001", "Meta fldm = 50002"]),
                             ("EnumValueOptions", ["string evl = 50001"])]:
            s.h("nl").h("decl").t("extend").sp()
            self.path("google.protobuf." + target)
            s.sp().t("{").h("in")
            for e in exts:
                s.h("nl").h("decl").t(*((lab + e).split(" "))).no().t(";").h("tc")
            s.h("de").h("nl").t("}").h("tc")

    # ---- whole file
    def file(self):
        s, rng = self.s, self.rng
        syntax = rng.choice(["proto2", "proto3", "proto3"])
        self.custom = (not self.flat) and rng.chance(1, 2)
        header = []     # closures, one per header declaration (after syntax)

        def d_syntax():
            s.h("decl").t("syntax", "=").sp().t('"%s"' % syntax).no().t(";").h("tc")

        pkg = ""
        if rng.chance(2, 3):
            pkg = rng.choice(["a", "a.b", "foo.bar.baz"])

            def d_package():
                s.h("decl").t("package").sp()
                self.path(pkg)
                s.no().t(";").h("tc")
            header.append(d_package)
        imports = rng.shuffle(STD_IMPORTS)[:rng.range(0, 4)]
        if self.custom:
            imports.append("google/protobuf/descriptor.proto")
            imports = rng.shuffle(imports)
        self.std_types = [STD_TYPES[i] for i in imports if i in STD_TYPES]
        for imp in imports:
            mod = rng.choice(["", "", "", "public", "weak"])

            def d_import(imp=imp, mod=mod):
                s.h("decl").t("import").sp()
                if mod:
                    s.t(mod).sp()
                self.string(imp, parts=1 if rng.chance(5, 6) else 2)
                s.no().t(";").h("tc")
            header.append(d_import)
        fopts = []
        if rng.chance(1, 2):
            fopts.append(("java_package", lambda: self.string("com.example.p%d" % rng.below(10), parts=rng.choice([1, 1, 2, 3]))))
        if rng.chance(1, 3):
            fopts.append(("java_multiple_files", lambda: s.t("true")))
        if rng.chance(1, 3):
            fopts.append(("optimize_for", lambda: s.t(rng.choice(["SPEED", "CODE_SIZE"]))))
        if rng.chance(1, 3):
            fopts.append(("go_package", lambda: self.string("example.com/p;p", parts=rng.choice([1, 2]))))
        if self.custom and rng.chance(1, 2):
            fopts.append(("(fopt)", lambda: self.string("fo%d" % rng.below(100), parts=rng.choice([1, 2, 3]))))
        if self.custom and self.literals and rng.chance(1, 2):
            fopts.append(("(fmsg)", lambda: self.literal()))
        for k, v in rng.shuffle(fopts):
            def d_option(k=k, v=v):
                s.h("decl").t("option").sp()
                if k.startswith("("):
                    s.t("(").no().t(k[1:-1]).no().t(")")
                else:
                    s.t(k)
                s.sp().t("=").sp()
                v()
                s.no().t(";").h("tc")
            header.append(d_option)
        body = []
        if not self.flat:
            if self.custom:
                body.append(lambda: self.custom_defs(syntax))
            for _ in range(rng.range(1, 1 + self.size)):
                k = rng.below(6)
                if k < 4:
                    body.append(lambda: self.message(syntax, ""))
                elif k == 4:
                    body.append(lambda: self.enum(syntax, ""))
                else:
                    body.append(lambda: self.service())
            if rng.chance(1, 6):
                body.append(lambda: s.h("decl").t(";"))
        decls = header + body
        if self.shuffle_header:
            # imports and options are legal anywhere at the top level; the types a message uses must
            # only be declared somewhere, so any order of the declarations is a valid file
            decls = rng.shuffle(decls)
        first = True
        d_syntax()
        for d in decls:
            s.h("nl")
            d()
        s.h("eof")
        return s.items


# ------------------------------------------------------------------ renderers
def _own_line_comment(rng):
    return rng.choice(["// note %d" % rng.below(100), "// TODO", "/* block %d */" % rng.below(100),
                       "/*\n * multi\n * line\n */"])


def render_plain(items, rng, comments=True):
    out = []
    depth = 0
    ind = lambda: "  " * depth
    ndecl = 0
    for kind, x in items:
        if kind == "t":
            out.append(x)
            continue
        if x == "sp":
            out.append(" ")
        elif x in ("no", "co_open", "co_close", "lit_open", "lit_close"):
            pass
        elif x in ("co_sep", "lit_nl", "cat"):
            out.append(" ")
        elif x == "nl":
            out.append("\n" + ind())
        elif x == "in":
            depth += 1
        elif x == "de":
            depth -= 1
        elif x == "decl":
            ndecl += 1
            if ndecl > 1 and comments and rng.chance(1, 6) and out and out[-1] == "\n" + ind():
                out[-1] = "\n\n" + ind()            # blank line before the declaration
            if comments and rng.chance(1, 6):
                c = _own_line_comment(rng).replace("\n", "\n" + ind())
                out.append(c + "\n" + ind())
        elif x == "tc":
            if comments and rng.chance(1, 8):
                out.append(" // trailing %d" % rng.below(100))
        elif x == "eof":
            out.append("\n")
    return "".join(out)


GAPS_WS = ["", " ", "  ", "\t", "\n", "\n\n", "\r\n", "\n  ", "   \n", "\n\t", " \t "]
GAPS_CMT = [" /* c */ ", "/*c*/", "/* c */\n", " // c\n", "// c\n  ", "\n// c\n", "\n  // c\n  ", "\n\n  // c\n\n  ",
            "/* a\n * b\n */", " /* x */ /* y */ ", "\n/* own */\n", " // c1\n // c2\n", "\n\n/* d */\n\n", "//\n", "/**/"]
EOF_TAILS = ["", "", "\n\n", "  ", "\n  ", "// end", "\n// end", "/* end */", "\n\n\n", "\t", "\r\n", "\n// end\n\n", " /* e */ \n"]


def render_adversarial(items, rng, intensity=4, comment_share=2):
    """intensity: a gap deviates from the plain layout with probability intensity/16"""
    out = []
    depth = 0
    ind = lambda: "  " * depth
    pending = None       # gap text waiting for the next token

    def plain_gap(x):
        if x == "sp" or x in ("co_sep", "lit_nl", "cat"):
            return " "
        if x == "nl":
            return "\n" + ind()
        return ""
    toks = [i for i, it in enumerate(items) if it[0] == "t"]
    gap = ""
    prev_tok = None
    for kind, x in items:
        if kind == "h":
            if x == "in":
                depth += 1
                continue
            if x == "de":
                depth -= 1
                continue
            if x == "eof":
                g = gap
                if rng.below(16) < max(intensity, 4):
                    g += rng.choice(EOF_TAILS)
                else:
                    g += "\n"
                out.append(g)
                gap = ""
                continue
            if rng.below(16) < intensity:
                if rng.below(4) < comment_share:
                    gap += rng.choice(GAPS_CMT)
                else:
                    gap += rng.choice(GAPS_WS)
            else:
                gap += plain_gap(x)
            continue
        # token: make sure the gap separates it from the previous token where needed
        if prev_tok is not None:
            a, b = prev_tok[-1:], x[:1]
            if gap == "" and a.encode()[0] in WORD and b.encode()[0] in WORD and not (a in "\"'" or b in "\"'") :
                gap = " "
            if gap == "" and a in "\"'" and b in "\"'":
                gap = rng.choice(["", " "])
            if gap == "" and a == "/" or gap == "" and b == "/":
                gap = " "
        out.append(gap)
        out.append(x)
        gap = ""
        prev_tok = x
    return "".join(out)


# ------------------------------------------------------------------ block comments of arbitrary shape
# The formatter rewrites the INTERIOR of a multi-line block comment (printer.emitBlockComment: common
# indent stripped and re-added by dom.Indent in the Default preset, prefix / plain normalisation in
# the Legacy preset), so the shape of the comment is an input dimension of its own: indentation of
# every line (spaces, tabs, mixed; deeper or shallower than its neighbours), empty and
# whitespace-only lines of any width, `*` / other prefix characters or none, text on the opening and
# on the closing line, trailing white space, LF / CRLF.
BC_WS = ["", " ", "  ", "   ", "    ", "      ", "        ", "\t", "\t\t", " \t", "  \t ", "\t  ", "   \t", "         "]
BC_FIRST = ["/*", "/*", "/**", "/* text", "/*text", "/* ", "/*\t", "/** doc", "/*=", "/*\t\ttext"]
BC_STAR = ["* text", "*", "* more", "*\ttab", "** x", "*text", "*  deeper"]
BC_TEXT = ["text", "more text here", "1. item", "x", "text\twith tab"]
BC_BODY = BC_STAR + BC_TEXT + ["= text", "- item", "# h", "=", "+-+", "| cell |", "\\ x", "@tag v"]
BC_CLOSE = ["*/", "*/", "*/", "text */", "**/", "* text */", "= */", "x*/"]


def gen_block_comment(rng, eol="\n"):
    """One block comment, multi-line in all but 1 of 12 draws.  No shape is privileged: every line
    draws its own indentation (the common one, the common one plus something, or anything), one line
    in four is empty or consists of white space only - of any width, so it may be shallower or deeper
    than every other line - and the closing line may carry text."""
    if rng.chance(1, 12):
        return rng.choice(["/* c */", "/**/", "/*\tc\t*/", "/** d */", "/* a * b */", "/*c*/"])
    style = rng.below(4)       # 0 every line starts with `*`, 1 plain text, 2/3 anything
    base = rng.choice(BC_WS)

    def indent():
        k = rng.below(5)
        if k < 2:
            return base
        if k == 2:
            return base + rng.choice([" ", "  ", "\t", "    "])
        if k == 3 and base:
            return base[:rng.below(len(base))]
        return rng.choice(BC_WS)

    def body():
        if style == 0:
            return rng.choice(BC_STAR)
        if style == 1:
            return rng.choice(BC_TEXT)
        return rng.choice(BC_BODY)
    lines = [rng.choice(BC_FIRST)]
    for _ in range(rng.range(0, 5)):
        k = rng.below(8)
        if k == 0:
            lines.append("")
        elif k == 1:
            lines.append(rng.choice(BC_WS))
        else:
            lines.append(indent() + body() + (rng.choice([" ", "\t", "  "]) if rng.chance(1, 6) else ""))
    close = rng.choice(BC_CLOSE)
    if style == 0 and rng.chance(1, 2):
        close = "*/"
    lines.append(indent() + close)
    return eol.join(lines)


def render_blockcomments(items, rng, share=4, tight=False, limit=None):
    """The plain layout (render_plain) with block comments of arbitrary shape in every position a
    comment can take at the boundaries of declarations: first in the file, on its own lines before a
    declaration (top level, in a body, in a nested body; at the declaration's indentation or not;
    attached, or detached by a blank line before / after; two in a row), trailing a complete
    declaration on its line, last in a body before the closing brace, last in the file (with or
    without a final line break).  With tight=True also: after an opening brace, on the line of the
    next declaration, and - rarely - between two tokens of a declaration (failures of such files are
    attributed to the comment-on-same-line / block-comment-inside-declaration classes).  Line ends
    are LF, or CRLF in one file of eight (one comment in sixteen disagrees with its file).
    Returns (text, number of comments placed); at least one is placed, at most `limit`."""
    out = []
    depth = 0
    eol = "\r\n" if rng.chance(1, 8) else "\n"
    ind = lambda: "  " * depth
    placed = [0]

    def cm():
        placed[0] += 1
        e = eol
        if rng.chance(1, 16):
            e = "\n" if eol == "\r\n" else "\r\n"
        return gen_block_comment(rng, e)

    def hit(num):
        return rng.below(4 * num) < share and (limit is None or placed[0] < limit)
    ndecl = 0
    for i, (kind, x) in enumerate(items):
        if kind == "t":
            out.append(x)
            continue
        if x == "sp":
            if tight and rng.below(600) < share and (limit is None or placed[0] < limit):
                out.append(rng.choice([" ", "", eol + ind()]) + cm() + rng.choice([" ", "", eol + ind()]))
            else:
                out.append(" ")
        elif x in ("no", "co_open", "co_close", "lit_open", "lit_close"):
            pass
        elif x in ("co_sep", "lit_nl", "cat"):
            out.append(" ")
        elif x == "nl":
            if out and out[-1] == "{" and items[i + 1] == ("t", "}"):
                continue        # an empty body is written `{}`: `{` line-end `}` with any line end but a
                                # bare LF is the known empty-body finding (class irregular-whitespace)
            out.append(eol + ind())
        elif x == "in":
            depth += 1
            if tight and hit(12):
                out.append(rng.choice([" ", ""]) + cm())
        elif x == "de":
            if hit(8) and not (out and out[-1] == "{"):
                out.append(eol + rng.choice([ind(), ind(), "", ind() + "  ", "\t"]) + cm())
            depth -= 1
        elif x == "decl":
            ndecl += 1
            lead = ndecl > 1 and bool(out) and out[-1] == eol + ind()
            if ndecl > 1 and not lead:
                continue        # the declaration does not start a line of its own (never in this layout)
            if not hit(3 if ndecl > 1 else 5):
                if lead and rng.chance(1, 8):
                    out[-1] = eol + eol + ind()
                continue
            k = rng.below(12)
            at = ind() if rng.chance(3, 4) else rng.choice(["", "  ", "    ", "\t", " ", ind() + "  ", ind() + "\t"])
            if lead:
                out[-1] = eol + (eol if k in (6, 7) else "")     # a blank line before the comment
            c = cm()
            if k == 11 and tight:
                out.append(at + c + rng.choice([" ", " ", ""]))                   # on the declaration's line
            elif k in (7, 8, 9):
                out.append(at + c + eol + eol + ind())                           # detached
            elif k == 10 and (limit is None or placed[0] < limit):
                out.append(at + c + eol + at + cm() + eol + ind())               # two comments in a row
            else:
                out.append(at + c + eol + ind())
        elif x == "tc":
            if hit(10):
                out.append(rng.choice([" ", " ", "", "  ", "\t"]) + cm())
            elif rng.chance(1, 24):
                out.append(" // trailing %d" % rng.below(100) + rng.choice(["", " ", "\t"]))
        elif x == "eof":
            if hit(4) or not placed[0]:
                out.append(eol + rng.choice(["", "", eol, "  "]) + cm() + rng.choice([eol, eol, "", eol + eol]))
            else:
                out.append(eol)
    return "".join(out), placed[0]


def gen_source(rng, stratum):
    """stratum: plain | plain-nocomment | shuffled-plain | plain-blockcomments | flat-adversarial |
    adversarial.  Returns (text, meta)."""
    if stratum == "plain-blockcomments":
        g = Gen(rng, size=rng.range(1, 3), shuffle_header=rng.chance(1, 5))
        text, n = render_blockcomments(g.file(), rng, share=rng.range(2, 6), tight=rng.chance(1, 3))
        return text, {"stratum": stratum, "comments": n}
    if stratum == "plain-onecomment":
        # exactly one block comment in the file, at a declaration boundary (the comment of the formatted output
        # can be paired with it: correspondence with the model of emitBlockComment)
        g = Gen(rng, size=rng.range(1, 2), shuffle_header=rng.chance(1, 5))
        text, n = render_blockcomments(g.file(), rng, share=rng.range(1, 3), limit=1)
        return text, {"stratum": stratum, "comments": n}
    if stratum == "plain":
        g = Gen(rng, size=rng.range(1, 4))
        return render_plain(g.file(), rng), {"stratum": stratum}
    if stratum == "plain-nocomment":
        g = Gen(rng, size=rng.range(1, 4))
        return render_plain(g.file(), rng, comments=False), {"stratum": stratum}
    if stratum == "shuffled-plain":
        g = Gen(rng, size=rng.range(1, 3), shuffle_header=True)
        return render_plain(g.file(), rng), {"stratum": stratum}
    if stratum == "flat-adversarial":
        g = Gen(rng, flat=True)
        return render_adversarial(g.file(), rng, intensity=rng.range(2, 10)), {"stratum": stratum}
    if stratum == "adversarial":
        g = Gen(rng, size=rng.range(1, 3), shuffle_header=rng.chance(1, 4))
        return render_adversarial(g.file(), rng, intensity=rng.range(1, 8), comment_share=rng.range(0, 3)), {"stratum": stratum}
    raise ValueError(stratum)


# ------------------------------------------------------------------ analysis of a token tree (harness dump)
# token classes of the verif hook: 0 space, 1 space with newline, 2 line comment, 3 block comment,
# 4 unrecognized, 5 `;`, 6 `,`, 7 `=`, 8 other leaf, 9 (...), 10 [...], 11 {...}, 12 <...>, 13 fused string
def _txt(t):
    return bytes.fromhex(t["t"])


def scope_kind(t, parent_kind, prev, prev2):
    """syntactic role of the fused token t (a guess from its neighbours; only used to name classes)"""
    c = t["c"]
    pt = _txt(prev) if prev is not None else b""
    if c == 13:
        return "string"
    lit = parent_kind in ("dict", "array", "copts")
    if c == 11:
        if lit or (prev is not None and prev["c"] == 7):
            return "dict"
        return "body"
    if c == 12:
        return "dict" if lit else "targs"
    if c == 10:
        if parent_kind == "dict":
            return "array" if pt == b":" else "extkey"
        if parent_kind in ("array",) or (prev is not None and prev["c"] == 7):
            return "array"
        return "copts"
    if c == 9:
        if parent_kind in ("body", "file") and (pt == b"returns" or (prev2 is not None and _txt(prev2) == b"rpc")):
            return "sig"
        return "extpath"
    return "other"


INDENTING = ("body", "dict", "copts", "sig")


def analyse(tree, att, det, src=b"", extra=None):
    """Features of a source that trigger the known round-trip defects, from the hook dump.
    extra (a dict) receives `sep_leading`: the ids of the trivia attached as leading to the separators of
    message literals (round-trip mode as it is never prints those separators, nor their leading trivia)."""
    F = set()
    sep_leading = []
    dict_seps = []
    stray = [False]
    # offsets: the leaves tile the text in stream order
    off = [0]
    end_of = {}

    def place(ts):
        for t in ts:
            off[0] += len(_txt(t))
            if t["c"] >= 9:
                place(t["ch"])
                off[0] += len(bytes.fromhex(t["ct"]))
                end_of[t["id"]] = off[0]
    place(tree or [])

    def col(o):
        return o - (src.rfind(b"\n", 0, o) + 1)
    A = {a["id"]: a for a in att or []}
    D = {d["id"]: d for d in det or []}
    kept = set()
    for a in A.values():
        kept.update(a["l"]); kept.update(a["t"])
    for d in D.values():
        for s in d["slots"] or []:
            kept.update(s)
    cls = {}
    info = {"gaps": []}

    def walk(ts, kind, depth, scope_id):
        prev = prev2 = None
        run = []
        solids = [t for t in ts if t["c"] > 4]
        if kind in ("file", "body"):
            lit = [t["c"] == 8 and _txt(t)[:1] in b"0123456789.\"'" for t in solids]
            if any(lit[i] and lit[i + 1] and lit[i + 2] for i in range(len(lit) - 2)):
                stray[0] = True
        for t in ts:
            cls[t["id"]] = t["c"]
            if t["c"] <= 4:
                run.append(t)
                if t["id"] not in kept:
                    F.add("trivia-inside-concatenated-string-dropped" if kind == "string" else "trivia-dropped-before-closer")
                continue
            info["gaps"].append((run, depth, t))
            nl_before = any(x["c"] == 1 or b"\n" in _txt(x) for x in run)
            run = []
            if kind == "dict" and t["c"] in (5, 6):
                F.add("roundtrip-drops-message-literal-separator")
                sep_leading.extend(A.get(t["id"], {"l": []})["l"])
                dict_seps.append(_txt(t))
            if t["c"] >= 9:
                k2 = scope_kind(t, kind, prev, prev2)
                if t["id"] not in A:
                    F.add("roundtrip-displaces-trivia-at-bracket-after-separator")
                d2 = depth + (1 if k2 in INDENTING else 0)
                has_nl = walk(t["ch"], k2, d2, t["id"])
                # the printer wraps these in a dom group that breaks when it holds a newline (the
                # leading trivia of the open bracket is inside it) or is too wide (the layout pass over-estimates columns; 60 is a safe bound)
                if k2 in ("copts", "sig") and (has_nl or nl_before or col(end_of.get(t["id"], 0)) > 60):
                    F.add("roundtrip-inserts-line-break-before-closing-bracket")
                dd = D.get(t["id"], {"slots": []})
                slots = dd["slots"] or []
                if k2 != "body" and any(len(s) > 0 for s in slots[1:]):
                    F.add("roundtrip-misplaces-detached-trivia-in-literal")
                    for s in slots[1:]:
                        sep_leading.extend(s)      # emitted at the wrong element or not at all
                if k2 == "body":
                    sol = [x for x in t["ch"] if x["c"] > 4]
                    pend = list(slots[-1]) if slots else []
                    if sol:
                        last = sol[-1]
                        pend = list(A.get(last.get("close", last["id"]), {"t": []})["t"]) + pend
                    else:
                        pend = [i for s in slots for i in s]
                    if any(cls.get(i) in (2, 3) for i in pend):
                        F.add("roundtrip-moves-comment-before-closing-brace")
                # the run before the close token
                tail = []
                for x in reversed(t["ch"]):
                    if x["c"] <= 4:
                        tail.insert(0, x)
                    else:
                        break
                info["gaps"].append((tail, depth, {"c": t["c"], "close_of": t["id"]}))
            prev2, prev = prev, t
        return any(x["c"] == 1 or b"\n" in _txt(x) for x in ts) or any(
            (x["c"] >= 9 and _has_nl(x)) for x in ts)

    def _has_nl(x):
        return any(y["c"] == 1 or b"\n" in _txt(y) or (y["c"] >= 9 and _has_nl(y)) for y in x["ch"])

    walk(tree or [], "file", 0, 0)
    if extra is not None:
        extra["sep_leading"] = sep_leading
        extra["cls"] = cls
        extra["dict_seps"] = dict_seps
        extra["stray_literals"] = stray[0]
    for run, depth, nxt in info["gaps"]:
        if run and depth >= 1 and all(x["c"] == 1 and _txt(x) == b"\n" for x in run):
            F.add("roundtrip-reindents-unindented-line")
    return F


def eof_features(src, tree):
    """src: bytes.  The last chunk the printer pushes is the trivia after the last token of the file."""
    F = set()
    if not src.endswith(b"\n"):
        F.add("roundtrip-appends-final-newline")
    tail = b""
    for t in reversed(tree or []):
        if t["c"] <= 4:
            tail = _txt(t) + tail
        else:
            break
    if tail and (tail == b" " * len(tail) or (tail == b"\n" * len(tail) and len(tail) >= 2)):
        F.add("roundtrip-normalizes-whitespace-at-eof")
    return F


# ------------------------------------------------------------------ C31: what format mode may change
def solid_erased(tree):
    """[(offset, text)] of the non-skippable tokens in stream order, with the changes format mode makes
    on purpose erased: separators and colons of message literals, angle brackets of message literals
    spelled as braces, empty declarations inside bodies."""
    out = []
    off = [0]

    def walk(ts, kind):
        prev = prev2 = None
        prev_kind = None
        for t in ts:
            start = off[0]
            off[0] += len(_txt(t))
            if t["c"] <= 4:
                continue
            tx = _txt(t)
            if t["c"] >= 9:
                k2 = scope_kind(t, kind, prev, prev2)
                ot, ct = tx, bytes.fromhex(t["ct"])
                if k2 == "dict" and t["c"] == 12:
                    ot, ct = b"{", b"}"
                out.append((start, ot))
                walk(t["ch"], k2)
                out.append((off[0], ct))
                off[0] += len(bytes.fromhex(t["ct"]))
                prev2, prev, prev_kind = prev, t, k2
                continue
            drop = False
            if kind == "dict" and (t["c"] in (5, 6) or tx == b":"):
                drop = True
            if kind == "body" and t["c"] == 5 and (prev is None or prev["c"] == 5 or (prev["c"] >= 9 and prev_kind == "body")):
                drop = True
            if not drop:
                out.append((start, tx))
            prev2, prev, prev_kind = prev, t, None
    walk(tree or [], "file")
    return out


def comment_features(tree):
    """where comments sit relative to the declarations (classes of the C31 known findings)"""
    F = set()

    def walk(ts, kind):
        prev = prev2 = None
        prev_kind = None
        run = []
        for t in list(ts) + [None]:
            if t is not None and t["c"] <= 4:
                run.append(t)
                continue
            has_lc = any(x["c"] == 2 for x in run)
            has_bc = any(x["c"] == 3 for x in run)
            if has_lc or has_bc:
                boundary_prev = prev is None or prev["c"] == 5 or (prev["c"] == 11 and prev_kind == "body")
                first_c = next(i for i, x in enumerate(run) if x["c"] in (2, 3))
                nl_before = any(x["c"] == 1 for x in run[:first_c])
                last_c = max(i for i, x in enumerate(run) if x["c"] in (2, 3))
                nl_after = any(x["c"] == 1 for x in run[last_c + 1:])
                if kind in ("file", "body") and boundary_prev:
                    if prev is None and kind == "body" and not nl_before:
                        pos = "same-line"
                    elif nl_before or prev is None:
                        pos = "own-line" if (nl_after or t is None) else "same-line"
                    else:
                        pos = "trailing" if (nl_after or t is None) else "same-line"
                else:
                    pos = "inside"
                F.add(("LC:" if has_lc else "BC:") + pos)
                if has_lc and has_bc:
                    F.add("BC:" + pos)
            run = []
            if t is not None:
                k2 = None
                if t["c"] >= 9:
                    k2 = scope_kind(t, kind, prev, prev2)
                    walk(t["ch"], k2)
                prev2, prev, prev_kind = prev, t, k2
    walk(tree or [], "file")
    return F


def layout_class(tree, stratum, decl_info=None):
    """the syntactic class a C31 failure is attributed to (first match)"""
    F = comment_features(tree)
    if "LC:inside" in F:
        return "line-comment-inside-declaration"
    if "BC:inside" in F:
        return "block-comment-inside-declaration"
    if "LC:same-line" in F or "BC:same-line" in F:
        return "comment-on-same-line-as-next-declaration"
    if any(d.get("empty") for d in decl_info or []):
        return "empty-declaration"          # a lone `;` at file scope
    if (stratum.startswith("plain") or stratum == "shuffled-plain") and not _cr_in_whitespace(tree):
        return "plain-layout"
    return "irregular-whitespace"           # includes files with CRLF line ends


def _cr_in_whitespace(ts):
    for t in ts or []:
        if t["c"] <= 1 and b"\r" in _txt(t):
            return True
        if t["c"] >= 9 and _cr_in_whitespace(t["ch"]):
            return True
    return False
