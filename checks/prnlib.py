"""Shared by checks/C30.py and checks/C31.py: generator of .proto sources with a controlled layout.

A source is generated as a list of items: ("t", text) is a syntactic token, ("h", hint) a gap between
two tokens.  Two renderers fill the gaps:

  plain        the layout a formatter would produce: one declaration per line, two-space indent,
               comments only on their own lines before a declaration or trailing a complete
               declaration, blank lines only between declarations, final newline.
  adversarial  every gap may be replaced by arbitrary trivia (spaces, tabs, newlines, CRLF, block and
               line comments, blank lines), the file may lack its final newline or end in
               whitespace / a comment, concatenated strings get trivia between their parts.

Hints: "sp" one space, "no" nothing, "nl" line break + indentation, "in"/"de" indentation level,
"decl" start of a declaration (own-line comment / blank-line slot), "tc" trailing-comment slot after
a complete declaration, "eof" end of file.

The generated files are valid for both the experimental parser and the stable compiler: names are
unique, references resolve, custom options are declared in the file itself.
"""

WORD = set(b"abcdefghijklmnopqrstuvwxyzABCDEFGHIJKLMNOPQRSTUVWXYZ0123456789_.\"'-+")

SCALARS = ["int32", "int64", "uint32", "uint64", "sint32", "sint64", "fixed32", "fixed64", "sfixed32",
           "sfixed64", "bool", "string", "bytes", "double", "float"]
STD_IMPORTS = ["google/protobuf/any.proto", "google/protobuf/timestamp.proto", "google/protobuf/duration.proto",
               "google/protobuf/empty.proto", "google/protobuf/wrappers.proto", "google/protobuf/struct.proto",
               "google/protobuf/field_mask.proto"]
STD_TYPES = {"google/protobuf/any.proto": "google.protobuf.Any", "google/protobuf/timestamp.proto": "google.protobuf.Timestamp",
             "google/protobuf/duration.proto": "google.protobuf.Duration", "google/protobuf/empty.proto": "google.protobuf.Empty",
             "google/protobuf/wrappers.proto": "google.protobuf.StringValue", "google/protobuf/struct.proto": "google.protobuf.Struct",
             "google/protobuf/field_mask.proto": "google.protobuf.FieldMask"}


class Src:
    def __init__(self):
        self.items = []

    def t(self, *texts):
        """tokens separated by single spaces"""
        for i, x in enumerate(texts):
            if i:
                self.items.append(("h", "sp"))
            self.items.append(("t", x))
        return self

    def h(self, hint):
        self.items.append(("h", hint))
        return self

    def sp(self):
        return self.h("sp")

    def no(self):
        return self.h("no")


class Gen:
    """One generated file. feature switches select the strata."""

    def __init__(self, rng, flat=False, size=3, literals=True, shuffle_header=False, empties=False):
        self.rng = rng
        self.empties = empties      # one message literal in three is empty (`{}` / `<>`)
        self.flat = flat
        self.size = size
        self.literals = literals
        self.shuffle_header = shuffle_header
        self.n = 0
        self.s = Src()
        self.msgs = []     # fully qualified-in-file names usable as field types
        self.enums = []

    def name(self, base):
        self.n += 1
        return "%s%d" % (base, self.n)

    # ---- pieces
    def string(self, text, parts=1):
        """a string literal, possibly written as several implicitly concatenated parts"""
        s = self.s
        if parts <= 1 or len(text) < parts:
            s.t('"%s"' % text)
            return
        cuts = sorted(set(self.rng.range(1, len(text) - 1) for _ in range(parts - 1))) if len(text) > 1 else []
        prev = 0
        first = True
        for c in cuts + [len(text)]:
            if not first:
                s.h("cat")
            s.t('"%s"' % text[prev:c])
            prev = c
            first = False

    def path(self, dotted):
        """a dotted name; components are separate tokens so that trivia can go between them"""
        s = self.s
        comps = dotted.split(".")
        for i, c in enumerate(comps):
            if i:
                s.no().t(".").no()
            s.t(c)

    def literal(self, depth=0):
        """message literal for the option type Meta"""
        s, rng = self.s, self.rng
        op, cl = ("{", "}") if depth == 0 or rng.chance(3, 5) else ("<", ">")
        s.t(op)
        fields = []
        if rng.chance(3, 4):
            fields.append("a")
        if rng.chance(1, 2):
            fields.append("b")
        if depth < 2 and rng.chance(1, 3):
            fields.append("nested")
        if rng.chance(1, 3):
            fields.append("r")
        if self.empties and rng.chance(1, 3):
            fields = []
        first = True
        for f in fields:
            s.h("lit_nl" if not first else "lit_open")
            first = False
            s.t(f)
            if f == "a":
                s.no().t(":").sp().t(str(rng.range(0, 99)))
            elif f == "b":
                s.no().t(":").sp()
                self.string("v%d" % rng.below(100), parts=rng.choice([1, 1, 2, 3]))
            elif f == "nested":
                if rng.chance(1, 2):
                    s.no().t(":")
                s.sp()
                self.literal(depth + 1)
            else:
                s.no().t(":").sp().t("[")
                k = rng.range(0, 3)
                for i in range(k):
                    if i:
                        s.no().t(",").sp()
                    else:
                        s.no()
                    s.t(str(rng.below(10)))
                s.no().t("]")
            sep = rng.choice(["", "", ",", ";"])
            if sep:
                s.no().t(sep)
        s.h("lit_close" if fields else "no")
        s.t(cl)

    def compact_options(self, kind, syntax):
        """[ ... ] after a field / enum value"""
        s, rng = self.s, self.rng
        opts = []
        if rng.chance(1, 3):
            opts.append(("deprecated", lambda: s.t(rng.choice(["true", "false"]))))
        if kind == "field" and rng.chance(1, 4):
            nm = "j%d" % rng.below(1000)
            opts.append(("json_name", lambda: self.string(nm, parts=rng.choice([1, 1, 2]))))
        if self.custom and rng.chance(1, 3):
            ext = {"field": "fld", "enumvalue": "evl"}[kind]
            opts.append(("(%s)" % ext, lambda: self.string("t%d" % rng.below(100), parts=rng.choice([1, 2, 3]))))
        if self.custom and self.literals and kind == "field" and rng.chance(1, 4):
            opts.append(("(fldm)", lambda: self.literal()))
        if not opts:
            return
        opts = rng.shuffle(opts)
        s.sp().t("[")
        for i, (k, v) in enumerate(opts):
            if i:
                s.no().t(",").h("co_sep")
            else:
                s.h("co_open")
            if k.startswith("("):
                s.t("(").no()
                self.path(k[1:-1])
                s.no().t(")")
            else:
                s.t(k)
            s.sp().t("=").sp()
            v()
        s.h("co_close").t("]")

    def field(self, syntax, num, in_oneof=False):
        s, rng = self.s, self.rng
        s.h("decl")
        label = ""
        if not in_oneof:
            if syntax == "proto2":
                label = rng.choice(["optional", "optional", "repeated", "required"])
            else:
                label = rng.choice(["", "", "", "repeated", "optional"])
        kind = rng.below(10)
        if kind < 6 or not (self.msgs or self.enums):
            ty = rng.choice(SCALARS)
        elif kind < 8 and self.msgs:
            ty = rng.choice(self.msgs)
        elif self.enums:
            ty = rng.choice(self.enums)
            if label == "required":
                label = "optional"
        else:
            ty = rng.choice(SCALARS)
        if self.std_types and rng.chance(1, 8):
            ty = rng.choice(self.std_types)
        if label:
            s.t(label).sp()
        self.path(ty)
        fname = self.name("f")
        s.sp().t(fname, "=", str(num))
        self.compact_options("field", syntax)
        s.no().t(";").h("tc")

    def map_field(self, num):
        s, rng = self.s, self.rng
        s.h("decl")
        s.t("map").no().t("<").no().t(rng.choice(["string", "int32", "int64", "bool"])).no().t(",").sp()
        s.t(rng.choice(SCALARS + (self.msgs[:1])))
        s.no().t(">").sp().t(self.name("m"), "=", str(num)).no().t(";").h("tc")

    def enum(self, syntax, scope):
        s, rng = self.s, self.rng
        nm = self.name("E")
        s.h("decl").t("enum", nm).sp().t("{").h("in")
        k = rng.range(1, 3)
        prefix = nm.upper()
        for i in range(k):
            s.h("nl").h("decl").t("%s_V%d" % (prefix, i), "=", str(i))
            self.compact_options("enumvalue", syntax)
            s.no().t(";").h("tc")
        if rng.chance(1, 4):
            s.h("nl").h("decl").t("reserved").sp().t(str(rng.range(10, 20))).no().t(",").sp().t(str(rng.range(30, 40)), "to", "max").no().t(";").h("tc")
        s.h("de").h("nl").t("}").h("tc")
        self.enums.append(scope + nm if scope else nm)
        return nm

    def message(self, syntax, scope, depth=0):
        s, rng = self.s, self.rng
        nm = self.name("M")
        full = scope + nm
        s.h("decl").t("message", nm).sp().t("{")
        body = rng.range(0, 2 + self.size)
        if body == 0:
            if rng.chance(1, 2):
                s.no().t("}").h("tc")
                self.msgs.append(full)
                return nm
        s.h("in")
        num = 0
        used = set()
        for _ in range(body):
            s.h("nl")
            num += rng.range(1, 3)
            k = rng.below(12)
            if k < 6:
                self.field(syntax, num)
            elif k == 6:
                self.map_field(num)
            elif k == 7 and depth < 2:
                self.message(syntax, full + ".", depth + 1)
            elif k == 8:
                self.enum(syntax, full + ".")
            elif k == 9:
                s.h("decl").t("oneof", self.name("o")).sp().t("{").h("in")
                for _ in range(rng.range(1, 2)):
                    num += 1
                    s.h("nl")
                    self.field(syntax, num, in_oneof=True)
                s.h("de").h("nl").t("}").h("tc")
            elif k == 10:
                s.h("decl").t("reserved").sp().t(str(num * 100 + 1000)).no().t(",").sp().t(str(num * 100 + 1010), "to", str(num * 100 + 1020)).no().t(";").h("tc")
            elif "opt" in used:
                self.field(syntax, num)
            elif self.custom and rng.chance(1, 2):
                used.add("opt")
                s.h("decl").t("option").sp().t("(").no().t("mopt").no().t(")").sp().t("=").sp()
                self.string("mo%d" % rng.below(100), parts=rng.choice([1, 2]))
                s.no().t(";").h("tc")
            else:
                used.add("opt")
                s.h("decl").t("option", "deprecated", "=", rng.choice(["true", "false"])).no().t(";").h("tc")
        s.h("de").h("nl").t("}").h("tc")
        self.msgs.append(full)
        return nm

    def service(self):
        s, rng = self.s, self.rng
        if not self.msgs:
            return
        s.h("decl").t("service", self.name("S")).sp().t("{").h("in")
        for _ in range(rng.range(1, 3)):
            s.h("nl").h("decl").t("rpc", self.name("R")).no().t("(").no()
            if rng.chance(1, 4):
                s.t("stream").sp()
            self.path(rng.choice(self.msgs))
            s.no().t(")").sp().t("returns").sp().t("(").no()
            if rng.chance(1, 4):
                s.t("stream").sp()
            self.path(rng.choice(self.msgs))
            s.no().t(")")
            if rng.chance(1, 3):
                s.sp().t("{")
                if rng.chance(2, 3):
                    s.h("in").h("nl").h("decl").t("option", "deprecated", "=", "true").no().t(";").h("tc").h("de").h("nl")
                s.t("}").h("tc")
            else:
                s.no().t(";").h("tc")
        s.h("de").h("nl").t("}").h("tc")

    def custom_defs(self, syntax):
        """Meta + extensions of the descriptor options used by the generated options"""
        s = self.s
        lab = "optional " if syntax == "proto2" else ""
        s.h("decl").t("message", "Meta").sp().t("{").h("in")
        for line in ["%sint32 a = 1" % lab, "%sstring b = 2" % lab, "%sMeta nested = 3" % lab, "repeated int32 r = 4"]:
            s.h("nl").h("decl").t(*line.split(" ")).no().t(";").h("tc")
        s.h("de").h("nl").t("}").h("tc")
        for target, exts in [("FileOptions", ["string fopt = 50001", "Meta fmsg = 50002"]),
                             ("MessageOptions", ["string mopt = 50001"]),
                             ("FieldOptions", ["string fld = 50001", "Meta fldm = 50002"]),
                             ("EnumValueOptions", ["string evl = 50001"])]:
            s.h("nl").h("decl").t("extend").sp()
            self.path("google.protobuf." + target)
            s.sp().t("{").h("in")
            for e in exts:
                s.h("nl").h("decl").t(*((lab + e).split(" "))).no().t(";").h("tc")
            s.h("de").h("nl").t("}").h("tc")

    # ---- whole file
    def file(self):
        s, rng = self.s, self.rng
        syntax = rng.choice(["proto2", "proto3", "proto3"])
        self.custom = (not self.flat) and (self.empties or rng.chance(1, 2))
        header = []     # closures, one per header declaration (after syntax)

        def d_syntax():
            s.h("decl").t("syntax", "=").sp().t('"%s"' % syntax).no().t(";").h("tc")

        pkg = ""
        if rng.chance(2, 3):
            pkg = rng.choice(["a", "a.b", "foo.bar.baz"])

            def d_package():
                s.h("decl").t("package").sp()
                self.path(pkg)
                s.no().t(";").h("tc")
            header.append(d_package)
        imports = rng.shuffle(STD_IMPORTS)[:rng.range(0, 4)]
        if self.custom:
            imports.append("google/protobuf/descriptor.proto")
            imports = rng.shuffle(imports)
        self.std_types = [STD_TYPES[i] for i in imports if i in STD_TYPES]
        for imp in imports:
            mod = rng.choice(["", "", "", "public", "weak"])

            def d_import(imp=imp, mod=mod):
                s.h("decl").t("import").sp()
                if mod:
                    s.t(mod).sp()
                self.string(imp, parts=1 if rng.chance(5, 6) else 2)
                s.no().t(";").h("tc")
            header.append(d_import)
        fopts = []
        if rng.chance(1, 2):
            fopts.append(("java_package", lambda: self.string("com.example.p%d" % rng.below(10), parts=rng.choice([1, 1, 2, 3]))))
        if rng.chance(1, 3):
            fopts.append(("java_multiple_files", lambda: s.t("true")))
        if rng.chance(1, 3):
            fopts.append(("optimize_for", lambda: s.t(rng.choice(["SPEED", "CODE_SIZE"]))))
        if rng.chance(1, 3):
            fopts.append(("go_package", lambda: self.string("example.com/p;p", parts=rng.choice([1, 2]))))
        if self.custom and rng.chance(1, 2):
            fopts.append(("(fopt)", lambda: self.string("fo%d" % rng.below(100), parts=rng.choice([1, 2, 3]))))
        if self.custom and self.literals and rng.chance(1, 2):
            fopts.append(("(fmsg)", lambda: self.literal()))
        for k, v in rng.shuffle(fopts):
            def d_option(k=k, v=v):
                s.h("decl").t("option").sp()
                if k.startswith("("):
                    s.t("(").no().t(k[1:-1]).no().t(")")
                else:
                    s.t(k)
                s.sp().t("=").sp()
                v()
                s.no().t(";").h("tc")
            header.append(d_option)
        body = []
        if not self.flat:
            if self.custom:
                body.append(lambda: self.custom_defs(syntax))
            for _ in range(rng.range(1, 1 + self.size)):
                k = rng.below(6)
                if k < 4:
                    body.append(lambda: self.message(syntax, ""))
                elif k == 4:
                    body.append(lambda: self.enum(syntax, ""))
                else:
                    body.append(lambda: self.service())
            if rng.chance(1, 6):
                body.append(lambda: s.h("decl").t(";"))
        decls = header + body
        if self.shuffle_header:
            # imports and options are legal anywhere at the top level; the types a message uses must
            # only be declared somewhere, so any order of the declarations is a valid file
            decls = rng.shuffle(decls)
        first = True
        d_syntax()
        for d in decls:
            s.h("nl")
            d()
        s.h("eof")
        return s.items


# ------------------------------------------------------------------ renderers
def _own_line_comment(rng):
    return rng.choice(["// note %d" % rng.below(100), "// TODO", "/* block %d */" % rng.below(100),
                       "/*\n * multi\n * line\n */"])


def render_plain(items, rng, comments=True):
    out = []
    depth = 0
    ind = lambda: "  " * depth
    ndecl = 0
    for kind, x in items:
        if kind == "t":
            out.append(x)
            continue
        if x == "sp":
            out.append(" ")
        elif x in ("no", "co_open", "co_close", "lit_open", "lit_close"):
            pass
        elif x in ("co_sep", "lit_nl", "cat"):
            out.append(" ")
        elif x == "nl":
            out.append("\n" + ind())
        elif x == "in":
            depth += 1
        elif x == "de":
            depth -= 1
        elif x == "decl":
            ndecl += 1
            if ndecl > 1 and comments and rng.chance(1, 6) and out and out[-1] == "\n" + ind():
                out[-1] = "\n\n" + ind()            # blank line before the declaration
            if comments and rng.chance(1, 6):
                c = _own_line_comment(rng).replace("\n", "\n" + ind())
                out.append(c + "\n" + ind())
        elif x == "tc":
            if comments and rng.chance(1, 8):
                out.append(" // trailing %d" % rng.below(100))
        elif x == "eof":
            out.append("\n")
    return "".join(out)


GAPS_WS = ["", " ", "  ", "\t", "\n", "\n\n", "\r\n", "\n  ", "   \n", "\n\t", " \t "]
GAPS_CMT = [" /* c */ ", "/*c*/", "/* c */\n", " // c\n", "// c\n  ", "\n// c\n", "\n  // c\n  ", "\n\n  // c\n\n  ",
            "/* a\n * b\n */", " /* x */ /* y */ ", "\n/* own */\n", " // c1\n // c2\n", "\n\n/* d */\n\n", "//\n", "/**/"]
EOF_TAILS = ["", "", "\n\n", "  ", "\n  ", "// end", "\n// end", "/* end */", "\n\n\n", "\t", "\r\n", "\n// end\n\n", " /* e */ \n"]


def render_adversarial(items, rng, intensity=4, comment_share=2):
    """intensity: a gap deviates from the plain layout with probability intensity/16"""
    out = []
    depth = 0
    ind = lambda: "  " * depth
    pending = None       # gap text waiting for the next token

    def plain_gap(x):
        if x == "sp" or x in ("co_sep", "lit_nl", "cat"):
            return " "
        if x == "nl":
            return "\n" + ind()
        return ""
    toks = [i for i, it in enumerate(items) if it[0] == "t"]
    gap = ""
    prev_tok = None
    for kind, x in items:
        if kind == "h":
            if x == "in":
                depth += 1
                continue
            if x == "de":
                depth -= 1
                continue
            if x == "eof":
                g = gap
                if rng.below(16) < max(intensity, 4):
                    g += rng.choice(EOF_TAILS)
                else:
                    g += "\n"
                out.append(g)
                gap = ""
                continue
            if rng.below(16) < intensity:
                if rng.below(4) < comment_share:
                    gap += rng.choice(GAPS_CMT)
                else:
                    gap += rng.choice(GAPS_WS)
            else:
                gap += plain_gap(x)
            continue
        # token: make sure the gap separates it from the previous token where needed
        if prev_tok is not None:
            a, b = prev_tok[-1:], x[:1]
            if gap == "" and a.encode()[0] in WORD and b.encode()[0] in WORD and not (a in "\"'" or b in "\"'") :
                gap = " "
            if gap == "" and a in "\"'" and b in "\"'":
                gap = rng.choice(["", " "])
            if gap == "" and a == "/" or gap == "" and b == "/":
                gap = " "
        out.append(gap)
        out.append(x)
        gap = ""
        prev_tok = x
    return "".join(out)


# ------------------------------------------------------------------ block comments of arbitrary shape
# The formatter rewrites the INTERIOR of a multi-line block comment (printer.emitBlockComment: common
# indent stripped and re-added by dom.Indent in the Default preset, prefix / plain normalisation in
# the Legacy preset), so the shape of the comment is an input dimension of its own: indentation of
# every line (spaces, tabs, mixed; deeper or shallower than its neighbours), empty and
# whitespace-only lines of any width, `*` / other prefix characters or none, text on the opening and
# on the closing line, trailing white space, LF / CRLF.
BC_WS = ["", " ", "  ", "   ", "    ", "      ", "        ", "\t", "\t\t", " \t", "  \t ", "\t  ", "   \t", "         "]
BC_FIRST = ["/*", "/*", "/**", "/* text", "/*text", "/* ", "/*\t", "/** doc", "/*=", "/*\t\ttext"]
BC_STAR = ["* text", "*", "* more", "*\ttab", "** x", "*text", "*  deeper"]
BC_TEXT = ["text", "more text here", "1. item", "x", "text\twith tab"]
BC_BODY = BC_STAR + BC_TEXT + ["= text", "- item", "# h", "=", "+-+", "| cell |", "\\ x", "@tag v"]
BC_CLOSE = ["*/", "*/", "*/", "text */", "**/", "* text */", "= */", "x*/"]


def gen_block_comment(rng, eol="\n"):
    """One block comment, multi-line in all but 1 of 12 draws.  No shape is privileged: every line
    draws its own indentation (the common one, the common one plus something, or anything), one line
    in four is empty or consists of white space only - of any width, so it may be shallower or deeper
    than every other line - and the closing line may carry text."""
    if rng.chance(1, 12):
        return rng.choice(["/* c */", "/**/", "/*\tc\t*/", "/** d */", "/* a * b */", "/*c*/"])
    style = rng.below(4)       # 0 every line starts with `*`, 1 plain text, 2/3 anything
    base = rng.choice(BC_WS)

    def indent():
        k = rng.below(5)
        if k < 2:
            return base
        if k == 2:
            return base + rng.choice([" ", "  ", "\t", "    "])
        if k == 3 and base:
            return base[:rng.below(len(base))]
        return rng.choice(BC_WS)

    def body():
        if style == 0:
            return rng.choice(BC_STAR)
        if style == 1:
            return rng.choice(BC_TEXT)
        return rng.choice(BC_BODY)
    lines = [rng.choice(BC_FIRST)]
    for _ in range(rng.range(0, 5)):
        k = rng.below(8)
        if k == 0:
            lines.append("")
        elif k == 1:
            lines.append(rng.choice(BC_WS))
        else:
            lines.append(indent() + body() + (rng.choice([" ", "\t", "  "]) if rng.chance(1, 6) else ""))
    close = rng.choice(BC_CLOSE)
    if style == 0 and rng.chance(1, 2):
        close = "*/"
    lines.append(indent() + close)
    return eol.join(lines)


def render_blockcomments(items, rng, share=4, tight=False, limit=None):
    """The plain layout (render_plain) with block comments of arbitrary shape in every position a
    comment can take at the boundaries of declarations: first in the file, on its own lines before a
    declaration (top level, in a body, in a nested body; at the declaration's indentation or not;
    attached, or detached by a blank line before / after; two in a row), trailing a complete
    declaration on its line, last in a body before the closing brace, last in the file (with or
    without a final line break).  With tight=True also: after an opening brace, on the line of the
    next declaration, and - rarely - between two tokens of a declaration (failures of such files are
    attributed to the comment-on-same-line / block-comment-inside-declaration classes).  Line ends
    are LF, or CRLF in one file of eight (one comment in sixteen disagrees with its file).
    Returns (text, number of comments placed); at least one is placed, at most `limit`."""
    out = []
    depth = 0
    eol = "\r\n" if rng.chance(1, 8) else "\n"
    ind = lambda: "  " * depth
    placed = [0]

    def cm():
        placed[0] += 1
        e = eol
        if rng.chance(1, 16):
            e = "\n" if eol == "\r\n" else "\r\n"
        return gen_block_comment(rng, e)

    def hit(num):
        return rng.below(4 * num) < share and (limit is None or placed[0] < limit)
    ndecl = 0
    for i, (kind, x) in enumerate(items):
        if kind == "t":
            out.append(x)
            continue
        if x == "sp":
            if tight and rng.below(600) < share and (limit is None or placed[0] < limit):
                out.append(rng.choice([" ", "", eol + ind()]) + cm() + rng.choice([" ", "", eol + ind()]))
            else:
                out.append(" ")
        elif x in ("no", "co_open", "co_close", "lit_open", "lit_close"):
            pass
        elif x in ("co_sep", "lit_nl", "cat"):
            out.append(" ")
        elif x == "nl":
            if out and out[-1] == "{" and items[i + 1] == ("t", "}"):
                continue        # an empty body is written `{}`: `{` line-end `}` with any line end but a
                                # bare LF is the known empty-body finding (class irregular-whitespace)
            out.append(eol + ind())
        elif x == "in":
            depth += 1
            if tight and hit(12):
                out.append(rng.choice([" ", ""]) + cm())
        elif x == "de":
            if hit(8) and not (out and out[-1] == "{"):
                out.append(eol + rng.choice([ind(), ind(), "", ind() + "  ", "\t"]) + cm())
            depth -= 1
        elif x == "decl":
            ndecl += 1
            lead = ndecl > 1 and bool(out) and out[-1] == eol + ind()
            if ndecl > 1 and not lead:
                continue        # the declaration does not start a line of its own (never in this layout)
            if not hit(3 if ndecl > 1 else 5):
                if lead and rng.chance(1, 8):
                    out[-1] = eol + eol + ind()
                continue
            k = rng.below(12)
            at = ind() if rng.chance(3, 4) else rng.choice(["", "  ", "    ", "\t", " ", ind() + "  ", ind() + "\t"])
            if lead:
                out[-1] = eol + (eol if k in (6, 7) else "")     # a blank line before the comment
            c = cm()
            if k == 11 and tight:
                out.append(at + c + rng.choice([" ", " ", ""]))                   # on the declaration's line
            elif k in (7, 8, 9):
                out.append(at + c + eol + eol + ind())                           # detached
            elif k == 10 and (limit is None or placed[0] < limit):
                out.append(at + c + eol + at + cm() + eol + ind())               # two comments in a row
            else:
                out.append(at + c + eol + ind())
        elif x == "tc":
            if hit(10):
                out.append(rng.choice([" ", " ", "", "  ", "\t"]) + cm())
            elif rng.chance(1, 24):
                out.append(" // trailing %d" % rng.below(100) + rng.choice(["", " ", "\t"]))
        elif x == "eof":
            if hit(4) or not placed[0]:
                out.append(eol + rng.choice(["", "", eol, "  "]) + cm() + rng.choice([eol, eol, "", eol + eol]))
            else:
                out.append(eol)
    return "".join(out), placed[0]


# ------------------------------------------------------------------ one `//` comment between two tokens of a declaration
CLOSERS = (";", ",", "]", "}", ">", ")")


def render_onelinecomment(items, rng):
    """The plain layout without comments, and exactly one `//` comment between two adjacent tokens of one
    declaration, the rest of the declaration continuing on the next line.  The gap is drawn in two steps so that
    rare shapes are not drowned by frequent ones: two draws in three take a gap whose NEXT token is a closing
    token or a separator (`;` `,` `]` `}` `>` `)`: what a `//` comment swallows when the formatter joins the
    lines), the class of the gap (kind of the token before x token after) is drawn uniformly among the classes
    the file has, then a gap of that class.  Returns (text, (token before, token after))."""
    toks = [i for i, it in enumerate(items) if it[0] == "t"]
    cands = {}
    for a, b in zip(toks, toks[1:]):
        hs = [items[k][1] for k in range(a + 1, b)]
        if not hs or any(h in ("nl", "decl", "tc", "eof", "in", "de") for h in hs):
            continue
        pa, nb = items[a][1], items[b][1]

        def kind(x):
            if x in ("{", "}", "[", "]", "(", ")", "<", ">", ";", ",", "=", ":", "."):
                return x
            return "string" if x[:1] in "\"'" else "word"
        empty = pa in ("}", "]", ">") and a >= 1 and items[toks[toks.index(a) - 1]][1] in ("{", "[", "<")
        cands.setdefault((kind(pa) + ("-empty" if empty else ""), kind(nb)), []).append(b)
    keys = sorted(cands)
    closing = [k for k in keys if k[1] in CLOSERS]
    if closing and rng.chance(2, 3):
        keys = closing
    at = None
    if keys:
        k = rng.choice(keys)
        at = rng.choice(cands[k])
    out = []
    depth = 0
    for i, (kind_, x) in enumerate(items):
        if kind_ == "t":
            if i == at:
                # drop the blank the plain gap may have put, then comment + line break + continuation indent
                while out and out[-1] == " ":
                    out.pop()
                out.append(rng.choice([" ", " ", "  ", ""]) + rng.choice(["// note %d" % rng.below(100), "// TODO", "//", "// a; b = {c} [d]"])
                           + rng.choice(["", "", " "]) + "\n" + "  " * depth + rng.choice(["", "  ", "    "]))
            out.append(x)
        elif x == "sp" or x in ("co_sep", "lit_nl", "cat"):
            out.append(" ")
        elif x == "nl":
            out.append("\n" + "  " * depth)
        elif x == "in":
            depth += 1
        elif x == "de":
            depth -= 1
        elif x == "eof":
            out.append("\n")
    return "".join(out), (k if at is not None else None)


# A catalogue of declaration forms: every bracket kind (message literal with braces / angle brackets, empty and not,
# nested, in arrays; array literal, empty and not; compact options with one / several entries; rpc signature and
# body; type arguments; extension paths), every value kind (word, number, signed number, string, concatenated
# string, literal), every terminator (`;` after a value / a literal / compact options / a range, `,` between array
# elements / compact options / ranges / literal fields, closing brackets).  lc_catalogue() puts ONE `//` comment
# into EVERY gap between two adjacent tokens of every form: exhaustive over the positions of the catalogue.
LC_PRE3 = """syntax = "proto3";
package a.b;
import "google/protobuf/descriptor.proto";
extend google.protobuf.FileOptions { M m = 50001; string fs = 50002; }
extend google.protobuf.FieldOptions { M fm = 50001; string fstr = 50002; }
extend google.protobuf.MessageOptions { M mm = 50001; }
extend google.protobuf.MethodOptions { M rm = 50001; }
extend google.protobuf.EnumValueOptions { M em = 50001; }
message M { repeated int32 a = 1; M n = 2; string s = 3; repeated M rn = 4; }
"""
LC_PRE2 = """syntax = "proto2";
package a.b;
import "google/protobuf/descriptor.proto";
extend google.protobuf.FileOptions { optional M m = 50001; optional string fs = 50002; }
extend google.protobuf.FieldOptions { optional M fm = 50001; optional string fstr = 50002; }
extend google.protobuf.MessageOptions { optional M mm = 50001; }
extend google.protobuf.MethodOptions { optional M rm = 50001; }
extend google.protobuf.EnumValueOptions { optional M em = 50001; }
message M { repeated int32 a = 1; optional M n = 2; optional string s = 3; repeated M rn = 4; }
"""
LC_SNIPPETS = [
    (3, 'option (m) = {};'), (3, 'option (m) = {a: 1};'), (3, 'option (m) = {a: [1, 2]};'), (3, 'option (m) = {a: []};'),
    (3, 'option (m) = {n: {}};'), (3, 'option (m) = {n {} a: 1};'), (3, 'option (m) = {n: <> s: "x"};'),
    (3, 'option (m) = {n {a: 1}, s: "x" "y"; a: 2};'), (3, 'option (m) = {rn: [{}, {a: 1}]};'), (3, 'option (m) = {a: [1, 2] a: 3 rn {}};'),
    (3, 'option (m).a = 1;'), (3, 'option (m).n.s = "x" "y";'), (3, 'option (m).n = {};'), (3, 'option (fs) = "x";'),
    (3, 'option java_package = "a" "b";'), (3, 'option java_multiple_files = true;'), (3, 'option optimize_for = SPEED;'),
    (3, 'message X { option (mm) = {}; }'), (3, 'message X { option (mm) = {a: 1}; }'), (3, 'message X { option deprecated = true; }'),
    (3, 'message X { int32 f = 1 [(fm) = {}]; }'), (3, 'message X { int32 f = 1 [(fm) = {}, deprecated = true]; }'),
    (3, 'message X { int32 f = 1 [deprecated = true, (fm) = {}]; }'), (3, 'message X { int32 f = 1 [(fm) = {a: 1}]; }'),
    (3, 'message X { int32 f = 1 [(fm) = {a: [1]}, (fstr) = "x"]; }'), (3, 'message X { int32 f = 1 [deprecated = true]; }'),
    (3, 'message X { int32 f = 1 [deprecated = true, json_name = "x"]; }'), (3, 'message X { int32 f = 1 [(fm).a = 1]; }'),
    (3, 'message X { int32 f = 1 [(fm).n = {}]; }'), (3, 'message X { int32 f = 1 [(fstr) = "x" "y"]; }'),
    (3, 'message X { int32 f = 1 [(fm) = {a: []}]; }'), (3, 'message X { int32 f = 1; }'),
    (3, 'message X { repeated M f = 1; }'), (3, 'message X { a.b.M f = 1; }'), (3, 'message X { .a.b.M f = 1; }'),
    (3, 'message X { map<string, int32> f = 1; }'), (3, 'message X { map<string, M> f = 1 [deprecated = true]; }'),
    (3, 'message X { reserved 1, 2; }'), (3, 'message X { reserved 1 to 3, 5 to max; }'), (3, 'message X { reserved "a", "b"; }'),
    (3, 'message X { oneof o { int32 f = 1; string g = 2 [deprecated = true]; } }'), (3, 'message X { message Y {} enum Z { Z0 = 0; } }'),
    (3, 'message X {}'), (3, 'enum E { E0 = 0; E1 = 1 [deprecated = true]; }'),
    (3, 'enum E { E0 = 0 [(em) = {}]; E1 = -1 [(em) = {a: 1}, deprecated = true]; }'),
    (3, 'enum E { option allow_alias = true; E0 = 0; E1 = 0; reserved 5, 7 to 9; }'),
    (3, 'service S { rpc R(M) returns (M); }'), (3, 'service S { rpc R(M) returns (M) {} }'),
    (3, 'service S { rpc R(stream M) returns (stream a.b.M) { option deprecated = true; } }'),
    (3, 'service S { rpc R(M) returns (M) { option (rm) = {}; } }'),
    (3, 'service S { option deprecated = true; rpc R(M) returns (M) { option (rm) = {a: 1}; }; }'),
    (3, 'import "google/protobuf/any.proto";'), (3, 'import public "google/protobuf/any.proto";'),
    (2, 'message X { extensions 1 to 3; }'), (2, 'message X { extensions 1, 5 to max; }'),
    (2, 'message X { extensions 100 to 200; } extend X { optional int32 e = 100; }'),
    (2, 'message X { optional int32 f = 1 [default = 5]; }'), (2, 'message X { optional string f = 1 [default = "a" "b", deprecated = true]; }'),
    (2, 'message X { optional group G = 1 { optional int32 f = 2; } }'), (2, 'message X { required M f = 1 [(fm) = {}]; }'),
    (2, 'option (m) = {};'), (2, 'option (m) = {n <a: 1>};'),
]
import re as _re
_LC_TOK = _re.compile(r'"[^"]*"|[A-Za-z_][A-Za-z_0-9]*|[0-9]+|\S')


def lc_catalogue():
    """[(source text, token after the comment)]: every form of LC_SNIPPETS with one `//` comment in every gap"""
    out = []
    for k, (syn, sn) in enumerate(LC_SNIPPETS):
        pre = LC_PRE3 if syn == 3 else LC_PRE2
        ms = list(_LC_TOK.finditer(sn))
        for i in range(len(ms) - 1):
            a, b = ms[i], ms[i + 1]
            c = [" // note\n", " // note\n  ", "// n;\n", " //\n"][(k + i) % 4]
            out.append((pre + sn[:a.end()] + c + sn[b.start():] + "\n", b.group(0)))
    return out


def gen_source(rng, stratum):
    """stratum: plain | plain-nocomment | shuffled-plain | plain-blockcomments | flat-adversarial |
    adversarial.  Returns (text, meta)."""
    if stratum == "plain-blockcomments":
        g = Gen(rng, size=rng.range(1, 3), shuffle_header=rng.chance(1, 5))
        text, n = render_blockcomments(g.file(), rng, share=rng.range(2, 6), tight=rng.chance(1, 3))
        return text, {"stratum": stratum, "comments": n}
    if stratum == "plain-onecomment":
        # exactly one block comment in the file, at a declaration boundary (the comment of the formatted output
        # can be paired with it: correspondence with the model of emitBlockComment)
        g = Gen(rng, size=rng.range(1, 2), shuffle_header=rng.chance(1, 5))
        text, n = render_blockcomments(g.file(), rng, share=rng.range(1, 3), limit=1)
        return text, {"stratum": stratum, "comments": n}
    if stratum == "plain-onelinecomment":
        g = Gen(rng, size=rng.range(1, 2), empties=True)
        text, k = render_onelinecomment(g.file(), rng)
        return text, {"stratum": stratum, "gap": k}
    if stratum == "plain":
        g = Gen(rng, size=rng.range(1, 4))
        return render_plain(g.file(), rng), {"stratum": stratum}
    if stratum == "plain-nocomment":
        g = Gen(rng, size=rng.range(1, 4))
        return render_plain(g.file(), rng, comments=False), {"stratum": stratum}
    if stratum == "shuffled-plain":
        g = Gen(rng, size=rng.range(1, 3), shuffle_header=True)
        return render_plain(g.file(), rng), {"stratum": stratum}
    if stratum == "flat-adversarial":
        g = Gen(rng, flat=True)
        return render_adversarial(g.file(), rng, intensity=rng.range(2, 10)), {"stratum": stratum}
    if stratum == "adversarial":
        g = Gen(rng, size=rng.range(1, 3), shuffle_header=rng.chance(1, 4))
        return render_adversarial(g.file(), rng, intensity=rng.range(1, 8), comment_share=rng.range(0, 3)), {"stratum": stratum}
    raise ValueError(stratum)


# ------------------------------------------------------------------ analysis of a token tree (harness dump)
# token classes of the verif hook: 0 space, 1 space with newline, 2 line comment, 3 block comment,
# 4 unrecognized, 5 `;`, 6 `,`, 7 `=`, 8 other leaf, 9 (...), 10 [...], 11 {...}, 12 <...>, 13 fused string
def _txt(t):
    return bytes.fromhex(t["t"])


def scope_kind(t, parent_kind, prev, prev2):
    """syntactic role of the fused token t (a guess from its neighbours; only used to name classes)"""
    c = t["c"]
    pt = _txt(prev) if prev is not None else b""
    if c == 13:
        return "string"
    lit = parent_kind in ("dict", "array", "copts")
    if c == 11:
        if lit or (prev is not None and prev["c"] == 7):
            return "dict"
        return "body"
    if c == 12:
        return "dict" if lit else "targs"
    if c == 10:
        if parent_kind == "dict":
            return "array" if pt == b":" else "extkey"
        if parent_kind in ("array",) or (prev is not None and prev["c"] == 7):
            return "array"
        return "copts"
    if c == 9:
        if parent_kind in ("body", "file") and (pt == b"returns" or (prev2 is not None and _txt(prev2) == b"rpc")):
            return "sig"
        return "extpath"
    return "other"


INDENTING = ("body", "dict", "copts", "sig")


def analyse(tree, att, det, src=b"", extra=None):
    """Features of a source that trigger the known round-trip defects, from the hook dump.
    extra (a dict) receives `sep_leading`: the ids of the trivia attached as leading to the separators of
    message literals (round-trip mode as it is never prints those separators, nor their leading trivia)."""
    F = set()
    sep_leading = []
    dict_seps = []
    stray = [False]
    # offsets: the leaves tile the text in stream order
    off = [0]
    end_of = {}

    def place(ts):
        for t in ts:
            off[0] += len(_txt(t))
            if t["c"] >= 9:
                place(t["ch"])
                off[0] += len(bytes.fromhex(t["ct"]))
                end_of[t["id"]] = off[0]
    place(tree or [])

    def col(o):
        return o - (src.rfind(b"\n", 0, o) + 1)
    A = {a["id"]: a for a in att or []}
    D = {d["id"]: d for d in det or []}
    kept = set()
    for a in A.values():
        kept.update(a["l"]); kept.update(a["t"])
    for d in D.values():
        for s in d["slots"] or []:
            kept.update(s)
    cls = {}
    info = {"gaps": []}

    def walk(ts, kind, depth, scope_id):
        prev = prev2 = None
        run = []
        solids = [t for t in ts if t["c"] > 4]
        if kind in ("file", "body"):
            lit = [t["c"] == 8 and _txt(t)[:1] in b"0123456789.\"'" for t in solids]
            if any(lit[i] and lit[i + 1] and lit[i + 2] for i in range(len(lit) - 2)):
                stray[0] = True
        for t in ts:
            cls[t["id"]] = t["c"]
            if t["c"] <= 4:
                run.append(t)
                if t["id"] not in kept:
                    F.add("trivia-inside-concatenated-string-dropped" if kind == "string" else "trivia-dropped-before-closer")
                continue
            info["gaps"].append((run, depth, t))
            nl_before = any(x["c"] == 1 or b"\n" in _txt(x) for x in run)
            run = []
            if kind == "dict" and t["c"] in (5, 6):
                F.add("roundtrip-drops-message-literal-separator")
                sep_leading.extend(A.get(t["id"], {"l": []})["l"])
                dict_seps.append(_txt(t))
            if t["c"] >= 9:
                k2 = scope_kind(t, kind, prev, prev2)
                if t["id"] not in A:
                    F.add("roundtrip-displaces-trivia-at-bracket-after-separator")
                d2 = depth + (1 if k2 in INDENTING else 0)
                has_nl = walk(t["ch"], k2, d2, t["id"])
                # the printer wraps these in a dom group that breaks when it holds a newline (the
                # leading trivia of the open bracket is inside it) or is too wide (the layout pass over-estimates columns; 60 is a safe bound)
                if k2 in ("copts", "sig") and (has_nl or nl_before or col(end_of.get(t["id"], 0)) > 60):
                    F.add("roundtrip-inserts-line-break-before-closing-bracket")
                dd = D.get(t["id"], {"slots": []})
                slots = dd["slots"] or []
                if k2 != "body" and any(len(s) > 0 for s in slots[1:]):
                    F.add("roundtrip-misplaces-detached-trivia-in-literal")
                    for s in slots[1:]:
                        sep_leading.extend(s)      # emitted at the wrong element or not at all
                if k2 == "body":
                    sol = [x for x in t["ch"] if x["c"] > 4]
                    pend = list(slots[-1]) if slots else []
                    if sol:
                        last = sol[-1]
                        pend = list(A.get(last.get("close", last["id"]), {"t": []})["t"]) + pend
                    else:
                        pend = [i for s in slots for i in s]
                    if any(cls.get(i) in (2, 3) for i in pend):
                        F.add("roundtrip-moves-comment-before-closing-brace")
                # the run before the close token
                tail = []
                for x in reversed(t["ch"]):
                    if x["c"] <= 4:
                        tail.insert(0, x)
                    else:
                        break
                info["gaps"].append((tail, depth, {"c": t["c"], "close_of": t["id"]}))
            prev2, prev = prev, t
        return any(x["c"] == 1 or b"\n" in _txt(x) for x in ts) or any(
            (x["c"] >= 9 and _has_nl(x)) for x in ts)

    def _has_nl(x):
        return any(y["c"] == 1 or b"\n" in _txt(y) or (y["c"] >= 9 and _has_nl(y)) for y in x["ch"])

    walk(tree or [], "file", 0, 0)
    if extra is not None:
        extra["sep_leading"] = sep_leading
        extra["cls"] = cls
        extra["dict_seps"] = dict_seps
        extra["stray_literals"] = stray[0]
    for run, depth, nxt in info["gaps"]:
        if run and depth >= 1 and all(x["c"] == 1 and _txt(x) == b"\n" for x in run):
            F.add("roundtrip-reindents-unindented-line")
    return F


def eof_features(src, tree):
    """src: bytes.  The last chunk the printer pushes is the trivia after the last token of the file."""
    F = set()
    if not src.endswith(b"\n"):
        F.add("roundtrip-appends-final-newline")
    tail = b""
    for t in reversed(tree or []):
        if t["c"] <= 4:
            tail = _txt(t) + tail
        else:
            break
    if tail and (tail == b" " * len(tail) or (tail == b"\n" * len(tail) and len(tail) >= 2)):
        F.add("roundtrip-normalizes-whitespace-at-eof")
    return F


# ------------------------------------------------------------------ C31: what format mode may change
def solid_erased(tree):
    """[(offset, text)] of the non-skippable tokens in stream order, with the changes format mode makes
    on purpose erased: separators and colons of message literals, angle brackets of message literals
    spelled as braces, empty declarations inside bodies."""
    out = []
    off = [0]

    def walk(ts, kind):
        prev = prev2 = None
        prev_kind = None
        for t in ts:
            start = off[0]
            off[0] += len(_txt(t))
            if t["c"] <= 4:
                continue
            tx = _txt(t)
            if t["c"] >= 9:
                k2 = scope_kind(t, kind, prev, prev2)
                ot, ct = tx, bytes.fromhex(t["ct"])
                if k2 == "dict" and t["c"] == 12:
                    ot, ct = b"{", b"}"
                out.append((start, ot))
                walk(t["ch"], k2)
                out.append((off[0], ct))
                off[0] += len(bytes.fromhex(t["ct"]))
                prev2, prev, prev_kind = prev, t, k2
                continue
            drop = False
            if kind == "dict" and (t["c"] in (5, 6) or tx == b":"):
                drop = True
            if kind == "body" and t["c"] == 5 and (prev is None or prev["c"] == 5 or (prev["c"] >= 9 and prev_kind == "body")):
                drop = True
            if not drop:
                out.append((start, tx))
            prev2, prev, prev_kind = prev, t, None
    walk(tree or [], "file")
    return out


def comment_features(tree):
    """where comments sit relative to the declarations (classes of the C31 known findings)"""
    F = set()

    def walk(ts, kind):
        prev = prev2 = None
        prev_kind = None
        run = []
        for t in list(ts) + [None]:
            if t is not None and t["c"] <= 4:
                run.append(t)
                continue
            has_lc = any(x["c"] == 2 for x in run)
            has_bc = any(x["c"] == 3 for x in run)
            if has_lc or has_bc:
                boundary_prev = prev is None or prev["c"] == 5 or (prev["c"] == 11 and prev_kind == "body")
                first_c = next(i for i, x in enumerate(run) if x["c"] in (2, 3))
                nl_before = any(x["c"] == 1 for x in run[:first_c])
                last_c = max(i for i, x in enumerate(run) if x["c"] in (2, 3))
                nl_after = any(x["c"] == 1 for x in run[last_c + 1:])
                if kind in ("file", "body") and boundary_prev:
                    if prev is None and kind == "body" and not nl_before:
                        pos = "same-line"
                    elif nl_before or prev is None:
                        pos = "own-line" if (nl_after or t is None) else "same-line"
                    else:
                        pos = "trailing" if (nl_after or t is None) else "same-line"
                else:
                    pos = "inside"
                F.add(("LC:" if has_lc else "BC:") + pos)
                if has_lc and has_bc:
                    F.add("BC:" + pos)
            run = []
            if t is not None:
                k2 = None
                if t["c"] >= 9:
                    k2 = scope_kind(t, kind, prev, prev2)
                    walk(t["ch"], k2)
                prev2, prev, prev_kind = prev, t, k2
    walk(tree or [], "file")
    return F


# ------------------------------------------------------------------ C31: where a `//` comment sits inside a declaration
# A `//` comment between two tokens of one declaration comments out whatever the formatter prints after it on the
# same line.  The formatter protects SOME positions (context.lineToBlock: the comment is rewritten to /* */ or a line
# break is forced after it; a broken bracket scope puts every element on its own line) and not others (the known
# finding format-changes-meaning:line-comment-inside-declaration).  A position is named
#     <context>/<token before the comment>/<token after the comment>
# context: the bracket scope the comment is in (dict, array, copts, sig, targs, extpath, extkey, string), or - directly
#   in a file / body - the keyword the declaration starts with (`field` when it is not a keyword);
# before:  open (the scope's opening bracket), `;` `,` `=` `:` word string, or the kind of the bracket pair that ends
#   there (dict, array, copts, ..., with -empty when it holds no token);
# after:   close (the scope's closing bracket), `;` `,` `=` `:` word string, or open-<kind of the bracket pair>.
# A comment that does not trail the token before it (a line break or another comment in between) gets @own-line.
DECL_KEYWORDS = {b"syntax", b"edition", b"package", b"import", b"option", b"message", b"enum", b"service", b"extend",
                 b"oneof", b"rpc", b"reserved", b"extensions", b"map", b"group", b"returns", b"stream", b"optional",
                 b"repeated", b"required"}


def _tok_name(t, kind_of):
    c = t["c"]
    if c == 5:
        return ";"
    if c == 6:
        return ","
    if c == 7:
        return "="
    if c == 13:
        return "string"
    if c >= 9:
        return kind_of
    tx = _txt(t)
    if tx in (b":", b".", b"-", b"/"):
        return tx.decode()
    if tx[:1] in b"\"'":
        return "string"
    return "word"


def lc_positions(tree):
    """[{"pos": position name, "text": bytes of the comment, "id": token id}] for every `//` comment that sits
    inside a declaration (not at a declaration boundary), stream order"""
    out = []

    def walk(ts, kind):
        prev = prev2 = None
        prev_kind = None
        head = None          # first token of the current declaration (file / body scopes)
        run = []
        for t in list(ts) + [None]:
            if t is not None and t["c"] <= 4:
                run.append(t)
                continue
            boundary_prev = prev is None or prev["c"] == 5 or (prev["c"] == 11 and prev_kind == "body")
            if kind in ("file", "body") and boundary_prev:
                head = t
            lcs = [x for x in run if x["c"] == 2]
            if lcs and not (kind in ("file", "body") and boundary_prev):
                if kind in ("file", "body"):
                    h = _txt(head) if head is not None else b""
                    ctx = h.decode() if h in DECL_KEYWORDS else "field"
                    if ctx in ("optional", "repeated", "required", "stream", "map", "group"):
                        ctx = "field"
                else:
                    ctx = kind
                if prev is None:
                    before = "open"
                else:
                    before = _tok_name(prev, prev_kind)
                    if prev["c"] >= 9 and prev["c"] != 13 and not any(x["c"] > 4 for x in prev["ch"]):
                        before += "-empty"
                if t is None:
                    after = "close"
                elif t["c"] >= 9 and t["c"] != 13:
                    after = "open-" + scope_kind(t, kind, prev, prev2)
                else:
                    after = _tok_name(t, None)
                for x in lcs:
                    # the table of protected positions is about a comment that TRAILS the token before it: only
                    # blanks between that token and the comment (no line break, no other comment)
                    k = run.index(x)
                    trails = all(y["c"] == 0 and b"\n" not in _txt(y) and b"\r" not in _txt(y) for y in run[:k])
                    out.append({"pos": "%s/%s/%s" % (ctx, before, after) + ("" if trails else "@own-line"),
                                "text": _txt(x), "id": x["id"]})
            run = []
            if t is not None:
                k2 = None
                if t["c"] >= 9:
                    k2 = scope_kind(t, kind, prev, prev2)
                    walk(t["ch"], k2)
                prev2, prev, prev_kind = prev, t, k2
    walk(tree or [], "file")
    return out


def line_comment_texts(tree):
    """texts of the `//` comments of a token tree, stream order, right-trimmed"""
    out = []

    def walk(ts):
        for t in ts:
            if t["c"] == 2:
                out.append(_txt(t).rstrip())
            if t["c"] >= 9:
                walk(t["ch"])
    walk(tree or [])
    return out


# The positions in which the formatter as it is keeps a `//` comment harmless, per oracle and preset: observed
# without a single failure on the unchanged tree over the whole catalogue (lc_catalogue) and 17000 generated files of
# the stratum plain-onelinecomment (at least 8 files per entry).  A failure of a file all of whose `//` comments
# inside declarations sit in protected positions is NOT the known finding `...:line-comment-inside-declaration`
# (whose text is about the unprotected positions: before a value, between the words of a declaration, before the
# `;` of a field / range / rpc, before a `,` ...), it gets a key of its own that names the position and is never
# known.  Every position not listed here stays in the coarse known class.
LC_PROTECTED = {"meaning": {"default": set(), "legacy": set()}, "idem": {"default": set(), "legacy": set()}}
#LC_TABLE-BEGIN
LC_PROTECTED["meaning"]["default"] = {
    "array/,/word", "array/open/close", "array/open/word", "array/word/close", "copts/,/open-extpath",
    "copts/,/word", "copts/dict-empty/close", "copts/dict/close", "copts/extpath/=", "copts/open/open-extpath",
    "copts/open/word", "copts/string/close", "copts/word/,", "copts/word/=", "copts/word/close", "dict/,/close",
    "dict/,/word", "dict/:/open-array", "dict/:/open-dict", "dict/;/close", "dict/;/word", "dict/array-empty/,",
    "dict/array-empty/;", "dict/array-empty/close", "dict/array/,", "dict/array/;", "dict/array/close",
    "dict/dict-empty/,", "dict/dict-empty/;", "dict/dict-empty/close", "dict/dict/,", "dict/dict/;",
    "dict/dict/close", "dict/open/close", "dict/open/word", "dict/string/,", "dict/string/;", "dict/string/close",
    "dict/string/word", "dict/word/,", "dict/word/:", "dict/word/;", "dict/word/close", "dict/word/open-dict",
    "enum/word/open-body", "extend/./word", "extend/word/.", "extend/word/open-body", "extpath/open/word",
    "extpath/word/close", "field/./word", "field/word/.", "field/word/=", "field/word/open-targs",
    "message/word/open-body", "option/dict-empty/;", "option/dict/;", "option/extpath/=", "option/string/;",
    "option/word/;", "option/word/=", "package/./word", "package/word/.", "package/word/;",
    "service/word/open-body", "sig/word/close", "string/open/close", "string/open/string", "string/string/close",
    "targs/word/,", "targs/word/close"}
LC_PROTECTED["meaning"]["legacy"] = {
    "array/,/word", "array/open/close", "copts/,/open-extpath", "copts/,/word", "copts/dict-empty/close",
    "copts/dict/close", "copts/extpath/=", "copts/open/open-extpath", "copts/open/word", "copts/string/close",
    "copts/word/,", "copts/word/=", "copts/word/close", "dict/,/close", "dict/,/word", "dict/:/open-array",
    "dict/:/open-dict", "dict/;/close", "dict/;/word", "dict/array-empty/,", "dict/array-empty/;", "dict/array/;",
    "dict/dict/,", "dict/open/close", "dict/open/word", "dict/string/,", "dict/string/;", "dict/string/close",
    "dict/string/word", "dict/word/,", "dict/word/:", "dict/word/;", "dict/word/close", "dict/word/open-dict",
    "enum/word/open-body", "extend/./word", "extend/word/.", "extend/word/open-body", "extpath/open/word",
    "extpath/word/close", "field/./word", "field/word/.", "field/word/=", "field/word/open-targs",
    "message/word/open-body", "option/dict-empty/;", "option/dict/;", "option/extpath/=", "option/string/;",
    "option/word/;", "option/word/=", "package/./word", "package/word/.", "package/word/;",
    "service/word/open-body", "sig/word/close", "string/open/close", "string/open/string", "string/string/close",
    "targs/word/,", "targs/word/close"}
LC_PROTECTED["idem"]["default"] = {
    "array/,/word", "array/open/close", "array/open/word", "array/word/close", "copts/,/open-extpath",
    "copts/,/word", "copts/dict-empty/close", "copts/dict/close", "copts/extpath/=", "copts/open/open-extpath",
    "copts/open/word", "copts/string/close", "copts/word/,", "copts/word/=", "copts/word/close", "dict/,/close",
    "dict/,/word", "dict/:/open-array", "dict/:/open-dict", "dict/;/close", "dict/;/word", "dict/array-empty/,",
    "dict/array-empty/;", "dict/array-empty/close", "dict/array/,", "dict/array/;", "dict/array/close",
    "dict/dict-empty/,", "dict/dict-empty/;", "dict/dict-empty/close", "dict/dict/,", "dict/dict/;",
    "dict/dict/close", "dict/open/close", "dict/open/word", "dict/string/,", "dict/string/;", "dict/string/close",
    "dict/string/word", "dict/word/,", "dict/word/:", "dict/word/;", "dict/word/close", "dict/word/open-dict",
    "enum/word/open-body", "extend/./word", "extend/word/.", "extend/word/open-body", "extpath/open/word",
    "extpath/word/close", "field/./word", "field/word/.", "field/word/=", "field/word/open-targs",
    "message/word/open-body", "option/dict-empty/;", "option/dict/;", "option/extpath/=", "option/string/;",
    "option/word/;", "option/word/=", "package/./word", "package/word/.", "package/word/;",
    "service/word/open-body", "sig/word/close", "string/open/close", "string/open/string", "string/string/close",
    "targs/word/,", "targs/word/close"}
LC_PROTECTED["idem"]["legacy"] = {
    "array/,/word", "array/open/close", "copts/,/open-extpath", "copts/,/word", "copts/dict-empty/close",
    "copts/dict/close", "copts/extpath/=", "copts/open/open-extpath", "copts/open/word", "copts/string/close",
    "copts/word/,", "copts/word/=", "dict/,/word", "dict/:/open-array", "dict/:/open-dict", "dict/;/word",
    "dict/array-empty/,", "dict/array-empty/;", "dict/array/;", "dict/dict/,", "dict/open/close",
    "dict/open/word", "dict/string/,", "dict/string/;", "dict/string/close", "dict/string/word", "dict/word/,",
    "dict/word/;", "dict/word/close", "enum/word/open-body", "extend/./word", "extend/word/.",
    "extend/word/open-body", "extpath/word/close", "field/./word", "field/word/.", "field/word/=",
    "field/word/open-targs", "message/word/open-body", "option/dict-empty/;", "option/dict/;", "option/extpath/=",
    "option/string/;", "option/word/;", "option/word/=", "package/./word", "package/word/.", "package/word/;",
    "service/word/open-body", "sig/word/close", "string/open/close", "string/open/string", "string/string/close",
    "targs/word/,", "targs/word/close"}
#LC_TABLE-END

_KEY_NAMES = {";": "semicolon", ",": "comma", "=": "equals", ":": "colon", ".": "dot", "-": "minus", "/": "slash"}


def lc_key(pos):
    return "-".join(_KEY_NAMES.get(x, x) for x in pos.split("/", 2))


def lc_class(poss, preset, oracle, tree, tree1):
    """the class a failure of a file with `//` comments inside declarations (poss = lc_positions) is attributed
    to.  With the token trees of source and formatted output (meaning oracle) the judgement is narrowed to the
    comments that GREW in the output - a formatted `//` comment that no source comment equals and that begins
    with the source comment's text has swallowed the tokens printed after it - when there are any.
    Returns (class, positions of the comments that grew)."""
    who = []
    table = LC_PROTECTED[oracle][preset]
    if tree is not None and tree1 is not None:
        every = line_comment_texts(tree)
        have = set(every)
        grown = [c for c in line_comment_texts(tree1) if c not in have]
        cul = [p for p in poss if any(g.startswith(p["text"].rstrip()) for g in grown)]
        if cul:
            who = sorted(set(p["pos"] for p in cul))
            # a comment that certainly grew: the only source comment whose text a grown comment begins with
            for g in grown:
                cand = [c for c in every if g.startswith(c)]
                if len(cand) == 1:
                    for p in cul:
                        if p["text"].rstrip() == cand[0] and p["pos"] in table:
                            return "line-comment-in-protected-position:" + lc_key(p["pos"]), who
            poss = cul
    if poss and all(p["pos"] in table for p in poss):
        return "line-comment-in-protected-position:" + lc_key(poss[0]["pos"]), who
    return "line-comment-inside-declaration", who


def layout_class(tree, stratum, decl_info=None):
    """the syntactic class a C31 failure is attributed to (first match)"""
    F = comment_features(tree)
    if "LC:inside" in F:
        return "line-comment-inside-declaration"
    if "BC:inside" in F:
        return "block-comment-inside-declaration"
    if "LC:same-line" in F or "BC:same-line" in F:
        return "comment-on-same-line-as-next-declaration"
    if any(d.get("empty") for d in decl_info or []):
        return "empty-declaration"          # a lone `;` at file scope
    if (stratum.startswith("plain") or stratum == "shuffled-plain") and not _cr_in_whitespace(tree):
        return "plain-layout"
    return "irregular-whitespace"           # includes files with CRLF line ends


def _cr_in_whitespace(ts):
    for t in ts or []:
        if t["c"] <= 1 and b"\r" in _txt(t):
            return True
        if t["c"] >= 9 and _cr_in_whitespace(t["ch"]):
            return True
    return False
