"""C27 - generators of the `features` stratum: edition-2023 feature settings written explicitly on every kind of element.

The class: one feature (or a pair) set EXPLICITLY on one element of an editions file - a field of every shape (singular / repeated of
every scalar type, open and closed enums, messages, maps of every key kind x every value kind, oneof members, extensions at file level
and nested, delimited group-like fields), or a file, message, enum, enum value, oneof, extension range, service or method - with every
value of the feature (the *_UNKNOWN zero values included), valid and invalid placements alike, in every spelling of the option
(features.x = V, features = { x: V }, two features, a repeated one, an unknown value or feature name, a number or a string as value),
and the same features inherited from the file or the enclosing message instead of being written on the field.  Each file holds ONE
such setting, so that the verdict of each compiler is about that setting and nothing else.

Nothing here decides what is valid: the oracle is the agreement of the two compilers (checks/C27.py judge)."""

SCALARS = ["double", "float", "int32", "int64", "uint32", "uint64", "sint32", "sint64", "fixed32", "fixed64", "sfixed32", "sfixed64",
           "bool", "string", "bytes"]
MAPKEYS = ["int32", "int64", "uint32", "uint64", "sint32", "sint64", "fixed32", "fixed64", "sfixed32", "sfixed64", "bool", "string"]

FEATURES = {
    "field_presence": ["EXPLICIT", "IMPLICIT", "LEGACY_REQUIRED", "FIELD_PRESENCE_UNKNOWN"],
    "enum_type": ["OPEN", "CLOSED", "ENUM_TYPE_UNKNOWN"],
    "repeated_field_encoding": ["PACKED", "EXPANDED", "REPEATED_FIELD_ENCODING_UNKNOWN"],
    "utf8_validation": ["VERIFY", "NONE", "UTF8_VALIDATION_UNKNOWN"],
    "message_encoding": ["LENGTH_PREFIXED", "DELIMITED", "MESSAGE_ENCODING_UNKNOWN"],
    "json_format": ["ALLOW", "LEGACY_BEST_EFFORT", "JSON_FORMAT_UNKNOWN"],
}
FEATURE_VALUES = [(f, v) for f, vs in FEATURES.items() for v in vs]

# the value types a field can have besides the scalars: an open enum, a closed enum whose first value is not zero, a closed enum
# starting at zero, a message, the enclosing message itself
NAMED = ["EO", "EC", "EZ", "Sub", "M"]
PRELUDE = ("enum EO { option features.enum_type = OPEN; EO0 = 0; EO1 = 1; }\n"
           "enum EC { option features.enum_type = CLOSED; EC1 = 1; EC2 = 2; }\n"
           "enum EZ { option features.enum_type = CLOSED; EZ0 = 0; EZ1 = 1; }\n"
           "message Sub { int32 x = 1; }\n")


def field_shapes():
    """every shape of field declaration; a shape is a tuple whose first element is its class"""
    out = []
    types = SCALARS + NAMED
    for t in types:
        out.append(("single", t))
        out.append(("repeated", t))
    keys = MAPKEYS
    for k in keys:
        for v in SCALARS + ["EO", "EC", "EZ", "Sub"]:
            out.append(("map", k, v))
    for t in ["int32", "string", "bytes", "bool", "double", "EO", "EC", "Sub", "M"]:
        out.append(("oneof", t))
    for t in ["int32", "string", "bytes", "double", "EO", "EC", "Sub", "M"]:
        out.append(("ext", "", t))
        out.append(("ext", "repeated ", t))
    for t in ["int32", "string", "Sub"]:
        out.append(("nested-ext", "", t))
        out.append(("nested-ext", "repeated ", t))
    out.append(("grouplike", ""))
    out.append(("grouplike", "repeated "))
    out.append(("inner", "string"))          # a field of a message nested in M
    out.append(("inner", "Sub"))
    return out


def opt_text(opts):
    return " [%s]" % ", ".join(opts) if opts else ""


def render_field(shape, opts, file_opts=(), msg_opts=()):
    """an edition-2023 file whose message M has one field of the shape, carrying the options"""
    o = opt_text(opts)
    L = ['edition = "2023";']
    L += ["option %s;" % x for x in file_opts]
    L.append(PRELUDE.rstrip("\n"))
    L.append("message M {")
    L += ["  option %s;" % x for x in msg_opts]
    c = shape[0]
    ext = None
    if c == "single":
        L.append("  %s f = 1%s;" % (shape[1], o))
    elif c == "repeated":
        L.append("  repeated %s f = 1%s;" % (shape[1], o))
    elif c == "map":
        L.append("  map<%s, %s> f = 1%s;" % (shape[1], shape[2], o))
    elif c == "oneof":
        L.append("  oneof o {\n    %s f = 1%s;\n    int32 other = 2;\n  }" % (shape[1], o))
    elif c == "ext":
        L.append("  extensions 1000 to 2000;")
        ext = "extend M { %s%s f = 1000%s; }" % (shape[1], shape[2], o)
    elif c == "nested-ext":
        L.append("  extensions 1000 to 2000;")
        ext = "message Holder {\n  extend M { %s%s f = 1000%s; }\n}" % (shape[1], shape[2], o)
    elif c == "grouplike":
        L.append("  message F { int32 gx = 1; }")
        L.append("  %sF f = 1%s;" % (shape[1], o))
    elif c == "inner":
        L.append("  message Inner {\n    %s f = 1%s;\n  }" % (shape[1], o))
    L.append("}")
    if ext:
        L.append(ext)
    return "\n".join(L) + "\n"


HOLDERS = ["file", "file-with-nonzero-enum", "message", "nested-message", "empty-message", "enum", "enum-nonzero-first", "enum-value", "oneof",
           "extension-range", "service", "method"]

# Sub-strata on which the two compilers disagree on the UNCHANGED tree (found when this stratum was built, 2026-09-22; each is a
# structural class of inputs, not a filter on results); the smallest input of each is corpus/C27/<name>.proto and is part of the
# quick tier's corpus.  All six are `known:` lines of KNOWN_FINDINGS.txt now and run by default.
DISAGREEING = {
    "repeated-field-encoding-on-map": "features.repeated_field_encoding = EXPANDED / ..._UNKNOWN written on a map field: the stable compiler "
                                      "accepts (a map field is repeated), the experimental one rejects (expected repeated field, found singular field)",
    "feature-on-extension-range": "any features.* on an extension range: the stable compiler enforces the option targets of the FeatureSet "
                                  "fields, the experimental one accepts",
    "feature-on-service": "any features.* on a service: as above",
    "feature-on-method": "any features.* on a method: as above",
    "integer-as-feature-value": "features.x = 1 (an integer literal where an enum value name is expected): only the stable compiler rejects",
    "default-with-implicit-presence": "default = ... on an editions field whose presence is IMPLICIT or FIELD_PRESENCE_UNKNOWN (written on the "
                                      "field or inherited from the file): only the stable compiler rejects",
}

# Two further disagreeing classes found by the thorough tier: name -> (what, the keys its inputs produce on the unchanged tree); their
# smallest inputs corpus/C27/<name>.proto are part of the quick corpus and always run (see gated_on).
GATED = {
    "range-endpoint-in-19000-19999": ("a reserved or extension range of a message with an end point in 19000..19999 (the numbers reserved for "
                                      "the implementation): the stable compiler (as protoc) accepts the range, the experimental one reports "
                                      "`field number out of range` for each such end point (a range that merely spans them is accepted by both)",
                                      ["stable-accepts-experimental-rejects:field-number-out-of-range:range-endpoint-in-19000-19999"]),
    "json-name-bracketed": ("json_name = '[...]' on a message field: only the stable compiler rejects a value that starts with [ and ends with ]",
                            ["stable-rejects-experimental-accepts:option-json_name-value-cannot-start-with-_-and-end-with-_-that-is-reserv"]),
}


def render_holder(holder, optlist):
    """an edition-2023 file with the options written on one non-field element; the file has fields of several shapes below it, so
    that what the element passes down is seen in the descriptors (and in the validation of the fields that inherit it)"""
    stmts = lambda ind: ["%soption %s;" % (ind, x) for x in optlist]
    body = ["  int32 a = 1;", "  string s = 2;", "  repeated int32 r = 3;", "  Sub sub = 4;", "  EO eo = 5;", "  map<int32, string> ms = 6;",
            "  map<string, Sub> mm = 7;", "  repeated string rs = 8;", "  oneof o {", "    int32 oa = 9;", "    Sub ob = 10;", "  }",
            "  repeated Sub rsub = 11;", "  bytes b = 12;", "  map<bool, bytes> mb = 13;"]
    L = ['edition = "2023";']
    if holder in ("file", "file-with-nonzero-enum"):
        L += stmts("")
    L.append("enum EO { EO0 = 0; EO1 = 1; }")
    L.append("message Sub { int32 x = 1; }")
    if holder == "file-with-nonzero-enum":
        L.append("enum NZ { NZ1 = 1; NZ2 = 2; }")
    if holder == "enum":
        L.append("enum E {\n%s\n  E0 = 0;\n  E1 = 1;\n}" % "\n".join(stmts("  ")))
    elif holder == "enum-nonzero-first":
        L.append("enum E {\n%s\n  E1 = 1;\n  E2 = 2;\n}" % "\n".join(stmts("  ")))
    elif holder == "enum-value":
        L.append("enum E {\n  E0 = 0%s;\n  E1 = 1;\n}" % opt_text(optlist))
    L.append("message M {")
    if holder == "message":
        L += stmts("  ")
    if holder == "oneof":
        body[8:12] = ["  oneof o {"] + stmts("    ") + ["    int32 oa = 9;", "    Sub ob = 10;", "  }"]
    L += body
    if holder == "nested-message":
        L.append("  message Inner {")
        L += stmts("    ")
        L += ["    int32 ia = 1;", "    string is = 2;", "    repeated int32 ir = 3;", "    Sub isub = 4;", "    map<int32, string> ims = 5;", "  }"]
    if holder == "extension-range":
        L.append("  extensions 1000 to 2000%s;" % opt_text(optlist))
    L.append("}")
    if holder == "empty-message":
        L.append("message Empty {\n%s\n}" % "\n".join(stmts("  ")))
    if holder == "service":
        L.append("service S {\n%s\n  rpc R(M) returns (Sub);\n}" % "\n".join(stmts("  ")))
    elif holder == "method":
        L.append("service S {\n  rpc R(M) returns (Sub) {\n%s\n  }\n}" % "\n".join(stmts("    ")))
    return "\n".join(L) + "\n"


def spellings(f, v):
    """the setting features.f = v written in every way the option grammar allows, and the near-misses"""
    first_other = FEATURES[f][0] if FEATURES[f][0] != v else FEATURES[f][1]
    return [
        ("aggregate", ["features = { %s: %s }" % (f, v)]),
        ("aggregate-angle", ["features = < %s: %s >" % (f, v)]),
        ("twice-same", ["features.%s = %s" % (f, v), "features.%s = %s" % (f, v)]),
        ("twice-different", ["features.%s = %s" % (f, v), "features.%s = %s" % (f, first_other)]),
        ("aggregate-then-path", ["features = { %s: %s }" % (f, v), "features.%s = %s" % (f, v)]),
        ("aggregate-twice-inside", ["features = { %s: %s %s: %s }" % (f, v, f, v)]),
        ("number-value", ["features.%s = 1" % f]),
        ("string-value", ['features.%s = "%s"' % (f, v)]),
        ("lowercase-value", ["features.%s = %s" % (f, v.lower())]),
        ("unknown-value", ["features.%s = NO_SUCH_VALUE" % f]),
        ("value-of-other-feature", ["features.%s = %s" % (f, "DELIMITED" if f != "message_encoding" else "IMPLICIT")]),
        ("parenthesised", ["(features).%s = %s" % (f, v)]),
        ("empty-aggregate", ["features = { }"]),
        ("unknown-feature", ["features.no_such_feature = %s" % v]),
        ("feature-as-option", ["%s = %s" % (f, v)]),
        ("sub-path", ["features.%s.x = %s" % (f, v)]),
    ]


# libraries for the cross-file sub-stratum: the features of a type declared in another file are those of THAT file
LIBS = {
    "proto2": 'syntax = "proto2";\npackage lib;\nenum E { E0 = 0; E1 = 1; }\nenum NZ { NZ1 = 1; }\nmessage Msg { optional int32 x = 1; optional group G = 2 { optional int32 y = 1; } }\n',
    "proto3": 'syntax = "proto3";\npackage lib;\nenum E { E0 = 0; E1 = 1; }\nmessage Msg { int32 x = 1; string s = 2; }\n',
    "editions-default": 'edition = "2023";\npackage lib;\nenum E { E0 = 0; E1 = 1; }\nmessage Msg { int32 x = 1; }\n',
    "editions-closed": 'edition = "2023";\npackage lib;\noption features.enum_type = CLOSED;\nenum E { E0 = 0; E1 = 1; }\nenum NZ { NZ1 = 1; }\nmessage Msg { int32 x = 1; }\n',
    "editions-delimited-implicit": 'edition = "2023";\npackage lib;\noption features.message_encoding = DELIMITED;\noption features.field_presence = IMPLICIT;\n'
                                   'option features.utf8_validation = NONE;\nenum E { E0 = 0; E1 = 1; }\nmessage Msg { int32 x = 1; Msg m = 2; }\n',
}


def known_keys():
    import os
    p = os.path.join(os.path.dirname(os.path.dirname(os.path.abspath(__file__))), "KNOWN_FINDINGS.txt")
    out = set()
    if os.path.exists(p):
        for line in open(p):
            if line.startswith("known:") and "property=C27 " in line and "key=" in line:
                out.add(line.split("key=", 1)[1].split()[0])
    return out


def gated_on():
    """the names of GATED that are generated in this run: all of them, always.  (The switch existed while the two classes were being
    triaged; both are `known:` lines of KNOWN_FINDINGS.txt now.  Which inputs are explored never depends on what that file lists:
    if a line were removed the class would be reported as a violation again.)"""
    return set(GATED)


def feature_cases(rng, quick_budget=None, with_gated=None):
    """the whole class, as (files, request, klass) triples; klass = features/<sub-stratum>.
    quick_budget: None = everything; a number = everything outside the big products, and of each of them one member of every
    (class of shape) x (feature value) combination, then random members up to that many.
    Returns (cases, withheld): withheld counts the generated cases of each gated sub-stratum that was left out."""
    if with_gated is None:
        with_gated = gated_on()
    out = []
    withheld = {}
    shapes = field_shapes()

    def add(files, sub, traits=()):
        off = [t for t in traits if t in GATED and t not in with_gated]
        if off:
            for t in off:
                withheld[t] = withheld.get(t, 0) + 1
            return
        if isinstance(files, str):
            files = {"t.proto": files}
        out.append((files, ["t.proto"], "features/" + sub))

    def presence_implicit(field_opts, file_opts):
        def val(opts):
            txt = " ".join(opts)
            for v in FEATURES["field_presence"]:
                if ("field_presence = " + v) in txt or ("field_presence: " + v) in txt:
                    return v
            return None
        v = val(field_opts) or val(file_opts)
        return v in ("IMPLICIT", "FIELD_PRESENCE_UNKNOWN")

    def field_traits(sh, opts, file_opts=()):
        tr = []
        if sh[0] == "map" and any("repeated_field_encoding" in o for o in opts):
            tr.append("repeated-field-encoding-on-map")
        if any(o.startswith("default = ") for o in opts) and presence_implicit(opts, file_opts):
            tr.append("default-with-implicit-presence")
        return tr

    def cls(t):
        # the class of a type forgets which integer / float type it is, never whether it is a string, bytes, bool, float, enum
        # (open / closed) or message
        return t if t in ("string", "bytes", "bool", "EO", "EC", "EZ", "Sub", "M") else ("float" if t in ("float", "double") else "int")

    def pick(product, budget):
        if quick_budget is None or len(product) <= budget:
            return product
        seen, first, rest = set(), [], []
        for item in rng.shuffle(product):
            sh = item[0]
            k = (sh[0],) + tuple(cls(x) if x in SCALARS + NAMED else x for x in sh[1:]) + tuple(item[1:])
            if k in seen:
                rest.append(item)
            else:
                seen.add(k)
                first.append(item)
        return first + rest[:max(0, budget - len(first))]

    # 1. one feature written on one field, every shape x every feature value
    for sh, f, v in pick([(sh, f, v) for sh in shapes for (f, v) in FEATURE_VALUES], quick_budget):
        o = ["features.%s = %s" % (f, v)]
        add(render_field(sh, o), "field", field_traits(sh, o))
    # 2. the same inherited: from the file (every shape x every value) and from the message (every shape x the one feature a message
    #    may carry, and every other value on one shape of each kind: those are refused whatever the field is)
    kinds = [("single", "string"), ("repeated", "int32"), ("map", "int32", "string"), ("oneof", "Sub"), ("ext", "", "string"),
             ("grouplike", ""), ("single", "EZ"), ("inner", "string")]
    inh = [(sh, f, v, "file") for sh in shapes for (f, v) in FEATURE_VALUES]
    inh += [(sh, "json_format", v, "message") for sh in shapes for v in FEATURES["json_format"]]
    inh += [(sh, f, v, "message") for sh in kinds for (f, v) in FEATURE_VALUES if f != "json_format"]
    for sh, f, v, lvl in pick(inh, quick_budget):
        o = ["features.%s = %s" % (f, v)]
        add(render_field(sh, [], file_opts=o if lvl == "file" else (), msg_opts=o if lvl == "message" else ()), "inherited-from-" + lvl)
    # 3. every non-field element x every feature value
    for h in HOLDERS:
        for (f, v) in FEATURE_VALUES:
            add(render_holder(h, ["features.%s = %s" % (f, v)]), "holder:" + h,
                ["feature-on-" + h] if h in ("extension-range", "service", "method") else [])
    # 4. spellings, on a field where the setting is plausible, on the file and on the message
    plausible = {"field_presence": ("single", "int32"), "enum_type": ("single", "EO"), "repeated_field_encoding": ("repeated", "int32"),
                 "utf8_validation": ("single", "string"), "message_encoding": ("single", "Sub"), "json_format": ("single", "int32")}
    for f, vs in FEATURES.items():
        for v in vs[:2]:
            for name, optlist in spellings(f, v):
                tr = ["integer-as-feature-value"] if name == "number-value" else []
                add(render_field(plausible[f], optlist), "spelling:" + name, tr)
                add(render_holder("file", optlist), "spelling:" + name, tr)
                add(render_holder("message", optlist), "spelling:" + name, tr)
    # 5. features outside editions files: proto2 / proto3 / no syntax line
    for head, lab in (('syntax = "proto2";', "optional "), ('syntax = "proto3";', ""), ("", "optional ")):
        for (f, v) in FEATURE_VALUES:
            add("%s\nmessage M {\n  %sstring f = 1 [features.%s = %s];\n}\n" % (head, lab, f, v), "not-editions")
            add("%s\noption features.%s = %s;\nmessage M {\n  %sstring f = 1;\n}\n" % (head, f, v, lab), "not-editions")
    # 6. types of another file (proto2 / proto3 / editions with its own file-level features) used under each presence and encoding
    for lib, text in LIBS.items():
        for fo in [None] + ["features.%s = %s" % fv for fv in FEATURE_VALUES if fv[0] in ("field_presence", "message_encoding", "enum_type")]:
            for decl in ["lib.E f = 1;", "repeated lib.E f = 1;", "map<int32, lib.E> f = 1;", "lib.Msg f = 1;", "repeated lib.Msg f = 1;",
                         "map<string, lib.Msg> f = 1;", "lib.E f = 1 [features.field_presence = IMPLICIT];",
                         "lib.Msg f = 1 [features.message_encoding = DELIMITED];", "oneof o { lib.E f = 1; lib.Msg g = 2; }"]:
                t = 'edition = "2023";\nimport "lib.proto";\n%smessage M {\n  %s\n}\n' % ("option %s;\n" % fo if fo else "", decl)
                add({"lib.proto": text, "t.proto": t}, "cross-file:" + lib)
    # 7. pairs of features on one field (random over shapes), with the options whose validity depends on a feature (default and
    #    presence, lazy and message encoding, packed) and with a feature on the file / message as well
    npairs = 500 if quick_budget is not None else 8000
    by_class = {}
    for sh in shapes:
        by_class.setdefault(sh[0], []).append(sh)
    classes = sorted(by_class)
    for _ in range(npairs):
        sh = rng.choice(by_class[rng.choice(classes)])          # the shape class first: maps are three quarters of the shapes
        (f1, v1), (f2, v2) = rng.choice(FEATURE_VALUES), rng.choice(FEATURE_VALUES)
        opts = ["features.%s = %s" % (f1, v1)]
        if f2 != f1:
            opts.append("features.%s = %s" % (f2, v2))
        r = rng.below(8)
        if r == 0:
            opts = ["features = { %s }" % " ".join("%s: %s" % tuple(o[len("features."):].split(" = ")) for o in opts)]
        elif r in (1, 2) and sh[0] in ("single", "oneof", "ext", "inner"):
            t = sh[2] if sh[0] == "ext" else sh[1]
            if t in SCALARS + ["EO", "EC", "EZ"]:
                d = {"string": '"d"', "bytes": '"d"', "bool": "true", "EO": "EO1", "EC": "EC2", "EZ": "EZ1"}.get(t, "1")
                opts = (opts if r == 1 else []) + ["default = %s" % d]
        elif r == 3:
            opts.append(rng.choice(["deprecated = true", "lazy = true", "unverified_lazy = true", "packed = true", "packed = false", "json_name = 'j'"]))
        fo = ["features.%s = %s" % rng.choice(FEATURE_VALUES)] if rng.chance(1, 3) else []
        mo = ["features.%s = %s" % rng.choice(FEATURE_VALUES)] if rng.chance(1, 5) else []
        add(render_field(sh, opts, file_opts=fo, msg_opts=mo), "pair", field_traits(sh, opts, fo))
    return out, withheld


# ---------------------------------------------------------------- the `numbers` stratum: every number-conflict rule
# The class: ONE number-conflict situation per file - a field / enum value number against the reserved numbers and ranges of its
# message / enum, against an extension range, against another field / value (duplicates, aliases), an extension number against
# the extension and reserved ranges of its extendee, and two ranges against each other - for enums without allow_alias, with
# allow_alias = true (with a genuine alias pair, which may or may not be the colliding value) and allow_alias = false, and for
# messages, in proto2 / proto3 / edition 2023; the colliding number at every position relative to the range (below, start, inside,
# end, above), the range statement before or after the declarations, the colliding declaration first, in the middle or last.
# Nothing here decides what is valid: the oracle is the agreement of the two compilers.

NUM_SYNTAXES = [("proto2", 'syntax = "proto2";', "optional "), ("proto3", 'syntax = "proto3";', ""), ("editions", 'edition = "2023";', "")]

# reserved / extension range statements over small numbers: (name, text, [numbers worth probing])
RANGE_SPECS = [
    ("single", "5", [4, 5, 6]),
    ("range", "5 to 7", [4, 5, 6, 7, 8]),
    ("range-one", "6 to 6", [5, 6, 7]),
    ("to-max", "5 to max", [4, 5, 6, 100000]),
    ("list", "3, 5 to 7, 9", [3, 4, 6, 9, 10]),
    ("two-statements", "9;\n  RANGE 5 to 6", [5, 6, 7, 9]),
]
ENUM_NEG_SPECS = [("negative", "-7 to -5", [-8, -7, -6, -5, -4]), ("around-zero", "-1 to 1", [-2, -1, 1, 2]), ("min-to", "-2147483648 to -5", [-2147483648, -6, -5, -4]),
                  ("max-single", "2147483647", [2147483646, 2147483647])]
ALIAS_MODES = ["none", "true", "false", "true-no-pair"]
# who carries the probed number in an enum: a value that has no alias, the first / second name of the alias pair, both names of the
# pair (the pair itself sits on the probed number), a value declared before / after everything else
ENUM_WHO = ["plain-last", "plain-middle", "pair-first", "pair-second", "pair-both", "plain-and-pair"]


def render_enum_numbers(head, alias, spec_text, num, who, stmt_first, extra_dup=False):
    """enum E with a reserved statement and values; `num` is the probed number"""
    vals = [("E0", 0)]
    pair = alias in ("true", "false")          # an alias pair exists (legal only under allow_alias = true)
    if who == "plain-last":
        vals += ([("P1", 1), ("P2", 1)] if pair else [("P1", 1)]) + [("X", num)]
    elif who == "plain-middle":
        vals += [("X", num)] + ([("P1", 1), ("P2", 1)] if pair else [("P1", 1)])
    elif who == "pair-first":
        vals += [("X", num), ("P1", 1), ("X2", num)] if pair else [("X", num), ("P1", 1)]
    elif who == "pair-second":
        vals += [("P1", 1), ("X", num), ("Y", 2), ("X2", num)] if pair else [("P1", 1), ("Y", 2), ("X", num)]
    elif who == "pair-both":
        vals += [("X", num), ("X2", num)] if pair else [("X", num)]
    else:
        vals += ([("P1", 1), ("P2", 1)] if pair else [("P1", 1)]) + [("X", num), ("Y", 2), ("X2", num)]
    if extra_dup:
        vals.append(("D", 0))
    body = []
    if alias in ("true", "true-no-pair"):
        body.append("  option allow_alias = true;")
    elif alias == "false":
        body.append("  option allow_alias = false;")
    res = "  reserved %s;" % spec_text.replace("RANGE", "reserved")
    if stmt_first:
        body.append(res)
    body += ["  %s = %d;" % v for v in vals]
    if not stmt_first:
        body.append(res)
    return "%s\nenum E {\n%s\n}\nmessage M { %sE e = 1; }\n" % (head[1], "\n".join(body), head[2])


MSG_FIELD_KINDS = ["plain", "repeated", "oneof", "map", "message", "group", "nested-decl"]


def render_msg_numbers(head, stmt, spec_text, num, kind, stmt_first, pos):
    """message M with a reserved / extensions statement and one field of the kind carrying the probed number"""
    syn, line, lab = head
    if kind == "plain":
        f = "  %sint32 x = %d;" % (lab, num)
    elif kind == "repeated":
        f = "  repeated string x = %d;" % num
    elif kind == "oneof":
        f = "  oneof o {\n    int32 x = %d;\n    string y = 30;\n  }" % num
    elif kind == "map":
        f = "  map<string, int32> x = %d;" % num
    elif kind == "message":
        f = "  %sM x = %d;" % (lab, num)
    elif kind == "group":
        f = "  optional group X = %d { optional int32 gx = 1; }" % num
    else:
        f = "  message Inner { %sint32 x = %d; }" % (lab, num)      # the number belongs to another message: never a conflict
    others = ["  %sint32 a = 1;" % lab, "  %sstring b = 2;" % lab]
    st = "  %s %s;" % (stmt, spec_text.replace("RANGE", stmt))
    decl = others[:pos] + [f] + others[pos:]
    body = ([st] + decl) if stmt_first else (decl + [st])
    return "%s\nmessage M {\n%s\n}\n" % (line, "\n".join(body))


def number_cases(rng, quick_budget=None):
    """(files, request, klass) triples; klass = numbers/<sub-stratum>"""
    out = []

    thin = {"enum-duplicates": 2, "enum-ranges": 2, "message-duplicates": 2, "message-ranges": 2, "extension-number": 3}
    counters = {}

    def add(text, sub):
        # quick tier: of the small complete products every second / third member, starting at a random one (the thorough tier: all)
        t = thin.get(sub.split(":")[0])
        if quick_budget is not None and t:
            if sub not in counters:
                counters[sub] = rng.below(t)
            counters[sub] += 1
            if counters[sub] % t:
                return
        out.append(({"t.proto": text}, ["t.proto"], "numbers/" + sub))

    def pick(product, budget, keyf):
        if quick_budget is None or len(product) <= budget:
            return product
        seen, first, rest = set(), [], []
        for item in rng.shuffle(product):
            k = keyf(item)
            if k in seen:
                rest.append(item)
            else:
                seen.add(k)
                first.append(item)
        return first + rest[:max(0, budget - len(first))]

    def posclass(spec, num):
        return "%s@%d" % (spec[0], spec[2].index(num))

    b = (lambda n: None) if quick_budget is None else (lambda n: max(1, quick_budget * n // 100))
    # 1. enum value number vs reserved numbers / ranges: syntax x allow_alias mode x range x position x who x statement order
    prod = [(h, a, sp, n, w, sf) for h in NUM_SYNTAXES for a in ALIAS_MODES for sp in RANGE_SPECS + ENUM_NEG_SPECS for n in sp[2]
            for w in ENUM_WHO for sf in (True, False)]
    # quick: one member of every (alias mode, range, position, who) - syntax and statement order vary at random -, then random members
    for h, a, sp, n, w, sf in pick(prod, b(40), lambda it: (it[1], posclass(it[2], it[3]), it[4]) if it[2][0] == "range" else (it[1], posclass(it[2], it[3]))):
        add(render_enum_numbers(h, a, sp[1], n, w, sf), "enum-reserved:alias-" + a)
    # 2. duplicates in enums with nothing reserved: every alias mode x which values coincide (incl. with the zero value)
    for h in NUM_SYNTAXES:
        for a in ALIAS_MODES:
            for vals in (["A = 0", "B = 1", "C = 1"], ["A = 0", "B = 0"], ["A = 0", "B = 1", "C = 2", "D = 1"], ["A = 0", "B = 1", "C = 2"],
                         ["A = 0", "B = -1", "C = -1"], ["A = 0", "B = 1", "C = 0x1"], ["A = 0", "B = 1", "C = 01"], ["A = 0", "B = 1", "C = 1", "D = 1"],
                         ["A = 0", "B = 2147483647", "C = 2147483647"], ["A = 0", "B = -2147483648", "C = -2147483648"]):
                o = {"none": "", "true": "option allow_alias = true; ", "false": "option allow_alias = false; ", "true-no-pair": "option allow_alias = true; "}[a]
                if a == "true-no-pair":
                    vals = ["A = 0", "B = 1", "C = 2"] if vals[1:] != ["B = 1", "C = 2"] else ["A = 0"]
                add("%s\nenum E { %s%s; }\n" % (h[1], o, "; ".join(vals)), "enum-duplicates:alias-" + a)
    # 3. enum ranges against each other, reserved names against value names
    for h in NUM_SYNTAXES:
        q = (lambda s: s) if h[0] == "editions" else (lambda s: '"%s"' % s)
        for a in ("none", "true"):
            o = "option allow_alias = true; " if a == "true" else ""
            v = "A = 0; B = 1; C = 1; " if a == "true" else "A = 0; B = 1; "
            for r in ("reserved 5 to 7, 6;", "reserved 5 to 7; reserved 7 to 9;", "reserved 5 to 7; reserved 8 to 9;", "reserved 5, 5;", "reserved 7 to 5;",
                      "reserved 5 to max, 10;", "reserved -5 to -7;", "reserved %s;" % q("B"), "reserved %s;" % q("Z"), "reserved %s, %s;" % (q("Z"), q("Z")),
                      "reserved 5 to 7; reserved %s;" % q("Y")):
                add("%s\nenum E { %s%s%s }\n" % (h[1], o, v, r), "enum-ranges:alias-" + a)
    # 4. message field number vs reserved / extension ranges: syntax x statement x range x position x field kind x order
    prod = [(h, st, sp, n, k, sf, pos) for h in NUM_SYNTAXES for st in ("reserved", "extensions") for sp in RANGE_SPECS for n in sp[2]
            for k in MSG_FIELD_KINDS for sf in (True, False) for pos in (0, 1, 2)
            if not (k == "group" and h[0] != "proto2")]
    for h, st, sp, n, k, sf, pos in pick(prod, b(35), lambda it: (it[1], posclass(it[2], it[3]), it[4]) if it[2][0] == "range" else (it[1], it[2][0], it[4])):
        add(render_msg_numbers(h, st, sp[1], n, k, sf, pos), "message-%s:%s" % (st, k))
    # 5. duplicate field numbers across kinds of member
    members = {"plain": "%sint32 NAME = NUM;", "repeated": "repeated int32 NAME = NUM;", "map": "map<int32, int32> NAME = NUM;",
               "oneof": "oneof o_NAME { int32 NAME = NUM; }", "message": "%sM NAME = NUM;"}
    for h in NUM_SYNTAXES:
        for k1 in members:
            for k2 in members:
                for n2 in (3, 4):
                    m1 = members[k1].replace("NAME", "x").replace("NUM", "3")
                    m2 = members[k2].replace("NAME", "y").replace("NUM", str(n2))
                    m1 = m1 % h[2] if "%s" in m1 else m1
                    m2 = m2 % h[2] if "%s" in m2 else m2
                    if n2 == 4 and k1 != "plain":
                        continue
                    add("%s\nmessage M {\n  %s\n  %sint32 a = 1;\n  %s\n}\n" % (h[1], m1, h[2], m2), "message-duplicates")
        add("%s\nmessage M {\n  oneof o { int32 x = 3; string y = 3; }\n}\n" % h[1], "message-duplicates")
        add("%s\nmessage M {\n  %sint32 x = 3;\n  message N { %sint32 x = 3; }\n}\n" % (h[1], h[2], h[2]), "message-duplicates")
    # 6. message ranges against each other
    for h in NUM_SYNTAXES:
        for r in ("reserved 5 to 7, 6;", "reserved 5 to 7; reserved 7 to 9;", "reserved 5 to 7; reserved 8 to 9;", "reserved 5, 5;", "reserved 7 to 5;",
                  "extensions 5 to 7; reserved 6;", "extensions 5 to 7; reserved 7 to 9;", "reserved 5 to 7; extensions 8 to 9;", "extensions 5 to 7, 6;",
                  "extensions 5 to 7; extensions 7;", "extensions 5 to 7; extensions 8;", "extensions 7 to 5;", "reserved 5 to max; extensions 100;",
                  "extensions 5 to max; reserved 100 to max;", "extensions 5 to max; extensions 6 to max;", "reserved 0;", "extensions 0 to 5;",
                  "reserved 536870911;", "reserved 536870912;", "extensions 536870911 to max;", "reserved 1 to 536870912;"):
            add("%s\nmessage M {\n  %sint32 a = 1;\n  %s\n}\n" % (h[1], h[2], r), "message-ranges")
    # 7. extension numbers against the ranges of the extendee (extendee proto2 or editions; the extension declared in any syntax that allows it)
    for h in NUM_SYNTAXES:
        if h[0] == "proto3":
            continue
        for rng_stmt in ("extensions 5 to 7;", "extensions 5 to 7; reserved 8;", "extensions 5, 7;", "extensions 5 to max;", "extensions 5 to 7; extensions 9;"):
            for n in (4, 5, 6, 7, 8, 9, 1, 100000):
                for where in ("top", "nested"):
                    e = "extend M { %sint32 x = %d; }" % (h[2], n)
                    if where == "nested":
                        e = "message H {\n  %s\n}" % e
                    add("%s\nmessage M {\n  %sint32 a = 1;\n  %s\n}\n%s\n" % (h[1], h[2], rng_stmt, e), "extension-number")
        add("%s\nmessage M {\n  extensions 5 to 7;\n}\nextend M { %sint32 x = 5; }\nextend M { %sint32 y = 6; }\n" % (h[1], h[2], h[2]), "extension-number")
        add("%s\nmessage M {\n  %sint32 a = 1;\n}\nextend M { %sint32 x = 5; }\n" % (h[1], h[2], h[2]), "extension-number")
    return out
