"""Shared generators / spec functions for the compile-executor properties C05, C06, C07."""
import itertools
from vlib import *

COQ_EXEC = ["Model/CompileExec.v", "Proofs/CompileExec1.v", "Proofs/CompileExec2.v",
            "Proofs/CompileExec3.v", "Proofs/CompileExec4.v", "Common/Corr.v"]
HEADER = ("From Coq Require Import List Arith Bool.\nImport ListNotations.\n"
          "From PV Require Import Common.Corr Model.CompileExec.\n")
TRUSTED_EXEC = ["hand-written small-step Gallina model of compiler.go's executor (Model/CompileExec.v): one atomic model step per "
                "semaphore operation / blockedOn read / channel wait; Go's sync.Mutex, semaphore.Weighted and channel close are "
                "modelled by their sequentially consistent contracts",
                "correspondence harness harness/cmd/graphs (real protocompile.Compiler on generated import graphs, fault-injecting "
                "resolver, yield hooks verifYield in compiler.go under build tag verif)"]

RK = {"": 0, "missing": 1, "err": 1, "panic": 2, "link": 0}


def mkind(v):
    """the model's fault class of a harness fault kind: a source whose reader fails after K bytes ("read:K") is a file that cannot be
    obtained (like a resolver error: its imports are never known); a reader that panics ("readpanic:K") is a panic for that file"""
    v = v or ""
    return "err" if v.startswith("read:") else "panic" if v.startswith("readpanic:") else v


def mfaults(faults):
    return {k: mkind(v) for k, v in (faults or {}).items()}


def reach_set(n, imports, req, faults):
    """files reachable from the request through files that resolve (a file that does not resolve has no known imports)"""
    faults = mfaults(faults)
    seen, stack = set(), list(req)
    while stack:
        x = stack.pop()
        if x in seen:
            continue
        seen.add(x)
        if faults.get(x, "") in ("missing", "err", "panic"):
            continue
        stack.extend(imports[x])
    return seen


def model_reach_set(n, imports, req):
    seen, stack = set(), list(req)
    while stack:
        x = stack.pop()
        if x in seen:
            continue
        seen.add(x)
        stack.extend(imports[x])
    return seen


def on_cycle(imports, x, allowed):
    """is there a nonempty import path from x back to x inside `allowed`"""
    seen, stack = set(), [d for d in imports[x] if d in allowed]
    while stack:
        y = stack.pop()
        if y == x:
            return True
        if y in seen:
            continue
        seen.add(y)
        stack.extend(d for d in imports[y] if d in allowed)
    return False


def spec(n, imports, req, faults):
    """expected verdict from the graph alone (what the theorems say): returns dict"""
    faults = mfaults(faults)
    R = reach_set(n, imports, req, faults)
    resolvable = {x for x in R if faults.get(x, "") not in ("missing", "err", "panic")}
    cyc = any(on_cycle(imports, x, resolvable) for x in resolvable)
    fault = any(faults.get(x, "") for x in R)
    return {"reach": sorted(R), "cycle": cyc, "fault": fault, "ok": not cyc and not fault}


def coq_case(n, imports, faults, req, par, ok, cycle):
    faults = mfaults(faults)
    rres = [RK[faults.get(i, "")] for i in range(n)]
    lres = [faults.get(i, "") != "link" for i in range(n)]
    return ("{| c_n := %d; c_imports := %s; c_rres := %s; c_lres := %s; c_req := %s; c_par := %d; c_ok := %s; c_cycle := %s |}"
            % (n, coq_list(imports, lambda l: "[" + ";".join(map(str, l)) + "]"), "[" + ";".join(map(str, rres)) + "]",
               coq_list(lres, coq_bool), "[" + ";".join(map(str, req)) + "]", par, coq_bool(ok),
               "None" if cycle is None else "(Some %s)" % coq_bool(cycle)))


def all_graphs(n):
    """every digraph on n nodes, self-loops allowed; import lists in increasing order"""
    subsets = [[d for d in range(n) if m >> d & 1] for m in range(1 << n)]
    for combo in itertools.product(subsets, repeat=n):
        yield [list(c) for c in combo]


def random_graph(rng, n, density, cyclic):
    imports = []
    for i in range(n):
        l = []
        for d in range(n):
            if d == i and not (cyclic and rng.chance(1, 12)):
                continue
            if not cyclic and d <= i:
                continue
            if rng.chance(density, 100):
                l.append(d)
        imports.append(rng.shuffle(l))
    return imports


def json_case(n, imports, req, par, faults=None, yield_seed=0, **kw):
    c = {"n": n, "imports": imports, "req": req, "par": par, "yield": yield_seed}
    if faults:
        c["faults"] = {str(k): v for k, v in faults.items() if v}
    c.update(kw)
    return c
