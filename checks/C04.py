"""C04 - Descriptor views agree with the Go protobuf runtime."""
import glob, os, re, zlib
from vlib import *
import featgen, pgenlib

ID = "C04"
COQ_FILES = ["Common/Corr.v", "Model/FeaturesTables.v", "Model/Features.v", "Model/FieldView.v", "Model/RuntimeSpec.v",
             "Model/Ranges.v", "Model/ViewsCorr.v", "Proofs/Features.v", "Proofs/Ranges.v", "Props/C04.v"]
PROPS = "Props/C04.v"
THEOREMS = ["C04_resolve_feature_is_nearest_override", "C04_has_presence_eq_runtime", "C04_is_packed_eq_runtime",
            "C04_kind_eq_runtime", "C04_cardinality_eq_runtime", "C04_is_map_eq_runtime", "C04_is_list_eq_runtime",
            "C04_has_optional_keyword_eq_runtime", "C04_source_rules_give_no_legacy_required",
            "C04_is_closed_eq_runtime", "C04_required_numbers_eq_runtime",
            "C04_default_int_of_rendered", "C04_default_int_eq_runtime",
            "C04_ranges_has_eq_runtime", "C04_ranges_has_is_membership",
            "C04_text_name_eq_runtime", "C04_text_name_not_lowered"]
AXIOMS_OK = []
TRUSTED = ["hand-written Gallina models: Model/Features.v (internal/editions.ResolveFeature, GetFeatureDefault, GetEditionDefaults, linker resolveFeature, protoutil.ResolveFeature), Model/FieldView.v (fldDescriptor.Cardinality/Kind/HasPresence/IsPacked/HasOptionalKeyword/IsMap/IsList/TextName/looksLikeGroup, enumDescriptor.IsClosed, msgDescriptor.RequiredNumbers)",
           "Model/Ranges.v: hand-written models of fieldRanges.Has / enumRanges.Has (linker: scan in declaration order) and of protobuf-go filedesc FieldRanges.Has / EnumRanges.Has (sorted copy + binary search); both validated on every run against the real Has on every generated message / enum with ranges",
           "Model/RuntimeSpec.v: transcription of protobuf-go v1.36.11 protodesc/filedesc rules (mergeEditionFeatures, initFieldsFromDescriptorProto, desc_resolve.go, filedesc.Field/Extension accessors, isGroupLike / stringName.lazyInit for the text name); validated on every run against protodesc.NewFile on every generated element",
           "transcription script checks/featgen.py (pregen): edition_defaults of descriptor.pb.go's embedded descriptor and editions_defaults.binpb -> Model/FeaturesTables.v; cross-checked on every run against editions.GetEditionDefaults and the runtime's behaviour on featureless files",
           "correspondence harness harness/cmd/views (public API only) and the program generator checks/pgenlib.py"]
ASSUMPTIONS = ["the agreement theorems assume wf_field / wf_enum (Model/RuntimeSpec.v): supported edition; no features in proto2/proto3 files; label in {optional, required, repeated}; a map-entry message is referenced only by its own repeated non-extension message field; LEGACY_REQUIRED never in force for a repeated field, an extension, a oneof member or a map-entry member; map-entry members are plain fields; extensions are not oneof members; proto3_optional only on optional proto3 fields. The check evaluates the guard on every generated element and reports how many satisfy it; from-source programs always do",
               "protobuf-go is the reference and is not verified",
               "default values: Default() of the integer kinds is modelled (parse of the compiled default_value text with the range of the kind) and proved equal to the number the text denotes and to what the runtime reads; defaults of the other kinds (float/double, bool, enum, string, bytes) are compared linker-vs-runtime only",
               "Has of the range views is modelled and proved equal to the runtime's under ranges_valid (non-empty, pairwise non-overlapping ranges, any declaration order; the check evaluates the guard on every observed list); sort.Slice is modelled as insertion sort by start (the starts of a valid list are distinct, so the sorted copy is unique)",
               "text names: TextName() is modelled on both sides for identifiers of ASCII letters, digits and underscores (strings.ToLower = A-Z to a-z); the agreement theorem assumes scopes_by_name (for a non-extension field the runtime's same-file and same-parent-descriptor tests hold exactly when the parent NAMES of field and message type are equal, i.e. full names are unique in a link); the check evaluates this guard on every message-typed field from the runtime's own descriptors; MessageSet extensions (rejected by protodesc.NewFile without the protolegacy tag) are outside the model",
               "attributes outside the modelled vector (names, numbers, JSON names, the text names of fields without a message type, non-integer defaults, Len/Get of ranges, map key/value, oneof membership, services, the lookup methods ByName / ByNumber / ByJSONName / ByTextName / Names.Has / FieldNumbers.Has of every list view, Parent / ParentFile / Options) are compared impl-vs-runtime only (direct oracle), not modelled"]

FEATS = featgen.FEATURES
# The model mirrors the repaired code (fixes C04-required-numbers, C04-is-closed-unknown, C04-map-enum-first-value);
# the refutations of the code before the repairs are kept as lemmas in Proofs/Features.v. The direct oracle keeps
# the three keys of the old findings, so a recurrence is reported as a violation.
REQUIRED_NUMBERS_REPAIRED = True
CHK = "views_chk"
# Group-like lookup aliases: the Go runtime finds a group-like field of a MESSAGE also by its lower-cased JSON name, and
# does NOT find a group-like member of a ONEOF by its field name through ByTextName; the linker's lists differ on both
# (inputs corpus/C04/grouplike-aliases-*.proto, a possible alignment patch in fixes/C04-grouplike-lookup-aliases.diff).
# Judged OUTSIDE the property as stated: C04 is about the attributes each element reports (names, JSON and text names,
# ranges ...), and every canonical name is looked up and compared; which NON-canonical spellings a container lookup also
# accepts is not an attribute of any element. Demanding it would ask more than the property states, so the alias queries
# are asked only with VERIF_C04_GROUPLIKE_ALIASES=1 (exploration; default off) and are neither a finding nor a violation.
GROUPLIKE_ALIASES = os.environ.get("VERIF_C04_GROUPLIKE_ALIASES", "0") == "1"

# ------------------------------------------------------------------------------------------------
def pregen():
    txt = featgen.tables_v(featgen.read_tables(REPO))
    p = os.path.join(COQ, "Model", "FeaturesTables.v")
    old = open(p).read() if os.path.exists(p) else None
    if old != txt:
        with Lock("coq"):
            open(p, "w").write(txt)
        return "Model/FeaturesTables.v rewritten"
    return "Model/FeaturesTables.v up to date"


# ------------------------------------------------------------------------------------------------ Coq terms
def c_opt(v):
    return "None" if v is None or v < 0 else "(Some %d)" % v


def c_fs(vec):
    return "(mkfs %s)" % " ".join(c_opt(v) for v in vec)


def c_chain(chain):
    s = "(CFile %s)" % c_fs(chain[-1])
    for vec in reversed(chain[:-1]):
        s = "(CNest %s %s)" % (c_fs(vec), s)
    return s


def c_field(fin):
    pk = {-1: "None", 0: "(Some false)", 1: "(Some true)"}[fin["packed"]]
    return "(mkfield %d %d %d %d %s %s %s %s %s %s %s)" % (
        fin["ed"], fin["label"], fin["type"], max(fin["number"], 0), coq_bool(fin["ext"]), coq_bool(fin["oneof"]),
        coq_bool(fin["p3opt"]), pk, coq_bool(fin["msgmap"]), coq_bool(fin["parmap"]), c_chain(fin["chain"]))


def c_obs(a):
    return "(mkobs %d %d %s %s %s %s %s)" % (a["card"], a["kind"], coq_bool(a["pres"]), coq_bool(a["packed"]),
                                             coq_bool(a["optkw"]), coq_bool(a["map"]), coq_bool(a["list"]))


INT_KINDS = {3, 4, 5, 6, 7, 13, 15, 16, 17, 18}


def c_string(t):
    return '"%s"%%string' % t.replace('"', '""')


def int_of_def(d):
    """harness rendering of an integer protoreflect.Value: <go type>:<decimal>"""
    m = re.match(r"^u?int(32|64):(-?\d+)$", d or "")
    return int(m.group(2)) if m else None


def c_names(ein):
    mp, _, mn = ein["tname"].rpartition(".")
    return "(mknames %s %s %s %s %s)" % (c_string(ein["pname"]), c_string((ein["parent"] + "." if ein["parent"] else "") + ein["pname"]),
                                         c_string(ein["parent"]), c_string(mn), c_string(mp))


def text_term(ein, lk, rt, rtscope):
    """(VTextName term, stratum, value of the guard scopes_by_name). The stratum names the spelling relation between the
    field's name and the simple name of its message type, where the type is declared, and the kind the linker reports."""
    mp, _, mn = ein["tname"].rpartition(".")
    nm = ein["pname"]
    rel = "lower" if nm == mn.lower() else "caseonly" if nm.lower() == mn.lower() else "other"
    names_eq = mp == ein["parent"]
    guard = True
    rtt = "None"
    if rt is not None and rtscope is not None:
        guard = bool(ein["ext"]) or ((rtscope[0] and rtscope[1]) == names_eq)
        rtt = "(Some (%s, %s, %s))" % (c_string(rt["text"]), coq_bool(rtscope[0]), coq_bool(rtscope[1]))
    t = "VTextName %s %s %s %s %s" % (c_field(ein), c_names(ein), c_string(lk["text"]), rtt, coq_bool(guard))
    tk = "%s-%s-%s%s" % ("group" if lk["kind"] == 10 else "message", rel, "samescope" if names_eq else "otherscope", "-ext" if ein["ext"] else "")
    return t, tk, guard


def c_feat(feat):
    return "[" + "; ".join("None" if v < 0 else "Some %d" % v for v in feat) + "]"


def c_zlist(xs):
    return "[" + "; ".join(coq_Z(x) for x in xs) + "]%Z"


def c_ranges(rs):
    return "[" + "; ".join("(%s, %s)" % (coq_Z(a), coq_Z(b)) for a, b in rs) + "]%Z"


def ranges_valid(incl, rs):
    """mirror of Model/Ranges.ranges_valid_b"""
    last = (lambda r: r[1]) if incl else (lambda r: r[1] - 1)
    return (all(r[0] <= last(r) for r in rs)
            and all(tuple(a) == tuple(b) or last(a) < b[0] or last(b) < a[0] for a in rs for b in rs))


def range_probes(incl, rs, extra):
    """the numbers asked in Coq: a subset of the harness's probes (those around the bounds) to keep the terms short"""
    near = set()
    for a, b in rs:
        for d in (-1, 0, 1):
            near.add(a + d)
            near.add(b + d)
        near.add((a + b) // 2)
    return sorted(n for n in extra if n in near)


def list_diff(a, b):
    """For two list-valued observations: the entries only one side has (a concrete failing query)."""
    if not (isinstance(a, list) and isinstance(b, list)):
        return None
    ka = [repr(x) for x in a]
    kb = [repr(x) for x in b]
    sa, sb = set(ka), set(kb)
    return {"only_linker": [x for x, k in zip(a, ka) if k not in sb][:6], "only_runtime": [x for x, k in zip(b, kb) if k not in sa][:6]}


# ------------------------------------------------------------------------------------------------ guard (mirror of RuntimeSpec.wf_*)
class Tables:
    def __init__(self, t):
        self.code = t["code"]
        self.ed = t["editions"]

    def default(self, ed, k):
        best = None
        for e, v in self.code[FEATS[k]]:
            if e <= ed and (best is None or e > best[0]):
                best = (e, v)
        return best[1] if best else 0

    def resolve(self, ed, chain, k):
        if ed in (self.ed["EDITION_PROTO2"], self.ed["EDITION_PROTO3"]):
            return self.default(ed, k)
        for vec in chain:
            if vec[k] >= 0:
                return vec[k]
        return self.default(ed, k)


def wf_field(T, fin):
    ed = fin["ed"]
    p2, p3, e23 = T.ed["EDITION_PROTO2"], T.ed["EDITION_PROTO3"], T.ed["EDITION_2023"]
    is_ed = ed not in (p2, p3)
    lr = T.resolve(ed, fin["chain"], 0) == 3
    return (ed in (p2, p3, e23)
            and (is_ed or all(v < 0 for vec in fin["chain"] for v in vec))
            and fin["label"] in (1, 2, 3)
            and (not fin["msgmap"] or (fin["type"] == 11 and fin["label"] == 3 and not fin["ext"]))
            and (not (fin["label"] == 3 or fin["ext"] or fin["oneof"] or fin["parmap"]) or not lr)
            and (not fin["parmap"] or (not fin["ext"] and fin["type"] != 10))
            and not (fin["ext"] and fin["oneof"])
            and (not fin["p3opt"] or (fin["label"] == 1 and ed == p3)))


def wf_enum(T, ein):
    ed = ein["ed"]
    p2, p3, e23 = T.ed["EDITION_PROTO2"], T.ed["EDITION_PROTO3"], T.ed["EDITION_2023"]
    return ed in (p2, p3, e23) and (ed not in (p2, p3) or all(v < 0 for vec in ein["chain"] for v in vec))


def et_known(ein):
    return all(vec[1] < 0 or vec[1] in (1, 2) for vec in ein["chain"])


# ------------------------------------------------------------------------------------------------ cases
def corpus_dir():
    """/verif/corpus/C04/*.proto: inputs kept from earlier findings"""
    out = []
    for p in sorted(glob.glob(os.path.join(VERIF, "corpus", "C04", "*.proto"))):
        out.append(open(p).read())
    return out


def repo_corpus():
    out = []
    td = os.path.join(REPO, "internal", "testdata")
    for p in sorted(glob.glob(os.path.join(td, "editions", "*.proto"))):
        out.append({"files": {os.path.basename(p): open(p).read()}, "main": os.path.basename(p), "origin": "repo:" + os.path.relpath(p, REPO)})
    return out


def gen_injections(rng, elems):
    """Feature overrides on messages, oneofs and enums regardless of the declared option targets
    (only possible through the descriptor-proto input form)."""
    inj = []
    targets = [e for e in elems if e["k"] in ("msg", "oneof", "enum") and not e["in"].get("mapentry")]
    rng_targets = rng.shuffle(targets)[: rng.range(1, 4)]
    for e in rng_targets:
        vec = [-1] * 6
        for k in range(6):
            if rng.chance(1, 3):
                hi = {0: 3, 1: 2, 2: 2, 3: 3, 4: 2, 5: 2}[k]
                v = rng.range(0, hi)
                if k == 0 and v == 3 and rng.chance(2, 3):
                    v = rng.range(1, 2)   # LEGACY_REQUIRED above a repeated field leaves the guard; keep it rarer
                vec[k] = v
        if all(v < 0 for v in vec):
            vec[rng.below(6)] = 1
        inj.append([e["name"], vec])
    return inj


def classify_req(T, e):
    """Is the linker/runtime difference on RequiredNumbers exactly the known one?"""
    lk, rt = e["lk"]["req"], e["rt"]["req"]
    by_label = sorted(f["number"] for f in e["in"]["fields"] if f["label"] == 2)
    by_card = sorted(f["number"] for f in e["in"]["fields"]
                     if f["label"] == 2 or (f["label"] == 1 and f["ed"] not in (T.ed["EDITION_PROTO2"], T.ed["EDITION_PROTO3"])
                                            and T.resolve(f["ed"], f["chain"], 0) == 3))
    return sorted(lk) == by_label and sorted(rt) == by_card and by_label != by_card


RT_MAP_ENUM = "map enum value must have zero number for the first value"


def run(ctx):
    import time as _t0
    ctx.extra["t_run_start"] = round(_t0.time() - ctx.t0, 1)
    rng = ctx.rng
    T = Tables(featgen.read_tables(REPO))
    nprog = ctx.budget(100, 1000)
    nadv = ctx.budget(60, 600)
    ninj = ctx.budget(80, 800)
    ngl = ctx.budget(40, 400)
    ctx.rule = ("programs: hand-written corpus + the repository's editions fixtures + %d generated multi-file programs (proto2/proto3/edition 2023; "
                "feature overrides wherever the option targets allow: file, message(json_format), field, enum; messages nested 0-4 deep; maps, groups, "
                "oneofs, proto3 optional, packed options, extensions at file and message scope, *_UNKNOWN feature values) + %d programs of the same generator with "
                "adversarial declaration orders (several extension / reserved ranges per message and enum declared out of ascending order, adjacent, single numbers, "
                "to max, negative enum ranges, int32 extremes; fields, oneofs and range statements of a message shuffled so that numbers and names are not ascending) "
                "+ %d programs of the same generator with group-like strata (editions: message-typed fields whose name is the lower-cased simple name of the "
                "type / equals it only ignoring case / is the very same spelling / a near miss / unrelated, the type declared in the field's scope / inside a "
                "sibling / in the enclosing scope / the containing message itself / an imported file, DELIMITED or LENGTH_PREFIXED or MESSAGE_ENCODING_UNKNOWN on the "
                "field or inherited from the file, singular / repeated / oneof member / extension at message and file scope, with and without json_name; "
                "proto2: groups in extend blocks); TextName() of every message-typed field is also evaluated against the Coq models of both sides, "
                "and the run fails if a stratum (group kind x {lower, caseonly, other} x {samescope, otherscope}) is empty "
                "+ %d variants re-fed as descriptor "
                "protos with overrides of all six features injected on messages, oneofs and enums at any depth; one evaluation = one descriptor element "
                "(field, extension, message, enum, oneof); distinct = distinct (model input, observation) term; non-trivial = an editions element or one "
                "with an option/feature that matters (packed, oneof, map, extension, proto3_optional, required), or a range list of two or more ranges. Every "
                "element is asked through BOTH descriptor implementations with the same queries (computed from the descriptor proto): Len/Get of every list, "
                "Has of reserved / extension ranges, reserved names and required numbers at and around every bound and every field number, ByNumber / ByName / "
                "ByJSONName / ByTextName of the field lists (message and oneof), ByName / ByNumber of enum values, ByName of the message / enum / extension / "
                "oneof / service / method lists for every name in scope in lower and upper case, Parent / ParentFile / Syntax / IsPlaceholder / Options; Has of the "
                "range views is also evaluated against the Coq models of both sides" % (nprog, nadv, ngl, ninj))
    cases = []
    for text in pgenlib.CORPUS_C04 + pgenlib.CORPUS_C04_LOOKUPS + corpus_dir():
        cases.append({"files": {"c.proto": text}, "main": "c.proto", "origin": "corpus"})
    cases += repo_corpus()
    progs = []
    cfg = pgenlib.Cfg()
    for _ in range(nprog):
        p = pgenlib.gen_program(rng, cfg)
        progs.append(p)
        for fn in p.order:
            cases.append({"files": {k: p.files[k] for k in p.order[: p.order.index(fn) + 1]}, "main": fn, "origin": "generated"})
    cfg_adv = pgenlib.Cfg(adversarial_order=True)
    for _ in range(nadv):
        p = pgenlib.gen_program(rng, cfg_adv)
        progs.append(p)
        for fn in p.order:
            cases.append({"files": {k: p.files[k] for k in p.order[: p.order.index(fn) + 1]}, "main": fn, "origin": "generated"})
    # group-like stratum: message-typed fields of editions files for every spelling relation between the field's name and
    # its type's name x where the type is declared x encoding x position (pgenlib Cfg.grouplike); small programs
    cfg_gl = pgenlib.Cfg(grouplike=True, size=2, max_depth=2)
    for _ in range(ngl):
        p = pgenlib.gen_program(rng, cfg_gl, syntax=None if rng.chance(1, 4) else "editions")
        progs.append(p)
        for fn in p.order:
            cases.append({"files": {k: p.files[k] for k in p.order[: p.order.index(fn) + 1]}, "main": fn, "origin": "generated"})
    # table cross-check
    dcase = {"mode": "defaults"}
    outs = ctx.impl("views", [dcase] + [dict({k: c[k] for k in ("files", "main")}, aliases=GROUPLIKE_ALIASES) for c in cases])
    dout, outs = outs[0], outs[1:]
    terms, meta = [], []
    if "code" not in dout:
        raise RuntimeError("defaults probe failed: %r" % dout)
    for ed, vals in sorted(dout["code"].items()):
        terms.append("VDefaults %s [%s]" % (ed, "; ".join(str(max(v, 0)) for v in vals)))
        meta.append(("defaults", {"edition": ed, "GetEditionDefaults": vals}))
        ctx.count(("defaults", ed), True, "tables")
    for ed, r in sorted(dout["rt"].items()):
        if isinstance(r, str):
            ctx.violation("runtime-rejects-featureless-file", "protodesc.NewFile rejected a featureless file of edition " + ed, {"edition": ed, "error": r})
            continue
        terms.append("VRtDefaults %s %s %s %s %s %s" % (ed, coq_bool(r["presence"]), coq_bool(r["required"]), coq_bool(r["packed"]),
                                                        coq_bool(r["delimited"]), coq_bool(r["closed"])))
        meta.append(("rtdefaults", {"edition": ed, "runtime": r}))
        ctx.count(("rtdefaults", ed), True, "tables")

    # injected variants of accepted generated files
    inj_cases = []
    accepted = [(c, o) for c, o in zip(cases, outs) if "elems" in o and c["origin"] == "generated"]
    ed_files = [x for x in accepted if x[1].get("syntax") == "editions"]
    other = [x for x in accepted if x[1].get("syntax") != "editions"]
    # proto2 / proto3 files with injected features must be rejected by the compiler: keep a few as probes
    chosen = rng.shuffle(ed_files)[:ninj] + rng.shuffle(other)[: max(3, ninj // 20)]
    for c, o in chosen:
        inj = gen_injections(rng, o["elems"])
        if inj:
            inj_cases.append({"files": c["files"], "main": c["main"], "inject": inj, "origin": "injected"})
    inj_outs = ctx.impl("views", [dict({k: c[k] for k in ("files", "main", "inject")}, aliases=GROUPLIKE_ALIASES) for c in inj_cases]) if inj_cases else []

    import time as _t
    ctx.extra["t_impl"] = round(_t.time() - ctx.t0, 1)
    seen_terms = {}
    textname_classes = {}
    stats = {"programs": 0, "rejected": 0, "elements": 0, "outside_guard": 0, "outside_guard_diffs": 0, "runtime_rejected": 0}

    def add_term(t, m):
        if t in seen_terms:
            return
        seen_terms[t] = len(terms)
        terms.append(t)
        meta.append(m)

    def replay_of(c, extra):
        r = {"files": c["files"], "main": c["main"], "origin": c["origin"]}
        if "inject" in c:
            r["inject"] = c["inject"]
        r.update(extra)
        return r

    for c, o in list(zip(cases, outs)) + list(zip(inj_cases, inj_outs)):
        injected = c["origin"] == "injected"
        if "crash" in o or "panic" in o:
            ctx.violation("panic", "compiling or inspecting the program panicked / crashed", replay_of(c, {"observed": o}))
            continue
        if "err" in o:
            stats["rejected"] += 1
            ctx.count(("rejected", c["main"], o["err"][:40]), False, "rejected-" + c["origin"])
            if c["origin"] in ("corpus",) or c["origin"].startswith("repo:"):
                ctx.notes.append("corpus program rejected: %s: %s" % (c["origin"], o["err"][:200]))
            continue
        stats["programs"] += 1
        if o.get("errs"):
            ctx.violation("element-missing", "an element of the compiled proto is missing from the linker's or the runtime's descriptor",
                          replay_of(c, {"missing": o["errs"][:5]}))
        elems = o["elems"]
        all_wf = True
        for e in elems:
            if e["k"] == "field":
                e["_wf"] = wf_field(T, e["in"])
            elif e["k"] == "enum":
                e["_wf"] = wf_enum(T, e["in"])
            else:
                e["_wf"] = True
            all_wf = all_wf and e["_wf"]
        for e in elems:
            if e["k"] == "msg":
                e["_wf"] = all(wf_field(T, f) for f in e["in"]["fields"])
        if o.get("rterr"):
            stats["runtime_rejected"] += 1
            if injected and not all_wf:
                stats["outside_guard_diffs"] += 1
            elif RT_MAP_ENUM in o["rterr"]:
                ctx.violation("runtime-rejects-map-enum-first-value-nonzero",
                              "protodesc.NewFile rejects the compiled file: " + o["rterr"], replay_of(c, {"runtime_error": o["rterr"]}))
            elif ("open enum" in o["rterr"] or "open semantics" in o["rterr"]) and \
                    (any(e["k"] == "enum" and not et_known(e["in"]) for e in elems)
                     or any("ENUM_TYPE_UNKNOWN" in t for t in c["files"].values())):
                ctx.violation("is-closed-enum-type-unknown", "an enum whose enum_type resolves to ENUM_TYPE_UNKNOWN is open for the linker and closed "
                              "for the runtime; protodesc.NewFile rejects the compiled file: " + o["rterr"], replay_of(c, {"runtime_error": o["rterr"]}))
            else:
                ctx.violation("runtime-rejects:" + re.sub(r'"[^"]*"', "_", o["rterr"])[:80].replace(" ", "-"),
                              "protodesc.NewFile rejects the compiled file: " + o["rterr"], replay_of(c, {"runtime_error": o["rterr"]}))
        # file and services: direct oracle only
        for what, pair in [("file", o["file"])] + [("svc", s) for s in o.get("svcs", [])]:
            if "rt" in pair and pair["lk"] != pair["rt"]:
                for k in pair["rt"]:
                    if pair["lk"].get(k) != pair["rt"][k]:
                        ctx.violation("%s-%s-differs" % (what, k), "%s attribute %s: linker %r, runtime %r" % (what, k, pair["lk"].get(k), pair["rt"][k]),
                                      replay_of(c, {"attr": k, "linker": pair["lk"].get(k), "runtime": pair["rt"][k],
                                                    "differing_queries": list_diff(pair["lk"].get(k), pair["rt"][k])}))
        add_term("VFeat %d %s %s" % (o["file"]["ed"], c_chain(o["file"]["chain"]), c_feat(o["file"]["feat"])),
                 ("feat", replay_of(c, {"element": "(file)"})))
        for e in elems:
            stats["elements"] += 1
            lk, rt = e.get("lk"), e.get("rt")
            if lk is None:
                continue
            ein = e["in"]
            if not e["_wf"]:
                stats["outside_guard"] += 1
            # ---- direct oracle: linker vs runtime on every attribute
            if rt is not None:
                for k in rt:
                    if lk.get(k) == rt[k]:
                        continue
                    rep = replay_of(c, {"element": e["name"], "kind": e["k"], "attr": k, "linker": lk.get(k), "runtime": rt[k],
                                        "differing_queries": list_diff(lk.get(k), rt[k])})
                    if injected and not e["_wf"]:
                        stats["outside_guard_diffs"] += 1
                        continue
                    if e["k"] == "msg" and k == "req" and classify_req(T, e):
                        key = "required-numbers-ignores-legacy-required"
                    elif e["k"] == "enum" and k == "closed" and not et_known(ein):
                        key = "is-closed-enum-type-unknown"
                    else:
                        key = "%s-%s-differs" % (e["k"], k)
                    ctx.violation(key, "%s %s: %s is %r in the linker's descriptor and %r in the Go runtime's" % (e["k"], e["name"], k, lk.get(k), rt[k]), rep)
            # ---- correspondence terms
            m = (e["k"], replay_of(c, {"element": e["name"], "in": ein, "linker": {k: lk[k] for k in lk if k in ("card", "kind", "pres", "packed", "optkw", "map", "list", "req", "closed", "feat", "def", "hasdef")},
                                       "runtime": None if rt is None else {k: rt[k] for k in rt if k in ("card", "kind", "pres", "packed", "optkw", "map", "list", "req", "closed", "def", "hasdef")}}))
            is_ed = ein["ed"] not in (T.ed["EDITION_PROTO2"], T.ed["EDITION_PROTO3"])
            if e["k"] == "field":
                t = "VFieldAll %s %s %s %s %s" % (c_field(ein), c_obs(lk), c_feat(lk["feat"]),
                                                   "None" if rt is None else "(Some %s)" % c_obs(rt), coq_bool(e["_wf"]))
                nontriv = is_ed or ein["packed"] >= 0 or ein["oneof"] or ein["msgmap"] or ein["ext"] or ein["p3opt"] or ein["label"] == 2 or ein["parmap"] or ein["hasdefval"]
                # Default() of the integer kinds against the model (the other kinds: direct oracle only)
                if ein["label"] != 3 and lk["kind"] in INT_KINDS:
                    lv = int_of_def(lk.get("def"))
                    rv = None if rt is None else int_of_def(rt.get("def"))
                    if lv is not None and (rt is None or rv is not None):
                        dt = "VDefInt %d %s %s %s" % (lk["kind"], "(Some %s)" % c_string(ein["defval"]) if ein["hasdefval"] else "None",
                                                      coq_Z(lv), "None" if rv is None else "(Some %s)" % coq_Z(rv))
                        ctx.count(dt, ein["hasdefval"], "default-int")
                        add_term(dt, ("default-int", m[1]))
                klass = "field-%s%s" % ({998: "proto2", 999: "proto3"}.get(ein["ed"], "editions"), "-injected" if injected else "")
                # TextName() of a message-typed field against the models of both sides
                # (plain message fields whose name is unrelated to the type's name: one in eight, chosen by a hash of the names)
                if ein["type"] in (10, 11) and ein.get("tname") and (
                        lk["kind"] == 10 or ein["pname"].lower() == ein["tname"].rpartition(".")[2].lower()
                        or zlib.crc32((e["name"] + "|" + ein["tname"]).encode()) % 8 == 0):
                    tt, tk, guard = text_term(ein, lk, rt, e.get("rtscope"))
                    if not guard:
                        stats["textname_outside_guard"] = stats.get("textname_outside_guard", 0) + 1
                    ctx.count(tt, lk["kind"] == 10, "textname-" + tk)
                    textname_classes[tk] = textname_classes.get(tk, 0) + 1
                    add_term(tt, ("textname", replay_of(c, {"element": e["name"], "in": ein, "linker_text": lk["text"],
                                                            "runtime_text": None if rt is None else rt["text"], "rtscope": e.get("rtscope")})))
            elif e["k"] == "msg":
                t = "VMsgAll %s %s %s" % (coq_list(ein["fields"], c_field), "[" + "; ".join(str(x) for x in lk["req"]) + "]",
                                          "None" if rt is None else "(Some [%s])" % "; ".join(str(x) for x in rt["req"]))
                add_term("VFeat %d %s %s" % (ein["ed"], c_chain(ein["chain"]), c_feat(lk["feat"])), ("feat", m[1]))
                nontriv = is_ed or any(f["label"] == 2 for f in ein["fields"])
                klass = "message" + ("-injected" if injected else "")
            elif e["k"] == "enum":
                t = "VEnumAll %d %s %s %s %s %s %s" % (ein["ed"], c_chain(ein["chain"]), coq_bool(lk["closed"]), c_feat(lk["feat"]),
                                                       "None" if rt is None else "(Some %s)" % coq_bool(rt["closed"]), coq_bool(e["_wf"]), coq_bool(et_known(ein)))
                nontriv = is_ed
                klass = "enum" + ("-injected" if injected else "")
            else:
                t = "VFeat %d %s %s" % (ein["ed"], c_chain(ein["chain"]), c_feat(lk["feat"]))
                nontriv = is_ed
                klass = "oneof" + ("-injected" if injected else "")
            ctx.count(t, nontriv, klass)
            add_term(t, m)
            # ---- Has of the range views against the models of both sides
            if e["k"] in ("msg", "enum"):
                incl = e["k"] == "enum"
                for rk, hk in (("rsvd", "rsvdhas"),) + ((("extranges", "exthas"),) if not incl else ()):
                    rs = lk.get(rk) or []
                    if not rs:
                        continue
                    asked = range_probes(incl, rs, e.get("probes", []))
                    aset = set(asked)
                    lkh = [n for n in lk.get(hk, []) if n in aset]
                    rth = None if rt is None else [n for n in rt.get(hk, []) if n in aset]
                    valid = ranges_valid(incl, rs)
                    if not valid:
                        stats["ranges_outside_guard"] = stats.get("ranges_outside_guard", 0) + 1
                    rterm = "VRangesHas %s %s %s %s %s %s" % (coq_bool(incl), c_ranges(rs), c_zlist(asked), c_zlist(lkh),
                                                            "None" if rth is None else "(Some %s)" % c_zlist(rth), coq_bool(valid))
                    unsorted = len(rs) > 1 and [r[0] for r in rs] != sorted(r[0] for r in rs)
                    ctx.count(rterm, len(rs) > 1, "ranges-%s%s" % (rk, "-unsorted" if unsorted else ""))
                    add_term(rterm, ("ranges", replay_of(c, {"element": e["name"], "view": rk, "incl": incl, "ranges": rs, "asked": asked,
                                                             "linker_has": lkh, "runtime_has": rth})))
        if len(ctx.samples) < 3 and c["origin"] == "generated" and len(c["files"][c["main"]]) < 900:
            ctx.sample({"main": c["main"], "text": c["files"][c["main"]]})
    stats["grouplike_alias_queries"] = GROUPLIKE_ALIASES
    stats["textname_strata"] = dict(sorted(textname_classes.items()))
    need = ["group-%s-%s" % (a, b) for a in ("lower", "caseonly", "other") for b in ("samescope", "otherscope")]
    empty = [k for k in need if textname_classes.get(k, 0) < 3]
    if empty:
        raise RuntimeError("text-name strata with fewer than 3 fields: %r (have %r)" % (empty, textname_classes))
    ctx.extra["c04_stats"] = stats
    if stats["programs"] < 20:
        raise RuntimeError("too few accepted programs: %r" % stats)
    header = ("From Coq Require Import List NArith Bool.\nImport ListNotations.\n"
              "From PV Require Import Common.Corr Model.FeaturesTables Model.Features Model.FieldView Model.RuntimeSpec Model.Ranges Model.ViewsCorr.\nFrom Coq Require Import ZArith String.\nOpen Scope N_scope.\n")
    ctx.extra["t_terms"] = round(_t.time() - ctx.t0, 1)
    ctx.extra["n_terms"] = len(terms)
    mism, err = coq_eval_mismatches("cases_C04", header, terms, CHK, shard_size=ctx.budget(700, 1500))
    ctx.extra["t_coq"] = round(_t.time() - ctx.t0, 1)
    if err:
        raise RuntimeError(err)
    if mism:
        # attribute each mismatch to the model (linker side) or to the runtime spec
        split_terms, split_meta = [], []
        for k in mism[:200]:
            t, (kind, rep) = terms[k], meta[k]
            if t.startswith("VFieldAll"):
                fin, lk, rt = rep["in"], rep["linker"], rep["runtime"]
                split_terms.append("VField %s %d %d %s %s %s %s %s" % (c_field(fin), lk["card"], lk["kind"], coq_bool(lk["pres"]), coq_bool(lk["packed"]),
                                                                      coq_bool(lk["optkw"]), coq_bool(lk["map"]), coq_bool(lk["list"])))
                split_meta.append(("model:field-views", k))
                split_terms.append("VFeat %d %s %s" % (fin["ed"], c_chain(fin["chain"]), c_feat(lk["feat"])))
                split_meta.append(("model:resolve-feature", k))
                if rt is not None:
                    split_terms.append("VFieldRt %s %d %d %s %s %s %s %s" % (c_field(fin), rt["card"], rt["kind"], coq_bool(rt["pres"]), coq_bool(rt["packed"]),
                                                                            coq_bool(rt["optkw"]), coq_bool(rt["map"]), coq_bool(rt["list"])))
                    split_meta.append(("runtime-spec:field", k))
                split_terms.append("VWfField %s %s" % (c_field(fin), coq_bool(wf_field(T, fin))))
                split_meta.append(("plugin-guard:field", k))
            elif t.startswith("VMsgAll"):
                fins, lk, rt = rep["in"]["fields"], rep["linker"], rep["runtime"]
                split_terms.append("VMsg %s [%s]" % (coq_list(fins, c_field), "; ".join(str(x) for x in lk["req"])))
                split_meta.append(("model:required-numbers", k))
                if rt is not None:
                    split_terms.append("VMsgRt %s [%s]" % (coq_list(fins, c_field), "; ".join(str(x) for x in rt["req"])))
                    split_meta.append(("runtime-spec:required-numbers", k))
            elif t.startswith("VEnumAll"):
                ein, lk, rt = rep["in"], rep["linker"], rep["runtime"]
                split_terms.append("VEnum %d %s %s" % (ein["ed"], c_chain(ein["chain"]), coq_bool(lk["closed"])))
                split_meta.append(("model:is-closed", k))
                split_terms.append("VFeat %d %s %s" % (ein["ed"], c_chain(ein["chain"]), c_feat(lk["feat"])))
                split_meta.append(("model:resolve-feature", k))
                if rt is not None:
                    split_terms.append("VEnumRt %d %s %s" % (ein["ed"], c_chain(ein["chain"]), coq_bool(rt["closed"])))
                    split_meta.append(("runtime-spec:is-closed", k))
                split_terms.append("VWfEnum %d %s %s %s" % (ein["ed"], c_chain(ein["chain"]), coq_bool(wf_enum(T, ein)), coq_bool(et_known(ein))))
                split_meta.append(("plugin-guard:enum", k))
            elif t.startswith("VTextName"):
                fin = rep["in"]
                split_terms.append("VTextLk %s %s %s" % (c_field(fin), c_names(fin), c_string(rep["linker_text"])))
                split_meta.append(("model:text-name", k))
                if rep["runtime_text"] is not None and rep["rtscope"] is not None:
                    split_terms.append("VTextRt %s %s %s %s %s" % (c_field(fin), c_names(fin), c_string(rep["runtime_text"]),
                                                                   coq_bool(rep["rtscope"][0]), coq_bool(rep["rtscope"][1])))
                    split_meta.append(("runtime-spec:text-name", k))
            elif t.startswith("VRangesHas"):
                pre = "%s %s" % (coq_bool(rep["incl"]), c_ranges(rep["ranges"]))
                split_terms.append("VRangesLk %s %s %s" % (pre, c_zlist(rep["asked"]), c_zlist(rep["linker_has"])))
                split_meta.append(("model:ranges-has", k))
                if rep["runtime_has"] is not None:
                    split_terms.append("VRangesRt %s %s %s" % (pre, c_zlist(rep["asked"]), c_zlist(rep["runtime_has"])))
                    split_meta.append(("runtime-spec:ranges-has", k))
                split_terms.append("VRangesValid %s %s" % (pre, coq_bool(ranges_valid(rep["incl"], rep["ranges"]))))
                split_meta.append(("plugin-guard:ranges", k))
            else:
                split_terms.append(t)
                split_meta.append(("model:" + meta[k][0], k))
        m2, err = coq_eval_mismatches("cases_C04s", header, split_terms, CHK, shard_size=400)
        if err:
            raise RuntimeError(err)
        blamed = set()
        for j in m2:
            what, k = split_meta[j]
            blamed.add(k)
            ctx.corr_break("views:" + what, meta[k][1], {"term": split_terms[j][:600]})
        for k in mism:
            if k not in blamed and k < len(meta):
                ctx.corr_break("views:" + meta[k][0], meta[k][1], {"term": terms[k][:600]})
