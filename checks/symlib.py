"""Shared helpers of the C16 / C17 checks (family `symbols`, model coq/Model/Symbols.v):
generators of small descriptor-file universes with planted name / package / extension-number
collisions, translation of the harness observations into Coq terms, a runner for the -race build
that attributes race-detector reports to cases."""
import json, os, re, subprocess, tempfile
from vlib import *

# Two independent switches, one per repair of linker/symbols.go:
#   LOCK_REPAIRED  Lookup / LookupExtension take the read lock (committed to /repo as 3a583125): ON.
#                  The model of the lookups is lookup_prog_fx, C16 claims the full lock-discipline theorems,
#                  concurrent lookups run in the plain build and in the race shard.
#   EXT_REPAIRED   extension numbers pre-checked before the commit (proposed, NOT committed): OFF.
#                  The model of Import is import_gen false; C17 claims the refuted / partial theorems.
LOCK_REPAIRED = os.environ.get("VERIF_SYMBOLS_LOCK_REPAIRED", "1") == "1"
EXT_REPAIRED = os.environ.get("VERIF_SYMBOLS_EXT_REPAIRED", "0") == "1"

COQ_FILES = ["Common/Corr.v", "Model/Symbols.v", "Proofs/Symbols.v", "Proofs/SymbolsSpec.v", "Proofs/SymbolsH.v"]
HEADER = ("From Coq Require Import List NArith ZArith Bool.\nImport ListNotations.\n"
          "From PV Require Import Common.Corr Model.Symbols.\nOpen Scope N_scope.\n")
CHK = {(False, False): "sym_chk", (True, False): "sym_chk_lk", (False, True): "sym_chk_ext", (True, True): "sym_chk_fx"}[(LOCK_REPAIRED, EXT_REPAIRED)]

# ---------------------------------------------------------------- names
COMP = {}
for _i, _c in enumerate(["a", "b", "c", "d", "x", "y", "M", "N", "P", "Q", "E", "V", "W", "e", "f", "g", "q", "p",
                         "x1", "x2", "e1", "e2", "A", "B", "D"]):
    COMP[_c] = _i + 1


def comp_code(c):
    if c not in COMP:
        COMP[c] = len(COMP) + 1
    return COMP[c]


def coq_name(s):
    if s == "":
        return "[]"
    return "[" + ";".join(str(comp_code(c)) for c in s.split(".")) + "]"


def coq_owner(o):
    return "None" if o is None or o < 0 else "(Some %d)" % o


# ---------------------------------------------------------------- universes
PKGS = ["", "a", "a.b", "a.b.c", "b", "a.M", "x", "a"]
MSGN = ["M", "N", "b", "c", "P"]
NEST = ["N", "M", "c"]
FIELDS = ["x", "y"]
ENUMS = ["E", "P"]
VALUES = ["V", "W", "M", "N"]
EXTN = ["e", "f", "M", "V", "g"]
TAGS = [100, 101, 102]


def full(pkg, n):
    return n if pkg == "" else pkg + "." + n


def gen_universe(rng, nfiles, dense=True):
    """Files with ids 0..nfiles-1, deps only on lower ids; names are unique inside each file."""
    files = []
    for i in range(nfiles):
        pkg = rng.choice(PKGS)
        used = set()
        f = {"id": i, "pkg": pkg, "deps": [], "msgs": [], "enums": [], "exts": []}
        for d in range(i):
            if rng.chance(1, 3):
                f["deps"].append(d)
        msgs_here = []
        for _ in range(rng.range(0, 2)):
            n = rng.choice(MSGN)
            if full(pkg, n) in used:
                continue
            used.add(full(pkg, n))
            m = {"name": n, "fields": [], "nested": []}
            msgs_here.append(full(pkg, n))
            if rng.chance(1, 3):
                nn = rng.choice(NEST)
                m["nested"].append(nn)
                used.add(full(pkg, n + "." + nn))
                msgs_here.append(full(pkg, n + "." + nn))
            if rng.chance(1, 3):
                fn = rng.choice(FIELDS)
                m["fields"].append(fn)
                used.add(full(pkg, n + "." + fn))
            f["msgs"].append(m)
        if rng.chance(1, 4):
            en = rng.choice(ENUMS)
            if full(pkg, en) not in used:
                vs = []
                for v in rng.shuffle(VALUES)[: rng.range(1, 2)]:
                    if full(pkg, v) not in used:
                        used.add(full(pkg, v))
                        vs.append(v)
                if vs:
                    used.add(full(pkg, en))
                    f["enums"].append({"name": en, "values": vs})
        # extendable messages: own and those of direct imports
        cand = list(msgs_here)
        for d in f["deps"]:
            cand += files[d]["_msgs"]
        if cand:
            for _ in range(rng.range(0, 2) if dense else rng.range(0, 1)):
                xn = rng.choice(EXTN)
                if full(pkg, xn) in used:
                    continue
                used.add(full(pkg, xn))
                f["exts"].append({"name": xn, "extendee": rng.choice(cand), "tag": rng.choice(TAGS)})
        f["_msgs"] = msgs_here
        f["_names"] = sorted(used)
        files.append(f)
    return files


def strip_private(files):
    return [{k: v for k, v in f.items() if not k.startswith("_")} for f in files]


def universe_queries(files, extra_names=()):
    names = set(extra_names)
    msgs = set()
    for f in files:
        names.update(f["_names"])
        msgs.update(f["_msgs"])
        p = f["pkg"]
        while p:
            names.add(p)
            p = p.rpartition(".")[0]
    names.add("")
    names.add("a.q")
    uexts = [{"msg": m, "tag": t} for m in sorted(msgs) for t in TAGS]
    return sorted(names), uexts


# ---------------------------------------------------------------- Coq terms
def coq_files_let(walks, ids):
    """`let f0 := File ... in let f1 := ... in ` for the files in ascending id order (deps first)."""
    out = []
    for i in ids:
        w = walks[str(i)]
        deps = "[" + "; ".join("f%d" % d for d in w["deps"]) + "]"
        syms = "[" + "; ".join(coq_name(n) for n in w["names"]) + "]"
        exts = "[" + "; ".join("(%s, %s, %s)" % (coq_name(x["pkg"]), coq_name(x["extendee"]), coq_Z(x["tag"])) for x in w["exts"]) + "]"
        out.append("let f%d := File %d %s %s %s %s in" % (i, i, coq_name(w["pkg"]), deps, syms, exts))
    return " ".join(out)


def coq_op(op):
    k = op["op"]
    if k == "import":
        return "OImport f%d" % op["f"]
    if k == "addext":
        return "OAddExt %s %s %s %d" % (coq_name(op["pkg"]), coq_name(op["extendee"]), coq_Z(op["tag"]), op["owner"])
    if k == "lookup":
        return "OLookup %s" % coq_name(op["name"])
    return "OLookupExt %s %s" % (coq_name(op["msg"]), coq_Z(op["tag"]))


def coq_res(r):
    e = r["e"]
    if e == "ok":
        return "ARes Ok"
    if e == "look":
        return "ALook %s" % coq_owner(r["owner"])
    if e == "sym":
        return "ARes (Err (ESym %s %s))" % (coq_name(r["name"]), coq_bool(r["aspkg"]))
    if e == "ext":
        return "ARes (Err (EExt %s %s))" % (coq_name(r["msg"]), coq_Z(r["tag"]))
    if e == "extpkg":
        return "ARes (Err EExtPkg)"
    if e == "nopkg":
        return "ARes (Err ENoPkg)"
    if e == "invalid":
        return "ARes (Err EInvalid)"
    return None


def coq_dump(dump):
    nodes = []
    for n in dump:
        ch = "[" + "; ".join(coq_name(c) for c in n["children"]) + "]"
        sy = "[" + "; ".join("(%s, mkEntry %d %s)" % (coq_name(s["name"]), max(s["owner"], 0) if s["owner"] >= 0 else 999999,
                                                     coq_bool(s["pkg"])) for s in n["symbols"]) + "]"
        ex = "[" + "; ".join("(%s, %s, %d)" % (coq_name(x["msg"]), coq_Z(x["tag"]), x["owner"] if x["owner"] >= 0 else 999999)
                             for x in n["exts"]) + "]"
        fl = "[" + "; ".join(str(x) for x in n["files"]) + "]"
        nodes.append("(%s, mkNode %s %s %s %s)" % (coq_name(n["path"]), ch, sy, ex, fl))
    return "[" + "; ".join(nodes) + "]"


def coq_looks(unames, uexts, look):
    l = "[" + "; ".join("(%s, %s)" % (coq_name(n), coq_owner(o)) for n, o in zip(unames, look["names"])) + "]"
    le = "[" + "; ".join("(%s, %s, %s)" % (coq_name(x["msg"]), coq_Z(x["tag"]), coq_owner(o)) for x, o in zip(uexts, look["exts"])) + "]"
    return l, le


def coq_err(r):
    e = r["e"]
    if e == "sym":
        return "ESym %s %s" % (coq_name(r["name"]), coq_bool(r["aspkg"]))
    if e == "ext":
        return "EExt %s %s" % (coq_name(r["msg"]), coq_Z(r["tag"]))
    return {"extpkg": "EExtPkg", "nopkg": "ENoPkg", "invalid": "EInvalid"}.get(e)


def coq_resH(r):
    if r["e"] == "look":
        return "AHLook %s" % coq_owner(r["owner"])
    rep = [coq_err(x) for x in r["reported"]]
    ret = "Ok" if r["e"] == "ok" else coq_err(r)
    if ret is None or None in rep:
        return None
    return "AHRes [%s] %s" % ("; ".join("(%s)" % x for x in rep), ret if ret == "Ok" else "(Err (%s))" % ret)


def coq_seqH_case(inp, out):
    ids = [f["id"] for f in inp["files"]]
    obs = []
    for st in out["steps"]:
        r = coq_resH(st["res"])
        if r is None:
            return None
        l, le = coq_looks(inp["unames"], inp["uexts"], st["look"])
        obs.append("mkStepObsH (%s) %s %s %s" % (r, coq_dump(st["dump"]), l, le))
    mode = "HCollect" if inp.get("handler") == "collect" else "HAbort"
    return "(%s CSeqH %s [%s] [%s])" % (coq_files_let(out["walks"], ids), mode, "; ".join(coq_op(o) for o in inp["ops"]), "; ".join(obs))


def coq_partH_case(inp, walks, fs, anyfail, look):
    ids = [f["id"] for f in inp["files"]]
    l, le = coq_looks(inp["unames"], inp["uexts"], look)
    mode = "HCollect" if inp.get("handler") == "collect" else "HAbort"
    return "(%s CPartH %s [%s] %s %s %s)" % (coq_files_let(walks, ids), mode, "; ".join("f%d" % i for i in fs), coq_bool(anyfail), l, le)


def op_failed(r):
    return r["e"] != "look" and (r["e"] != "ok" or bool(r.get("reported")))


def render_proto(f):
    lines = ['syntax = "proto2";']
    if f["pkg"]:
        lines.append("package %s;" % f["pkg"])
    for d in f["deps"]:
        lines.append('import "f%d.proto";' % d)
    for m in f["msgs"]:
        lines.append("message %s {" % m["name"])
        lines.append("  extensions 100 to 999;")
        for k, fn in enumerate(m["fields"]):
            lines.append("  optional int32 %s = %d;" % (fn, k + 1))
        for n in m["nested"]:
            lines.append("  message %s { extensions 100 to 999; }" % n)
        lines.append("}")
    for e in f["enums"]:
        lines.append("enum %s { %s }" % (e["name"], " ".join("%s = %d;" % (v, k) for k, v in enumerate(e["values"]))))
    for x in f["exts"]:
        lines.append("extend .%s { optional int32 %s = %d; }" % (x["extendee"], x["name"], x["tag"]))
    return "\n".join(lines) + "\n"


def with_variant(inp, handler, kind):
    """The same case under the given handler kind (strict / collect) and import path (desc = protodesc
    descriptors, importFile; result = compiled linker.Result values, importResult)."""
    out = dict(inp, handler=handler, kind=kind)
    if kind == "result":
        out["sources"] = {"f%d.proto" % f["id"]: render_proto(f) for f in inp["files"]}
    return out


def coq_seq_case(inp, out):
    ids = [f["id"] for f in inp["files"]]
    obs = []
    for st in out["steps"]:
        r = coq_res(st["res"])
        if r is None:
            return None
        l, le = coq_looks(inp["unames"], inp["uexts"], st["look"])
        obs.append("mkStepObs (%s) %s %s %s" % (r, coq_dump(st["dump"]), l, le))
    return "(%s CSeq [%s] [%s])" % (coq_files_let(out["walks"], ids), "; ".join(coq_op(o) for o in inp["ops"]), "; ".join(obs))


def coq_part_case(inp, walks, fs, anyerr, look):
    ids = [f["id"] for f in inp["files"]]
    l, le = coq_looks(inp["unames"], inp["uexts"], look)
    return "(%s CPart [%s] %s %s %s)" % (coq_files_let(walks, ids), "; ".join("f%d" % i for i in fs), coq_bool(anyerr), l, le)


# ---------------------------------------------------------------- race build runner
RACE_RE = re.compile(r"WARNING: DATA RACE")


def run_race(ctx, inputs, timeout=900):
    """Runs the -race build of the family one case at a time and returns (outputs, reports) where
    reports[i] is what the race detector (and the Go runtime, if it aborts the process) printed while
    case i ran.  A case that kills the process is answered {"crash": ...}; the harness is restarted
    for the remaining cases."""
    ctx.impl("symbols", [], race=True)          # builds (cached) and records the binary
    binp = ctx.bins[("symbols", True)]
    outs, reports = [], []
    k = 0
    while k < len(inputs):
        logbase = tempfile.mktemp(prefix="race-", dir=CACHE)
        errpath = logbase + ".stderr"
        env = dict(os.environ, GORACE="halt_on_error=0 log_path=%s" % logbase)
        errf = open(errpath, "w")
        p = subprocess.Popen(["timeout", str(timeout), binp], stdin=subprocess.PIPE, stdout=subprocess.PIPE,
                             stderr=errf, text=True, env=env)
        seen = 0

        def logs():
            txt = ""
            for fn in sorted(f for f in os.listdir(CACHE) if f.startswith(os.path.basename(logbase)) and not f.endswith(".stderr")):
                txt += open(os.path.join(CACHE, fn)).read()
            return txt
        try:
            while k < len(inputs):
                try:
                    p.stdin.write(json.dumps(inputs[k]) + "\n")
                    p.stdin.flush()
                    line = p.stdout.readline()
                except BrokenPipeError:
                    line = ""
                txt = logs()
                if not line:
                    p.wait()
                    errf.flush()
                    fatal = open(errpath).read()
                    outs.append({"crash": "race harness exited with %s" % p.returncode, "stderr": fatal[:3000]})
                    reports.append(txt[seen:] + ("\n==================\n" + fatal[:6000] if fatal.strip() else ""))
                    k += 1
                    break
                try:
                    outs.append(json.loads(line))
                except Exception:
                    outs.append({"crash": "unparsable: " + line[:200]})
                reports.append(txt[seen:])
                seen = len(txt)
                k += 1
        finally:
            try:
                p.stdin.close()
            except Exception:
                pass
            p.wait()
            errf.close()
            for fn in [f for f in os.listdir(CACHE) if f.startswith(os.path.basename(logbase))]:
                os.remove(os.path.join(CACHE, fn))
    return outs, reports


FATAL_RE = re.compile(r"fatal error: concurrent map (read and map write|writes|iteration and map write)")


def fatal_of(out):
    """(key, text) if the Go runtime aborted the process because of an unsynchronised map access."""
    txt = out.get("stderr", "") if isinstance(out, dict) else ""
    m = FATAL_RE.search(txt)
    if not m:
        return None
    first = txt[m.start():].split("\n\n")[1] if "\n\n" in txt[m.start():] else txt[m.start():]
    fr = re.findall(r"linker\.\(\*(?:Symbols|packageSymbols)\)\.(\w+)", first)
    key = "lookup-without-rlock" if fr and fr[0] in ("Lookup", "LookupExtension") else "data-race"
    return key, "the Go runtime aborts with '%s' in %s" % (m.group(0), fr[0] if fr else "?")


def split_reports(txt):
    return [b for b in txt.split("==================") if RACE_RE.search(b)]


def classify_race(block):
    """Key of one race-detector report: the unlocked map read of Lookup / LookupExtension is the
    known defect class; anything else is a different race."""
    frames = re.findall(r"linker\.\(\*(?:Symbols|packageSymbols)\)\.(\w+)", block)
    first_frames = []
    for part in re.split(r"\n\n", block):
        m = re.search(r"linker\.\(\*(?:Symbols|packageSymbols)\)\.(\w+)", part)
        if m and ("by goroutine" in part.split("\n")[0] or "by goroutine" in part[:200]):
            first_frames.append(m.group(1))
    if any(f in ("Lookup", "LookupExtension") for f in first_frames):
        return "lookup-without-rlock", first_frames
    return "data-race", first_frames or frames[:2]
