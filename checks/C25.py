"""C25 - Fast import scanner agrees with the full parser."""
import glob, os
from vlib import *

ID = "C25"
COQ_FILES = ["Common/Bytes.v", "Common/Corr.v", "Model/Utf8.v", "Model/Lexer.v", "Proofs/Utf8.v", "Proofs/Lexer.v",
             "Model/FastScan.v", "Proofs/FastScanDecls.v", "Proofs/FastScanLex.v", "Proofs/FastScan.v", "Props/C25.v"]
PROPS = "Props/C25.v"
THEOREMS = ["C25_scan_tokens_of_decls", "C25_string_decode_agree", "C25_fast_lex_agree", "C25_fast_scan_accepted",
            "C25_fast_scan_total", "C25_fast_string_total",
            "C25_string_decode_agree_unsigned", "C25_fast_scan_accepted_unsigned", "C25_fast_scan_total_unsigned"]
# Which instance of the model the working tree is compared with.  "signed": the tree as it is (strconv.ParseInt on the digits
# of hex and unicode escapes, a sign is accepted); "unsigned": after fixes/C25-fastscan-signed-escapes-optional.diff (ParseUint).
MODEL = os.environ.get("VERIF_C25_MODEL", "signed")
CHK = {"signed": "(fs_chk hex_signed)", "unsigned": "(fs_chk hex_unsigned)"}
AXIOMS_OK = []
TRUSTED = ["hand-written Gallina mirror of parser/fastscan/lexer.go (Lex, readNumber, readIdentifier, readStringLiteral incl. "
           "strconv.ParseInt on the escape digits, comments, BOM) and of the token loop of fastscan.Scan (Model/FastScan.v)",
           "hand-written Gallina mirror of parser/lexer.go (Model/Lexer.v, shared with C11/C12/C14) and of utf8.DecodeRune (Model/Utf8.v)",
           "correspondence harness harness/cmd/fastscan + verif hook fastscan.VerifTokens"]
ASSUMPTIONS = ["that every file the yacc grammar accepts is a list of declarations in the sense of wf_decls (imports, package, "
               "syntax/edition, other declarations that end at their first depth-0 semicolon or closing brace) is not proved; "
               "it is explored by the direct oracle on generated accepted files",
               "bufio.Reader.ReadRune is modelled by utf8.DecodeRune on the remaining bytes (the one-byte-reader runs exercise "
               "the buffer refill path); I/O errors other than EOF are not modelled",
               "accepted = parser.Parse reports no error and parser.ResultFromAST(validate=true) reports no error; "
               "line/column positions of the scanner's syntax errors are not modelled (only their kinds, in order)"]

TOK_STRING, TOK_NUMBER, TOK_IDENT = 65537, 65538, 65539

ERR_CODES = [("; expecting semicolon", 0), ("; expecting import path string", 1),
             ("package name should have a period between name components", 2),
             ("package name should not begin with a period", 3),
             ("package name should not have two periods in a row", 4),
             ("package name should not end with a period", 5),
             ("; expecting package name", 6)]


def err_code(msg):
    for suffix, c in ERR_CODES:
        if msg.endswith(suffix):
            return c
    return 99


# ---------------------------------------------------------------- generator of source texts
WS = [b" ", b" ", b" ", b"\n", b"\n", b"\t", b"\r\n", b"\x0c", b"\x0b", b"  ", b"\n\n", b" \t "]
COMMENTS = [b"/* c */", b"/**/", b"/***/", b"/* import \"no.proto\"; */", b"/* package no; */", b"/* } ; */", b"/* \" */", b"/* ' */",
            b"// line\n", b"//\n", b"// import \"no.proto\";\n", b"// package no;\n", b"// \" unterminated\n", b"/* a\n * b\n */",
            b"/* * / */", b"/*/ */", b"// /* \n", b"/* // */", b"/* \xc3\xa9 \xff */", b"// \xe2\x82\xac\n"]
WORDY = set(b"abcdefghijklmnopqrstuvwxyzABCDEFGHIJKLMNOPQRSTUVWXYZ0123456789_.+-")
IDENTS = ["a", "b", "Foo", "bar_baz", "x1", "import", "package", "public", "weak", "option", "syntax", "message", "_", "M2",
          "stream", "returns", "to", "max", "inf", "nan", "true", "false", "edition", "export", "local", "map", "group"]
PKG_IDENTS = ["foo", "bar", "a", "b1", "import", "package", "public", "weak", "option", "message", "syntax", "_x", "Z9", "to", "rpc"]


def gap(rng, need, no_comment=False):
    """bytes between two tokens; `need`: at least one separating character"""
    parts = []
    n = rng.choice([0, 0, 1, 1, 1, 2, 3])
    if need and n == 0:
        n = 1
    for _ in range(n):
        if not no_comment and rng.chance(1, 5):
            parts.append(rng.choice(COMMENTS))
        else:
            parts.append(rng.choice(WS))
    if no_comment and parts and parts[0][:1] == b"/":
        parts.insert(0, b" ")
    return b"".join(parts)


def join_tokens(rng, toks, calm=False):
    out = [gap(rng, False) if not calm else b""]
    for i, t in enumerate(toks):
        out.append(t)
        if i + 1 < len(toks):
            nxt = toks[i + 1]
            need = (t[-1] in WORDY and nxt[0] in WORDY)
            # a slash token must not be glued to a comment or to another slash or star
            after_slash = t == b"/"
            if calm:
                out.append(b" " if need or rng.chance(1, 2) else b"")
            else:
                g = gap(rng, need, no_comment=after_slash)
                out.append(g)
    out.append(gap(rng, False) if not calm else b"\n")
    return b"".join(out)


PLAIN = b"abcxyz_/.-0189 ABC+:;{}<>()[]=,#@!~*"
ESCAPES = [b"\\n", b"\\t", b"\\r", b"\\a", b"\\b", b"\\f", b"\\v", b"\\\\", b"\\'", b"\\\"", b"\\?",
           b"\\x41", b"\\X4a", b"\\x7", b"\\xfF", b"\\x0", b"\\x00", b"\\x4g", b"\\x5.", b"\\xa/",
           b"\\0", b"\\7", b"\\12", b"\\101", b"\\377", b"\\18", b"\\1019", b"\\08", b"\\779",
           b"\\u0041", b"\\u00e9", b"\\u20AC", b"\\uD800", b"\\udfff", b"\\uFFFF", b"\\u0000",
           b"\\U00000041", b"\\U0001F600", b"\\U0010FFFF", b"\\U0000d800", b"\\U00000000"]
BAD_ESCAPES = [b"\\x+5", b"\\x-5", b"\\x+", b"\\x-f", b"\\u+123", b"\\u-123", b"\\U+0000041", b"\\U-0000001", b"\\U+010FFFF",
               b"\\q", b"\\x", b"\\xg", b"\\400", b"\\u12", b"\\U0011FFFF", b"\\UFFFFFFFF", b"\\U7FFFFFFF", b"\\U80000000",
               b"\\u12\\n", b"\\x\\n", b"\\", b"\n", b"\x00", b"\\u00_1", b"\\x_1", b"\\U0000_041", b"\\\n", b"\\\xff", b"\\x\xc3\xa9"]
RAW_BYTES = [b"\xc3\xa9", b"\xe2\x82\xac", b"\xf0\x9f\x98\x80", b"\xff", b"\xc3", b"\xe2\x82", b"\xed\xa0\x80", b"\xf4\x90\x80\x80", b"\x7f", b"\x01",
             b"\xef\xbb\xbf", b"\xf0\x90\x80\x81"]


def string_lit(rng, bad=False, simple=False):
    q = rng.choice([b'"', b"'"])
    other = b"'" if q == b'"' else b'"'
    n = rng.choice([0, 1, 2, 3, 5, 8]) if not simple else rng.range(1, 4)
    body = []
    for _ in range(n):
        k = rng.below(10)
        if simple or k < 4:
            body.append(bytes([rng.choice(PLAIN)]))
        elif k < 7:
            body.append(rng.choice(ESCAPES))
        elif k < 8:
            body.append(other)
        elif k < 9:
            body.append(rng.choice(RAW_BYTES))
        else:
            body.append(rng.choice(ESCAPES) + bytes([rng.choice(b"0123456789abcdefABCDEFgG+-\\")]).replace(b"\\", b"\\\\"))
    if bad:
        body.insert(rng.below(len(body) + 1), rng.choice(BAD_ESCAPES))
    return q + b"".join(body) + q


def string_value(rng, bad=False, simple=False):
    """one or more adjacent string literals (implicit concatenation)"""
    n = rng.choice([1, 1, 1, 2, 2, 3, 4]) if not simple else 1
    lits = [string_lit(rng, simple=simple) for _ in range(n)]
    if bad:
        lits[rng.below(n)] = string_lit(rng, bad=True)
    return lits


def ident(rng):
    return rng.choice(IDENTS).encode()


def scalar_value(rng):
    k = rng.below(9)
    if k == 0:
        return string_value(rng)
    if k == 1:
        return [ident(rng)]
    if k == 2:
        return [rng.choice([b"1", b"0", b"0x1F", b"077", b"1.5", b".5", b"1e3", b"1.e-3", b"2E+7", b"12345678901234567890123"])]
    if k == 3:
        return [b"-", rng.choice([b"1", b"inf", b"nan", b"2.5", b"0x10"])]
    if k == 4:
        return [b"import"]
    if k == 5:
        return [b"package"]
    if k == 6:
        return [b"-", b"3"]
    return [rng.choice([b"true", b"false", b"inf", b"FOO", b"import"])]


def msg_literal(rng, depth, angle_ok=True):
    op, cl = (b"<", b">") if (angle_ok and rng.chance(1, 3)) else (b"{", b"}")
    toks = [op]
    for _ in range(rng.choice([0, 1, 1, 2, 3])):
        k = rng.below(8)
        if k == 0:
            toks += [b"[", b"a", b".", b"import", b"]"]
        elif k == 1:
            toks += [b"[", b"type", b".", b"googleapis", b".", b"com", b"/", b"foo", b".", b"Bar", b"]"]
        else:
            toks += [ident(rng)]
        v = rng.below(7)
        if v == 0 and depth < 3:
            if rng.chance(1, 2):
                toks += [b":"]
            toks += msg_literal(rng, depth + 1)
        elif v == 1:
            toks += [b":", b"["]
            m = rng.below(3)
            for j in range(m):
                toks += scalar_value(rng) if rng.chance(2, 3) or depth >= 3 else msg_literal(rng, depth + 1)
                if j + 1 < m:
                    toks += [b","]
            toks += [b"]"]
        else:
            toks += [b":"] + scalar_value(rng)
        if rng.chance(1, 2):
            toks += [rng.choice([b",", b";"])]
    toks += [cl]
    return toks


def option_name(rng):
    k = rng.below(5)
    if k == 0:
        return [ident(rng)]
    if k == 1:
        return [b"(", ident(rng), b")"]
    if k == 2:
        return [b"(", b".", ident(rng), b".", ident(rng), b")", b".", ident(rng)]
    if k == 3:
        return [b"(", b"import", b")", b".", b"package"]
    return [ident(rng), b".", ident(rng)]


def option_decl(rng):
    toks = [b"option"] + option_name(rng) + [b"="]
    toks += msg_literal(rng, 0, angle_ok=False) if rng.chance(2, 5) else scalar_value(rng)
    return toks + [b";"]


def compact_options(rng):
    toks = [b"["]
    n = rng.range(1, 2)
    for j in range(n):
        toks += option_name(rng) + [b"="] + (msg_literal(rng, 1, angle_ok=False) if rng.chance(1, 4) else scalar_value(rng))
        if j + 1 < n:
            toks += [b","]
    return toks + [b"]"]


TYPES = [b"int32", b"string", b"bytes", b"bool", b"Foo", b"import", b"package"]


def type_name(rng):
    k = rng.below(6)
    if k == 0:
        return [b".", b"a", b".", b"Foo"]
    if k == 1:
        return [b"a", b".", b"import", b".", b"B"]
    return [rng.choice(TYPES)]


def field(rng, syntax, num):
    toks = []
    if syntax == "proto2":
        toks += [rng.choice([b"optional", b"repeated", b"required"])]
    elif rng.chance(1, 3):
        toks += [rng.choice([b"optional", b"repeated"])]
    toks += type_name(rng) + [ident(rng), b"=", str(num).encode()]
    if rng.chance(1, 4):
        toks += compact_options(rng)
    return toks + [b";"]


def message_body(rng, syntax, depth):
    toks = [b"{"]
    num = 1
    for _ in range(rng.choice([0, 1, 2, 3, 4])):
        k = rng.below(14)
        if k < 5:
            toks += field(rng, syntax, num)
        elif k == 5 and depth < 3:
            toks += [b"message", ident(rng)] + message_body(rng, syntax, depth + 1)
        elif k == 6:
            toks += enum_decl(rng)
        elif k == 7:
            toks += option_decl(rng)
        elif k == 8:
            toks += [b"map", b"<", b"string", b",", rng.choice(TYPES), b">", ident(rng), b"=", str(num).encode(), b";"]
        elif k == 9:
            toks += [b"oneof", ident(rng), b"{"] + type_name(rng) + [ident(rng), b"=", str(num).encode(), b";"]
            if rng.chance(1, 2):
                toks += option_decl(rng)
            toks += [b"}"]
        elif k == 10:
            toks += [b"reserved"] + (([b"1", b"to", b"max"] if rng.chance(1, 2) else [b"5", b",", b"7", b"to", b"9"])
                                     if rng.chance(1, 2) or syntax == "editions" else string_value(rng, simple=True)) + [b";"]
        elif k == 11 and syntax == "proto2":
            toks += [b"extensions", b"100", b"to", rng.choice([b"200", b"max"])]
            if rng.chance(1, 3):
                toks += compact_options(rng)
            toks += [b";"]
        elif k == 12 and syntax == "proto2" and depth < 3:
            toks += [b"optional", b"group", b"Grp", b"=", str(num).encode()] + message_body(rng, syntax, depth + 1)
        else:
            toks += [b";"]
        num += 1
    return toks + [b"}"]


def enum_decl(rng):
    toks = [b"enum", ident(rng), b"{"]
    if rng.chance(1, 4):
        toks += option_decl(rng)
    for i in range(rng.range(1, 3)):
        nm = ident(rng)
        toks += [nm if nm not in (b"option", b"reserved") else b"opt", b"="] + ([b"-"] if rng.chance(1, 6) else []) + [str(i).encode()]
        if rng.chance(1, 4):
            toks += compact_options(rng)
        toks += [b";"]
    return toks + [b"}"]


def service_decl(rng):
    toks = [b"service", ident(rng), b"{"]
    for _ in range(rng.range(0, 3)):
        if rng.chance(1, 5):
            toks += option_decl(rng)
            continue
        toks += [b"rpc", ident(rng), b"("] + ([b"stream"] if rng.chance(1, 3) else []) + type_name(rng) + [b")", b"returns", b"("]
        toks += ([b"stream"] if rng.chance(1, 3) else []) + type_name(rng) + [b")"]
        if rng.chance(1, 2):
            toks += [b";"]
        else:
            toks += [b"{"]
            for _ in range(rng.range(0, 2)):
                toks += option_decl(rng)
            toks += [b"}"]
    return toks + [b"}"]


def extend_decl(rng, syntax):
    toks = [b"extend"] + type_name(rng) + [b"{"]
    for i in range(rng.range(1, 2)):
        toks += field(rng, syntax, 100 + i)
    return toks + [b"}"]


def import_decl(rng, syntax, used, bad=False):
    toks = [b"import"]
    mods = [None, None, None, b"public", b"weak"] + ([b"option"] if syntax == "2024" else [])
    m = rng.choice(mods)
    if m:
        toks.append(m)
    for _ in range(20):
        sv = string_value(rng, bad=bad)
        key = b"\x00".join(sv)
        if key not in used:
            break
    used.add(key)
    return toks + sv + [b";"]


def package_decl(rng):
    toks = [b"package"]
    n = rng.choice([1, 1, 2, 3, 4])
    for i in range(n):
        toks.append(rng.choice(PKG_IDENTS).encode())
        if i + 1 < n:
            toks.append(b".")
    return toks + [b";"]


def gen_file_tokens(rng, bad_escape=False):
    """token list of a file the full parser is meant to accept"""
    syntax = rng.choice(["proto2", "proto3", "proto3", "editions", "2024", None])
    toks = []
    if syntax in ("proto2", "proto3"):
        q = rng.choice([b'"', b"'"])
        toks += [b"syntax", b"=", q + syntax.encode() + q, b";"]
    elif syntax == "editions":
        toks += [b"edition", b"=", b'"2023"', b";"]
    elif syntax == "2024":
        toks += [b"edition", b"=", b'"2024"', b";"]
    body_syntax = {"proto2": "proto2", "proto3": "proto3", "editions": "editions", "2024": "editions", None: "proto2"}[syntax]
    used = set()
    decls = []
    nimp = rng.choice([0, 1, 1, 2, 3, 5])
    for i in range(nimp):
        decls.append(import_decl(rng, syntax, used, bad=(bad_escape and i == 0)))
    if rng.chance(4, 5):
        decls.append(package_decl(rng))
    for _ in range(rng.choice([0, 1, 2, 3, 5])):
        k = rng.below(8)
        if k < 2:
            decls.append([b"message", ident(rng)] + message_body(rng, body_syntax, 0))
        elif k == 2:
            decls.append(enum_decl(rng))
        elif k == 3:
            decls.append(service_decl(rng))
        elif k == 4:
            decls.append(extend_decl(rng, body_syntax))
        elif k == 5:
            decls.append([b";"])
        else:
            decls.append(option_decl(rng))
    if rng.chance(2, 3):
        rng.shuffle(decls)
    for d in decls:
        toks += d
        if rng.chance(1, 8):
            toks += [b";"]
    return toks


def gen_accepted_text(rng, calm=False):
    toks = gen_file_tokens(rng)
    text = join_tokens(rng, toks, calm=calm)
    if rng.chance(1, 10):
        text = b"\xef\xbb\xbf" + text
    return text


CORPUS = [
    b"", b";", b"\xef\xbb\xbf", b"syntax = \"proto3\";", b"package a;", b"package a.b.c;", b"import \"a.proto\";",
    b"import public \"a.proto\"; import weak 'b.proto'; import \"c\" 'd' \"e\";",
    b"edition = \"2024\"; import option \"o.proto\"; import \"p.proto\";",
    b"import \"a\\x41\\101\\u0041\\U00000041\\n.proto\";",
    b"import \"\\x4\" \"1\";", b"import \"\\1\" \"01\";", b"import \"\\x4g\";", b"import '\\18';",
    b"import \"\xff\xc3\xa9\xe2\x82\";", b"import \"\\ud800\\U0010ffff\";",
    b"message M { optional int32 import = 1; } import \"after.proto\";",
    b"option (x) = { import: \"no\" package: 1 }; import \"yes.proto\";",
    b"option (x) = { a < import: 1 > b { package: 2 } }; package p; import \"i\";",
    b"option java_package = \"import\"; option x = import; option y = package;",
    b"package import; import \"package\";", b"package package.import.weak;",
    b"message import { message package { } } import \"z\";",
    b"service S { rpc import(package) returns (import) { option x = 1; } } import \"k\";",
    b"enum E { import = 0; package = 1; } package q;",
    b"extend import { optional package import = 100; } import \"e\";",
    b"message M { map<string, import> package = 1; oneof import { int32 x = 2; } } import \"m\";",
    b"import\"a\";package\tb\x0c;", b"import/*c*/\"a\"/*d*/'b'//e\n;", b"import // c\n \"a\" /* x */ ;",
    b"package /* a */ x /* b */ . /* c */ y // d\n ;",
    b"import \"a\";;; package b;; message M {};", b";;import \"a\";",
    b"message M { option (o) = { [a.b/c.D] { x: 1 } }; } import \"t\";",
    b"message M { optional group G = 1 { } } import \"g\";",
    b"option (o) = { s: \"}\" t: '{' u: \";\" }; import \"q\";",
    b"option (o) = { a: [ { b: 1 }, { c < d: 2 > } ] }; import \"l\";",
    # rejected by the full parser (the scanner must survive them)
    b"import \"\\x+5\";", b"import \"\\x-5\";", b"import \"\\u+123\";", b"import \"\\U-0000001\";", b"import \"\\u-123\";",
    b"import \"a", b"import \"a\\", b"import \"\\x", b"import \"\\x4", b"import \"\\1", b"import \"\\12", b"import \"\\u1", b"import \"\\U123",
    b"import \"\\u12\";", b"import", b"import ;", b"import public;", b"import public weak \"a\";", b"import \"a\" package b;",
    b"package", b"package ;", b"package .a;", b"package a..b;", b"package a b;", b"package a.;", b"package a. import \"x\";",
    b"import \"a\"\x00; import \"b\";", b"\x00import \"a\";", b"import \"a\x00b\";", b"/* unterminated import \"a\";", b"// c",
    b"/", b".", b".5", b"1.5e+", b"}}} import \"a\";", b"{ import \"a\"; }", b"( ] import \"a\"; ) import \"b\";",
    b"message M { } } import \"a\";", b"< > import \"a\";", b"< import \"a\"; > import \"b\";", b"[ import \"a\"; ] import \"b\";",
    b"{ import \"a\"; } import \"b\";", b"( import \"a\"; ) import \"b\";", b"< package a; > package b;", b"( { [ < > ] } ) ; import \"c\";",
    b"( > import \"a\"; ) ; import \"b\";", b"> ; import \"a\";", b"} import \"a\";", b") import \"a\";", b"import \"a\" 1;", b"import \"a\"\nimport \"b\";",
    b"\xf0\x90\x80\x81", b"import \xf0\x90\x80\x81 ;", b"import \"a\" \xf0\x90\x80\x81 \"b\";", b"\xf0\x90\x80\x82 \xf0\x90\x80\x83 import",
    b"package a \xf0\x90\x80\x83 b;", b"package \xf0\x90\x80\x81;", b"\xff import \"a\";", b"import \"a\"\xff;",
    b"import \"a\nb\";", b"import 'a\\\nb';", b"import \"\\U0011FFFF\";", b"import \"\\UFFFFFFFF\";", b"import \"\\U80000000\";",
    b"import \"\\400\";", b"import \"\\q\";", b"import \"\\x\xc3\xa9\";", b"import \"\\x\xff\";", b"import \"\\u\xff\xff\xff\xff\";",
]


def testdata_texts():
    return [open(p, "rb").read() for p in sorted(glob.glob(os.path.join(REPO, "internal", "testdata", "*.proto")))]


def mutate(rng, t):
    t = bytearray(t)
    k = rng.below(7)
    if k == 0 and len(t) > 2:            # truncate
        t = t[:rng.below(len(t))]
    elif k == 1 and t:                   # overwrite a few bytes
        for _ in range(rng.range(1, 3)):
            t[rng.below(len(t))] = rng.choice([0, 0x22, 0x27, 0x5c, 0x2f, 0x2a, 0x0a, 0xff, 0xc3, 0x7b, 0x7d, 0x3b, 0x3c, 0x3e, 0x28, 0x29, 0x5b, 0x5d, 0x2e, 0x20])
    elif k == 2 and t:                   # delete a slice
        a = rng.below(len(t))
        del t[a:a + rng.range(1, 6)]
    elif k == 3:                         # insert an import / package statement somewhere
        a = rng.below(len(t) + 1)
        ins = rng.choice([b" import \"ins.proto\"; ", b" package ins.pkg; ", b" import public 'p' \"q\"; ", b"import", b"package", b";", b"}", b"{",
                          b" import weak \"w\\x41\"; ", b"<", b">", b"\"", b"/*", b"*/", b"//", b"\\", b" option (o) = { a < b: 1 > }; "])
        t[a:a] = ins
    elif k == 4 and t:                   # duplicate a slice
        a = rng.below(len(t))
        b = a + rng.range(1, 30)
        t[a:a] = t[a:b]
    elif k == 5 and t:                   # swap two bytes
        a, b = rng.below(len(t)), rng.below(len(t))
        t[a], t[b] = t[b], t[a]
    else:                                # bad escape into some string literal
        i = t.find(b'"')
        if i >= 0:
            t[i + 1:i + 1] = rng.choice(BAD_ESCAPES)
    return bytes(t)


# ---------------------------------------------------------------- the check
HEADER = ("From Coq Require Import List NArith ZArith Bool.\nImport ListNotations.\n"
          "From PV Require Import Common.Corr Model.FastScan.\nOpen Scope N_scope.\n")


def coq_import(im):
    return "{| im_path := %s; im_public := %s; im_weak := %s; im_option := %s |}" % (
        coq_N_list(bytes.fromhex(im["path"])), coq_bool(im["pub"]), coq_bool(im["weak"]), coq_bool(im["opt"]))


def coq_case(data, o):
    s = o["scan"]
    toks = "None"
    if "toks" in o and "types" in o["toks"]:
        t = o["toks"]
        toks = "(Some [%s])" % "; ".join("mkt %d %s" % (ty, coq_N_list(bytes.fromhex(tx))) for ty, tx in zip(t["types"], t["texts"]))
    return "{| fc_data := %s; fc_toks := %s; fc_pkg := %s; fc_imports := [%s]; fc_errs := [%s] |}" % (
        coq_N_list(data), toks, coq_N_list(bytes.fromhex(s["pkg"])), "; ".join(coq_import(im) for im in s["imports"]),
        "; ".join(str(err_code(m)) for m in s["errs"]))


def gen_cases(ctx):
    """[(class, text)]"""
    rng = ctx.rng
    cases = [("corpus", t) for t in CORPUS]
    # every escape form on its own, followed by each of a few characters, alone and split over two literals
    for e in ESCAPES + BAD_ESCAPES:
        for f in ((b"", b"0", b"7", b"8", b"a", b"g", b"+") if e in ESCAPES else (b"", b"0", b"g")):
            cases.append(("escape-grid", b"import \"" + e + f + b"\";"))
        cases.append(("escape-grid", b"import 'p" + e + b"' \"" + e + b"q\";"))
    n_acc = ctx.budget(500, 6000)
    for i in range(n_acc):
        cases.append(("generated", gen_accepted_text(rng, calm=(i % 5 == 0))))
    # generated files with one malformed escape in an import path: the full parser rejects, the scanner must survive
    for i in range(ctx.budget(60, 600)):
        cases.append(("bad-escape", join_tokens(rng, gen_file_tokens(rng, bad_escape=True), calm=(i % 2 == 0))))
    td = testdata_texts()
    for t in td:
        cases.append(("testdata", t))
    for i in range(ctx.budget(200, 2500)):
        if td and rng.chance(1, 2):
            base = rng.choice(td)
            if len(base) > 1500:            # a window of a big file, cut at line starts
                lines = base.split(b"\n")
                a = rng.below(len(lines))
                base = b"\n".join(lines[a:a + rng.range(5, 40)])
        else:
            base = gen_accepted_text(rng, calm=True)
        t = mutate(rng, base)
        if rng.chance(1, 4):
            t = mutate(rng, t)
        cases.append(("mutant", t))
    return cases


def run(ctx):
    rng = ctx.rng
    cases = gen_cases(ctx)
    ctx.rule = ("source texts: hand-picked corpus; every escape form (valid and malformed) alone in an import path followed by each of 7 "
                "characters and split over two adjacent literals; generated files (syntax/edition, imports with public/weak/option and 1-4 adjacent "
                "literals containing escapes, raw UTF-8 and invalid bytes, package with keyword components, options with message "
                "literals using {} and <>, messages, enums, services, extend blocks, fields and values named import/package) laid "
                "out with random white space and comments between all tokens; the same with one malformed escape; "
                "internal/testdata/*.proto and byte/slice/statement mutants of those and of generated files. "
                "distinct = distinct text; non-trivial = the text contains an import or package keyword")
    ins = [{"data": t.hex(), "tokens": (len(t) < 200 or i % ctx.budget(6, 2) == 0), "onebyte": (i % 4 == 3)} for i, (_, t) in enumerate(cases)]
    outs = ctx.impl("fastscan", ins)
    terms, meta = [], []
    n_accepted = n_rejected = n_silent = 0
    found = []        # (key, what, replay): emitted smallest source first, so that the replay of a key is its smallest failing input

    def violation(key, what, replay):
        found.append((len(replay["source_hex"]), len(found), key, what, replay))

    for (klass, t), i, o in zip(cases, ins, outs):
        s = o.get("scan", {})
        p = o.get("parse", {})
        tk = o.get("toks", {})
        replay = {"source_hex": t.hex(), "source": t.decode("latin-1"), "one_byte_reader": i["onebyte"]}
        if "crash" in o or "panic" in s or "hang" in s or "panic" in tk or "hang" in tk:
            ctx.count((klass, t), True, "panic")
            ctx.corr_break("fastscan.Scan", replay, o)
            violation("fastscan-panic", "fastscan.Scan (or its lexer) panicked, hung or crashed the harness",
                      dict(replay, observed=o))
            continue
        if "panic" in p or "hang" in p:
            # the full parser is not the subject here: no oracle for this text
            ctx.count((klass, t), True, "full-parser-panic")
            n_rejected += 1
        elif p.get("ok"):
            n_accepted += 1
            ctx.count((klass, t), (b"import" in t or b"package" in t), "accepted:" + klass)
            # ---- direct oracle: the property on the implementation
            if s["errs"] or s.get("io"):
                violation("scan-error-on-accepted-file", "the full parser accepts the file, fastscan.Scan returns an error",
                          dict(replay, scan=s, parse=p))
            if s["imports"] != p["imports"]:
                key = "imports-differ"
                if [x["path"] for x in s["imports"]] == [x["path"] for x in p["imports"]]:
                    key = "import-flags-differ"
                elif len(s["imports"]) == len(p["imports"]):
                    key = "import-path-differs"
                violation(key, "fastscan.Scan and the full parser's AST disagree on the imports", dict(replay, scan=s, parse=p))
            if len(p["pkgs"]) <= 1:
                want = p["pkgs"][0] if p["pkgs"] else ""
                if s["pkg"] != want:
                    violation("package-differs", "fastscan.Scan and the full parser's AST disagree on the package name",
                              dict(replay, scan=s, parse=p))
            else:
                ctx.hist["accepted-with-several-package-statements(package not judged)"] = \
                    ctx.hist.get("accepted-with-several-package-statements(package not judged)", 0) + 1
        else:
            n_rejected += 1
            ctx.count((klass, t), (b"import" in t or b"package" in t), "rejected-by-full-parser:" + klass)
            if not s["errs"] and not s.get("io"):
                n_silent += 1
        terms.append(coq_case(t, o))
        meta.append((replay, o))
    for _, _, key, what, replay in sorted(found, key=lambda x: (x[0], x[1])):
        ctx.violation(key, what, replay)
    ctx.notes.append("%d of the %d inputs the full parser rejects are scanned without any error by fastscan.Scan (allowed: the scanner is "
                     "documented as lenient; e.g. a signed hex escape such as \\x+5 is decoded to the byte 5 by its strconv.ParseInt)" % (n_silent, n_rejected))
    ctx.extra["model_variant"] = MODEL
    ctx.extra["accepted_by_full_parser"] = n_accepted
    ctx.extra["rejected_by_full_parser(not judged, scanner must not panic)"] = n_rejected
    for k in (1, len(CORPUS) + 3, len(CORPUS) + 4):
        if k < len(cases):
            ctx.sample({"class": cases[k][0], "source": cases[k][1].decode("latin-1")[:400]})
    # balanced shards: the cases come in order of increasing size (corpus, grid, generated, mutants), so deal them out
    # round-robin; one shard per core in the quick tier
    n = len(terms)
    nshards = max(1, min(NCPU, n // 20)) if ctx.tier != "thorough" else max(1, n // 400)
    order = sorted(range(n), key=lambda i: i % nshards)
    size = (n + nshards - 1) // nshards
    mism, err = coq_eval_mismatches("cases_C25", HEADER, [terms[i] for i in order], CHK[MODEL], shard_size=max(size, 1))
    if err:
        raise RuntimeError(err)
    for k in mism:
        replay, o = meta[order[k]]
        ctx.corr_break("fast_scan(model) vs fastscan.Scan + VerifTokens", replay, {"observed": {"scan": o["scan"], "toks": o.get("toks")}})
