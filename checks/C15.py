"""C15 - Relative name resolution follows protoc scoping."""
import json, os, re, subprocess
from vlib import *

ID = "C15"
COQ_FILES = ["Common/Corr.v", "Model/Resolve.v", "Model/ProtocLookup.v", "Proofs/Resolve.v", "Props/C15.v"]
PROPS = "Props/C15.v"
THEOREMS = ["C15_create_prefix_list_spec", "C15_resolve_eq_protoc", "C15_resolve_absolute", "C15_lookup_total",
            "C15_old_resolve_refuted", "C15_double_dot_diverges"]
AXIOMS_OK = []
TRUSTED = ["hand-written Gallina mirror of linker/resolve.go after fixes/C15-resolve-scope.diff (resolve, fileScope with skipNonTypes, messageScope, resolveElementRelative, "
           "resolveElementInFile, matchesPkgNamespace, resolveElement) and internal.CreatePrefixList",
           "Coq transcription of protoc's DescriptorBuilder::LookupSymbolNoPlaceholder / FindSymbol / IsInPackage (Model/ProtocLookup.v); "
           "protoc itself is not available",
           "correspondence harness (harness/cmd/resolve): error texts mapped to {nil, sentinel, wrong kind}; schema generator and renderer in checks/C15.py"]
ASSUMPTIONS = ["the universe of a file is the list of files resolveInFile visits (self, direct imports, public closure), flattened by the plugin; the traversal itself is C18",
               "symbol tables guarantee wf_universe before references are resolved (unique full names, no element named like a package, parents exist); the generator only emits such schemas and coqc re-checks wf_universe on every case",
               "failure kinds compared: nothing found / resolved-to-X-which-is-not-defined / found element (any kind); in type context every non-type answer is one failure class (the Go code reports its best guess, protoc reports not-defined)",
               "option extension names use the same resolve function with the enclosing scope; they are not placed as probes"]

KINDS = {"message": "KMessage", "enum": "KEnum", "service": "KService", "field": "KField",
         "extension": "KExtension", "enumvalue": "KEnumValue", "oneof": "KOneof", "method": "KMethod"}


def q(parent, n):
    return n if parent == "" else parent + "." + n


def pkg_prefixes(pkg):
    if pkg == "":
        return []
    cs = pkg.split(".")
    return [".".join(cs[:i]) for i in range(1, len(cs) + 1)]


# ------------------------------------------------------------------ schema description
# file  = {"path", "pkg", "imports": [(path, public)], "elems": [elem]}
# elem  = ("message", name, [elem]) | ("enum", name, [value names]) | ("service", name, [method names])
#       | ("field", name) | ("oneof", name) | ("ext", name)
# Every file also gets a helper message Zh<i> (extension range, used by fixed references).

def helper_of(f):
    return q(f["pkg"], "Zh" + f["path"][1:-6])


def symbols_of(f):
    """full name -> kind for everything the file declares (without probes)."""
    out = []

    def walk(prefix, elems, in_msg):
        for e in elems:
            k, n = e[0], e[1]
            fq = q(prefix, n)
            if k == "message":
                out.append((fq, "message"))
                walk(fq, e[2], True)
            elif k == "enum":
                out.append((fq, "enum"))
                for v in e[2]:
                    out.append((q(prefix, v), "enumvalue"))
            elif k == "service":
                out.append((fq, "service"))
                for m in e[2]:
                    out.append((q(fq, m), "method"))
            elif k == "field":
                out.append((fq, "field"))
            elif k == "oneof":
                out.append((fq, "oneof"))
                out.append((q(prefix, "zo_" + n), "field"))
            elif k == "ext":
                out.append((fq, "extension"))
    out.append((helper_of(f), "message"))
    walk(f["pkg"], f["elems"], False)
    return out


class Renderer:
    """Renders one file; probes = list of dicts {path: [msg names], site, spelling} get one line each."""

    def __init__(self, f, probes):
        self.f = f
        self.lines = []
        self.tag = 1000 + 1000 * int(f["path"][1:-6])      # extension tags are unique in the whole compile
        self.probes = probes
        self.pinfo = []          # per probe: line, fallback, fqn, kind of the symbol it adds
        self.h = "." + helper_of(f)

    def emit(self, s):
        self.lines.append(s)

    def probe_lines(self, path, ind, num):
        fq_scope = self.f["pkg"]
        for m in path:
            fq_scope = q(fq_scope, m)
        for pi, p in enumerate(self.probes):
            if p["path"] != path or p["site"] == "rpc":
                continue
            nm = "zp%d" % pi
            if p["site"] == "type" and path:
                num[0] += 1
                self.emit("%soptional %s %s = %d;" % (ind, p["spelling"], nm, num[0]))
                fb = "%soptional int32 %s = %d;" % (ind, nm, num[0])
                kind = "field"
            elif p["site"] == "type":
                self.tag += 1
                self.emit("%sextend %s { optional %s %s = %d; }" % (ind, self.h, p["spelling"], nm, self.tag))
                fb = "%sextend %s { optional int32 %s = %d; }" % (ind, self.h, nm, self.tag)
                kind = "extension"
            else:
                self.tag += 1
                self.emit("%sextend %s { optional int32 %s = %d; }" % (ind, p["spelling"], nm, self.tag))
                fb = "%sextend %s { optional int32 %s = %d; }" % (ind, self.h, nm, self.tag)
                kind = "extension"
            self.pinfo.append((pi, len(self.lines), fb, q(fq_scope, nm), kind))

    def elems(self, prefix, path, elems, ind, num):
        for e in elems:
            k, n = e[0], e[1]
            if k == "message":
                self.emit("%smessage %s {" % (ind, n))
                self.emit("%s  extensions 1000 to max;" % ind)
                sub = [0]
                self.elems(q(prefix, n), path + [n], e[2], ind + "  ", sub)
                self.probe_lines(path + [n], ind + "  ", sub)
                self.emit("%s}" % ind)
            elif k == "enum":
                self.emit("%senum %s { %s }" % (ind, n, " ".join("%s = %d;" % (v, i) for i, v in enumerate(e[2]))))
            elif k == "service":
                self.emit("%sservice %s {" % (ind, n))
                for m in e[2]:
                    self.emit("%s  rpc %s(%s) returns (%s);" % (ind, m, self.h, self.h))
                for pi, p in enumerate(self.probes):
                    if p["site"] == "rpc" and p["path"] == [n]:
                        nm = "zp%d" % pi
                        self.emit("%s  rpc %s(%s) returns (%s);" % (ind, nm, p["spelling"], self.h))
                        fb = "%s  rpc %s(%s) returns (%s);" % (ind, nm, self.h, self.h)
                        self.pinfo.append((pi, len(self.lines), fb, q(q(prefix, n), nm), "method"))
                self.emit("%s}" % ind)
            elif k == "field":
                num[0] += 1
                self.emit("%soptional int32 %s = %d;" % (ind, n, num[0]))
            elif k == "oneof":
                num[0] += 1
                self.emit("%soneof %s { int32 zo_%s = %d; }" % (ind, n, n, num[0]))
            elif k == "ext":
                self.tag += 1
                self.emit("%sextend %s { optional int32 %s = %d; }" % (ind, self.h, n, self.tag))

    def render(self):
        f = self.f
        self.emit('syntax = "proto2";')
        if f["pkg"]:
            self.emit("package %s;" % f["pkg"])
        for p, pub in f["imports"]:
            self.emit('import %s"%s";' % ("public " if pub else "", p))
        self.emit("message %s { extensions 1000 to max; }" % helper_of(f).split(".")[-1])
        self.elems(f["pkg"], [], f["elems"], "", [0])
        self.probe_lines([], "", [0])
        return "\n".join(self.lines) + "\n"


def visible_order(files, root):
    """files visited by resolveInFile(root, false, ...), first occurrences, in visiting order."""
    by = {f["path"]: f for f in files}
    order = []

    def visit(p, public_only, stack):
        if p in stack:
            return
        if p not in order:
            order.append(p)
        for ip, pub in by[p]["imports"]:
            if public_only and not pub:
                continue
            visit(ip, True, stack + [p])
    visit(root, False, [])
    return [by[p] for p in order]


# ------------------------------------------------------------------ protoc's algorithm, used ONLY to
# annotate replays with the expected answer (the decision is made by Spec.lookup inside coqc)
def spec_lookup(vis, relative_to, name, types):
    syms = {}
    for f, ss in vis:
        for n, k in ss:
            syms.setdefault(n, k)
    pkgs = set()
    for f, _ in vis:
        pkgs.update(pkg_prefixes(f["pkg"]))

    def find(n):
        if n in syms:
            return syms[n]
        return "package" if n in pkgs else None
    if name.startswith("."):
        k = find(name[1:])
        return ("found", name[1:], k) if k else ("none",)
    first = name.split(".")[0]
    scope = relative_to
    while True:
        if "." not in scope:
            k = find(name)
            return ("found", name, k) if k else ("none",)
        scope = scope[:scope.rindex(".")]
        k = find(scope + "." + first)
        if k:
            if first != name:
                if k in ("message", "enum", "service", "package"):
                    k2 = find(scope + "." + name)
                    return ("found", scope + "." + name, k2) if k2 else ("undefined", scope + "." + name)
            elif not (types and k not in ("message", "enum")):
                return ("found", scope + "." + first, k)


# ------------------------------------------------------------------ generation
PKGS = ["", "a", "b", "a.b", "a.b.c", "a.c", "b.a", "a.a", "c", "ab", "ab.cd"]
NAMES = ["a", "b", "c", "M", "N", "E", "x"]


def gen_schema(rng, sid):
    nfiles = rng.range(2, 5)
    files = []
    for i in range(nfiles):
        files.append({"path": "f%d.proto" % i, "pkg": rng.choice(PKGS), "imports": [], "elems": []})
    for i in range(nfiles):
        for j in range(i + 1, nfiles):
            if rng.chance(3, 5) or (i == 0 and j == 1):
                files[i]["imports"].append((files[j]["path"], rng.chance(1, 2)))
    pkgns = set()
    for f in files:
        pkgns.update(pkg_prefixes(f["pkg"]))
    used = set(helper_of(f) for f in files)

    def free(fq):
        return fq not in used and fq not in pkgns

    def gen_elems(prefix, depth, in_msg, top):
        out = []
        for _ in range(rng.range(1, 4 if depth < 2 else 2)):
            n = rng.choice(NAMES)
            fq = q(prefix, n)
            if not free(fq):
                continue
            r = rng.below(100)
            if r < 38 and depth < 3:
                used.add(fq)
                out.append(("message", n, gen_elems(fq, depth + 1, True, False)))
            elif r < 52:
                vals = []
                for v in [rng.choice(NAMES + ["V"]) for _ in range(rng.range(1, 2))]:
                    if free(q(prefix, v)) and v != n and v not in vals:
                        vals.append(v)
                if not vals:
                    v = "ZV%d" % len(used)
                    vals = [v]
                used.add(fq)
                for v in vals:
                    used.add(q(prefix, v))
                out.append(("enum", n, vals))
            elif r < 62 and top:
                ms = []
                for m in [rng.choice(NAMES) for _ in range(rng.range(0, 2))]:
                    if m not in ms:
                        ms.append(m)
                used.add(fq)
                for m in ms:
                    used.add(q(fq, m))
                out.append(("service", n, ms))
            elif r < 80:
                if in_msg and rng.chance(2, 3):
                    used.add(fq)
                    out.append(("field", n))
                else:
                    used.add(fq)
                    out.append(("ext", n))
            elif in_msg and free(q(prefix, "zo_" + n)):
                used.add(fq)
                used.add(q(prefix, "zo_" + n))
                out.append(("oneof", n))
        return out
    for f in files:
        f["elems"] = gen_elems(f["pkg"], 0, False, True)
    root = files[0]
    # the root always has a nest of messages and a probe service to put references in
    if not any(e[0] == "message" and any(c[0] == "message" for c in e[2]) for e in root["elems"]):
        a, b = "Zm", rng.choice(NAMES)
        root["elems"].append(("message", a, [("message", b, [])]))
    root["elems"].append(("service", "Zs", []))
    return files


def scopes_of(root):
    out = [[]]

    def walk(path, elems):
        for e in elems:
            if e[0] == "message":
                out.append(path + [e[1]])
                walk(path + [e[1]], e[2])
    walk([], root["elems"])
    return out


def gen_probes(rng, files, root, limit):
    targets = []
    for f in files:
        targets += [n for n, _ in symbols_of(f)]
        targets += pkg_prefixes(f["pkg"])
    targets = sorted(set(targets))
    spellings = set()
    for t in targets:
        cs = t.split(".")
        for i in range(len(cs)):
            sfx = ".".join(cs[i:])
            spellings.add(sfx)
            spellings.add("." + sfx)
        if rng.chance(1, 6):
            spellings.add(t.split(".")[-1] + ".zq")
    spellings.add("zq")
    spellings = sorted(spellings)
    scopes = scopes_of(root)
    msg_scopes = [s for s in scopes if s]
    svc = [e[1] for e in root["elems"] if e[0] == "service"]
    probes = []
    for sp in spellings:
        for _ in range(2):
            r = rng.below(10)
            if r < 6:
                probes.append({"path": rng.choice(msg_scopes), "site": "type", "spelling": sp})
            elif r < 7:
                probes.append({"path": [], "site": "type", "spelling": sp})
            elif r < 9:
                probes.append({"path": rng.choice(scopes), "site": "extendee", "spelling": sp})
            else:
                probes.append({"path": [rng.choice(svc)], "site": "rpc", "spelling": sp})
    probes = rng.shuffle(probes)[:limit]
    return probes


# hand-picked schemas first (the smallest inputs for each known way of going wrong)
def corpus():
    out = []
    # an extension at package level named like a type of the parent package
    out.append(([{"path": "f0.proto", "pkg": "a.b", "imports": [("f1.proto", False)],
                  "elems": [("ext", "x"), ("message", "M", [])]},
                 {"path": "f1.proto", "pkg": "a", "imports": [], "elems": [("message", "x", [])]}],
                [{"path": ["M"], "site": "type", "spelling": "x"},
                 {"path": ["M"], "site": "type", "spelling": "a.x"},
                 {"path": [], "site": "extendee", "spelling": "x"}]))
    # a type named like the last package component, declared without package
    out.append(([{"path": "f0.proto", "pkg": "a.b", "imports": [("f1.proto", False)], "elems": [("message", "M", [])]},
                 {"path": "f1.proto", "pkg": "", "imports": [], "elems": [("message", "b", []), ("enum", "c", ["V"])]}],
                [{"path": ["M"], "site": "type", "spelling": "b"},
                 {"path": ["M"], "site": "type", "spelling": "a"},
                 {"path": ["M"], "site": "type", "spelling": "a.b"},
                 {"path": ["M"], "site": "type", "spelling": ".b"}]))
    # field shadowing inside messages, first component not an aggregate, undefined resolved name
    out.append(([{"path": "f0.proto", "pkg": "a", "imports": [("f1.proto", True)],
                  "elems": [("message", "M", [("field", "N"), ("message", "K", [("message", "N", [])]), ("enum", "E", ["V"])]),
                            ("message", "N", [("message", "x", [])]), ("service", "Zs", ["N"])]},
                 {"path": "f1.proto", "pkg": "a.c", "imports": [("f2.proto", True), ("f3.proto", False)], "elems": [("message", "N", [])]},
                 {"path": "f2.proto", "pkg": "b", "imports": [], "elems": [("message", "N", [])]},
                 {"path": "f3.proto", "pkg": "c", "imports": [], "elems": [("message", "N", [])]}],
                [{"path": p, "site": s, "spelling": sp}
                 for sp in ["N", "N.x", "K.N", "K.x", "E.V", "V", "c.N", "a.c.N", "b.N", ".b.N", ".c.N", "c.N.zq", "M", "a", "b", "c", "Zs.N", "zq"]
                 for p, s in [(["M"], "type"), (["M", "K"], "type"), ([], "type"), (["M"], "extendee"), ([], "extendee"), (["Zs"], "rpc")]]))
    return out


class Interner:
    """names of one group become constants z<i> (elaborating a string literal costs about 1.4 ms)."""

    def __init__(self, tag):
        self.tag = tag
        self.ix = {}

    def __call__(self, sx):
        if sx not in self.ix:
            self.ix[sx] = len(self.ix)
        return "%sz%d" % (self.tag, self.ix[sx])

    def defs(self):
        return "".join('Definition %sz%d := s "%s".\n' % (self.tag, i, sx) for sx, i in self.ix.items())


def coq_str(sx):
    return '(s "%s")' % sx


def coq_universe(vis, coq_str=coq_str):
    fs = []
    for f, syms in vis:
        fs.append("(mkFile %s [%s])" % (coq_str(f["pkg"]), "; ".join("(%s, %s)" % (coq_str(n), KINDS[k]) for n, k in syms)))
    return "(mkU %s [%s])" % (fs[0], "; ".join(fs[1:]))


def coq_gres(o, coq_str=coq_str):
    if o["r"] == "nil":
        return "GNil"
    if o["r"] == "sentinel":
        return "(GSentinel %s)" % coq_str(o["n"])
    return "(GDesc %s %s)" % (coq_str(o["n"]), KINDS[o["k"]])


HEADER = ("From Coq Require Import List NArith Bool String Ascii DecimalString.\nImport ListNotations.\n"
          "From PV Require Import Common.Corr Model.Resolve Model.ProtocLookup.\n"
          "Definition s (x : string) : name := map N_of_ascii (list_ascii_of_string x).\n"
          'Definition zp (i : nat) : name := s "zp" ++ s (NilEmpty.string_of_uint (Nat.to_uint i)).\n')


def coq_eval_groups(name, groups, per_shard, timeout=1500):
    """groups: list of (definitions text, universe term, [ref_case terms without the universe]).  Returns
    per group (model mismatch indices, spec mismatch indices, wf bool) evaluated by vm_compute in coqc."""
    os.makedirs(os.path.join(COQ, "cases"), exist_ok=True)
    shards, cur, n = [], [], 0
    for gi, g in enumerate(groups):
        cur.append(gi)
        n += len(g[1])
        if n >= per_shard:
            shards.append(cur)
            cur, n = [], 0
    if cur:
        shards.append(cur)
    procs = []
    for k, gis in enumerate(shards):
        fn = os.path.join(COQ, "cases", "%s_%d.v" % (name, k))
        with open(fn, "w") as f:
            f.write(HEADER)
            for gi in gis:
                defs, u, terms = groups[gi]
                f.write(defs)
                f.write("Definition U%d := %s.\n" % (gi, u))
                f.write("Definition cs%d := [\n%s\n].\n" % (gi, ";\n".join("RC U%d %s" % (gi, t) for t in terms)))
                f.write("Definition M%d := Eval vm_compute in mismatches ref_chk_model cs%d.\nPrint M%d.\n" % (gi, gi, gi))
                f.write("Definition S%d := Eval vm_compute in mismatches ref_chk_spec cs%d.\nPrint S%d.\n" % (gi, gi, gi))
                f.write("Definition W%d := Eval vm_compute in (wf_universe U%d && forallb ref_chk_scope cs%d).\nPrint W%d.\n" % (gi, gi, gi, gi))
        procs.append((k, fn, gis))
    res = {}
    err = None
    running = []
    idx = 0

    def reap(p, fn, gis):
        nonlocal err
        out, _ = p.communicate()
        if p.returncode != 0:
            err = (err or "") + "coqc failed on %s:\n%s\n" % (fn, out[-2000:])
            return
        flat = " ".join(out.split())
        for gi in gis:
            m = re.search(r"\bM%d = (.*?) : list nat" % gi, flat)
            s_ = re.search(r"\bS%d = (.*?) : list nat" % gi, flat)
            w = re.search(r"\bW%d = (true|false) : bool" % gi, flat)
            if not (m and s_ and w):
                err = (err or "") + "cannot parse coqc output for group %d in %s\n" % (gi, fn)
                continue
            res[gi] = ([int(d) for d in re.findall(r"\d+", m.group(1))],
                       [int(d) for d in re.findall(r"\d+", s_.group(1))], w.group(1) == "true")
        for ext in (".v", ".vo", ".vok", ".vos", ".glob"):
            try:
                os.remove(fn[:-2] + ext)
            except OSError:
                pass
        try:
            os.remove(os.path.join(os.path.dirname(fn), "." + os.path.basename(fn)[:-2] + ".aux"))
        except OSError:
            pass
    while idx < len(procs) or running:
        while idx < len(procs) and len(running) < NCPU:
            k, fn, gis = procs[idx]
            p = subprocess.Popen(["timeout", str(timeout), "coqc", "-Q", COQ, "PV", fn],
                                 stdout=subprocess.PIPE, stderr=subprocess.STDOUT, text=True, cwd=COQ)
            running.append((p, fn, gis))
            idx += 1
        p, fn, gis = running.pop(0)
        reap(p, fn, gis)
    return res, err


def violation_key(root, vis, pr, o):
    """specific key for the known way of going wrong: an unqualified type reference, and at some package
    level of the file (not the outermost) the name denotes something that is not a type"""
    nm = pr["spelling"]
    if pr["site"] == "type" and "." not in nm:
        syms = {}
        pkgs = set()
        for f, ss in vis:
            pkgs.update(pkg_prefixes(f["pkg"]))
            for n, k in ss:
                syms.setdefault(n, k)
        for p in pkg_prefixes(root["pkg"]):
            k = syms.get(p + "." + nm, "package" if p + "." + nm in pkgs else None)
            if k is not None and k not in ("message", "enum"):
                return "nontype-at-package-scope-hides-outer-type"
    return "resolution-differs-from-protoc"


def run(ctx):
    rng = ctx.rng
    # ---- CreatePrefixList
    pk = [b"", b"a", b"a.b", b"foo.bar.baz", b".", b"..", b".a", b"a.", b"a..b", b"a.b.c.d.e.f", b"ab.cd", b"\xc3\xa9.x"]
    for _ in range(ctx.budget(300, 5000)):
        n = rng.range(0, 12)
        pk.append(bytes(rng.choice([0x2e, 0x2e, 0x61, 0x62, 0x5f, 0x41, 0x30]) for _ in range(n)))
    pouts = ctx.impl("resolve", [{"mode": "prefix", "pkg": b.hex()} for b in pk])
    terms, meta = [], []
    for b, o in zip(pk, pouts):
        if "list" not in o:
            ctx.corr_break("CreatePrefixList", b.hex(), o)
            continue
        ctx.count(("p", b), len(b) > 0, "prefix-list")
        terms.append("CP %s %s" % (coq_N_list(b), coq_list(o["list"], lambda h: coq_N_list(bytes.fromhex(h)))))
        meta.append((b, o))
        # direct oracle: successively shorter dotted prefixes, then the empty string
        comps = b.split(b".") if b else []
        if b"" in comps:
            continue   # empty components: not a package name, only the mirror model is compared
        want = [b".".join(comps[:i]) for i in range(len(comps), 0, -1)] + [b""]
        if [bytes.fromhex(h) for h in o["list"]] != want:
            ctx.violation("create-prefix-list", "CreatePrefixList does not return the successively shorter prefixes",
                          {"pkg": b.decode("latin1"), "observed": [bytes.fromhex(h).decode("latin1") for h in o["list"]]})
    header = ("From Coq Require Import List NArith Bool.\nImport ListNotations.\n"
              "From PV Require Import Common.Corr Model.Resolve.\nOpen Scope N_scope.\n")
    mism, err = coq_eval_mismatches("cases_C15p", header, terms, "prefix_chk", shard_size=1500)
    if err:
        raise RuntimeError(err)
    for k in mism:
        ctx.corr_break("CreatePrefixList", meta[k][0].decode("latin1"), meta[k][1])

    # ---- schemas
    cases = []
    for files, probes in corpus():
        cases.append((files, probes, "corpus"))
    for sid in range(ctx.budget(int(os.environ.get("C15N", "40")), 3000)):
        files = gen_schema(rng, sid)
        cases.append((files, gen_probes(rng, files, files[0], ctx.budget(130, 400)), "random"))
    ins, infos = [], []
    for files, probes, origin in cases:
        root = files[0]
        texts = {}
        rd = None
        for f in files:
            r = Renderer(f, probes if f is root else [])
            texts[f["path"]] = r.render()
            if f is root:
                rd = r
        pin = sorted(rd.pinfo)
        assert [p[0] for p in pin] == list(range(len(probes))), "renderer lost a probe"
        ins.append({"mode": "schema", "files": texts, "root": root["path"],
                    "probes": [{"id": pi, "line": ln, "fallback": fb, "fqn": fq, "site": probes[pi]["site"]} for pi, ln, fb, fq, kd in pin]})
        infos.append(pin)
    outs = ctx.impl("resolve", ins)
    groups, gmeta = [], []
    for ci, ((files, probes, origin), pin, i, o) in enumerate(zip(cases, infos, ins, outs)):
        root = files[0]
        if "res" not in o:
            ctx.corr_break("resolve:harness", {"files": i["files"]}, o)
            if "panic" in o:
                ctx.violation("panic", "the compiler panicked on a generated schema", {"files": i["files"], "observed": o})
            continue
        if o["extra"]:
            ctx.corr_break("resolve:schema-rejected", {"files": i["files"]}, {"errors": o["extra"][:5]})
            continue
        vis = []
        for f in visible_order(files, root["path"]):
            syms = symbols_of(f)
            if f is root:
                syms = syms + [(fq, kd) for pi, ln, fb, fq, kd in pin]
            vis.append((f, syms))
        terms, tm = [], []
        S = Interner("g%d" % len(groups))
        for (pi, ln, fb, fq, kd), ob in zip(pin, o["res"]):
            pr = probes[pi]
            ctx.count((ci, origin, pr["path"], pr["site"], pr["spelling"], tuple(sorted(i["files"].items()))),
                      True, "%s:%s" % (pr["site"], ob["r"] if ob["r"] != "desc" else ("ok" if ob.get("dot") is not None else "wrong-kind")))
            if ob["r"] == "other" or (ob["r"] == "desc" and ob["k"] not in KINDS):
                ctx.corr_break("resolve:unmodelled-observation", {"files": i["files"], "probe": pr}, ob)
                continue
            if ob.get("dot") is False:
                ctx.violation("reference-not-rewritten", "a resolved reference was not rewritten to its fully-qualified form",
                              {"files": i["files"], "probe": pr, "observed": ob})
            terms.append("[%s] (zp %d) %s %s %s" % ("; ".join(S(m) for m in pr["path"]), pi,
                                                 S(pr["spelling"]), coq_bool(pr["site"] == "type"), coq_gres(ob, S)))
            tm.append((pr, ob, fq))
        if terms:
            u = coq_universe(vis, S)
            groups.append((S.defs(), u, terms))
            gmeta.append((files, i, vis, tm))
    if cases:
        ctx.sample({"files": ins[0]["files"], "probes": [dict(p) for p in cases[0][1][:3]]})
        ctx.sample({"files": ins[-1]["files"], "probes": [dict(p) for p in cases[-1][1][:3]]})
    res, err = coq_eval_groups("cases_C15", groups, per_shard=ctx.budget(1200, 4000))
    if err:
        raise RuntimeError(err)
    nviol = 0
    for gi, (files, i, vis, tm) in enumerate(gmeta):
        mm, ss, wf = res[gi]
        if not wf:
            raise RuntimeError("generator produced a schema outside wf_universe/scope_ok: %s" % json.dumps(i["files"]))
        for k in sorted(set(mm) | set(ss)):
            pr, ob, fq = tm[k]
            if k in ss:
                exp = spec_lookup(vis, fq, pr["spelling"], pr["site"] == "type")
                nviol += 1
                ctx.violation(violation_key(files[0], vis, pr, ob),
                              "the reference does not resolve as protoc's LookupSymbolNoPlaceholder does (Spec.lookup in coqc)",
                              {"files": i["files"], "root": i["root"], "reference": pr["spelling"], "site": pr["site"],
                               "inside": fq, "observed": ob, "protoc_spec_expects": exp, "model_agrees_with_impl": k not in mm})
            if k in mm:
                ctx.corr_break("resolve:" + pr["site"], {"files": i["files"], "reference": pr["spelling"], "inside": fq}, {"observed": ob})

    # ---- spellings the grammar cannot produce (descriptor input): mirror model only
    raw = [("a.b", "..a.b.T"), ("a.b", ".a.b.T"), ("a.b", "...a.b.T"), ("a.b", "T"), ("a.b", "b.T"), ("", "..T"), ("a.b", "..T")]
    routs = ctx.impl("resolve", [{"mode": "rawref", "pkg": p, "ref": r} for p, r in raw], shards=1)
    groups = []
    rmeta = []
    for (p, r), o in zip(raw, routs):
        if o.get("r") not in ("nil", "sentinel", "desc"):
            ctx.corr_break("resolve:rawref", {"pkg": p, "ref": r}, o)
            continue
        ctx.count(("raw", p, r), True, "rawref")
        f = {"pkg": p}
        u = coq_universe([(f, [(q(p, "T"), "message"), (q(p, "Holder"), "message"), (q(q(p, "Holder"), "f"), "field")])])
        groups.append(("", u, ['[%s] %s %s true %s' % (coq_str("Holder"), coq_str("f"), coq_str(r), coq_gres(o))]))
        rmeta.append(((p, r), o))
    res, err = coq_eval_groups("cases_C15r", groups, per_shard=1000)
    if err:
        raise RuntimeError(err)
    for gi, ((p, r), o) in enumerate(rmeta):
        mm, ss, wf = res[gi]
        if mm:
            ctx.corr_break("resolve:rawref", {"pkg": p, "ref": r}, o)
        if ss and not r.startswith(".."):
            ctx.violation("resolution-differs-from-protoc", "descriptor-form reference resolves differently from the protoc specification",
                          {"pkg": p, "ref": r, "observed": o})
        if ss and r.startswith(".."):
            ctx.notes.append("descriptor-form reference %r (two leading dots, not a spelling the grammar allows) resolves to %s; "
                             "protoc's FindSymbol would not find it (C15_double_dot_diverges)" % (r, o))
    ctx.rule = ("CreatePrefixList: hand-picked + random strings over {dot, a, b, _, A, 0}; schemas: %d hand-written + random multi-file schemas "
                "(2-5 files, packages from %s, element names from %s so that simple names collide at several scopes, fields/extensions/enum values/"
                "oneofs/services/methods named like types, names equal to package components, public and non-public imports); references: every "
                "suffix of every full name and package prefix in the whole compile, with and without leading dot, placed as field type "
                "(message scopes and file-level extension), extendee and rpc input type; distinct = distinct (schema, scope, site, spelling)"
                % (len(corpus()), PKGS, NAMES))
    ctx.extra["spec_violations_seen"] = nviol
