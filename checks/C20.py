"""C20 - Option values are interpreted like protoc."""
import json, os
from vlib import *
import optlib
from optlib import *

ID = "C20"
COQ_FILES = ["Common/Corr.v", "Model/Options.v", "Model/ProtocOptions.v", "Proofs/Options.v", "Props/C20.v"]
PROPS = "Props/C20.v"
THEOREMS = ["C20_scalar_coercion_ranges", "C20_noninteger_rejected", "C20_int_to_float", "C20_bool_coercion",
            "C20_interpret_eq_protoc", "C20_no_uninterpreted_left_on_success"]
AXIOMS_OK = []
TRUSTED = ["hand-written Gallina mirror of options/options.go (interpretOptions, interpretField, setOptionField, fieldValue, "
           "scalarFieldValue, enumFieldValue, messageLiteralValue, checkFieldUsage): coq/Model/Options.v",
           "Coq transcription of protoc's OptionInterpreter and text-format rules (coq/Model/ProtocOptions.v); protoc itself is not "
           "available; the transcription follows the project's language specification and the protoc comparisons recorded in "
           "linker/linker_test.go, and is validated against the protoc-produced descriptor sets in internal/testdata/options",
           "correspondence harness harness/cmd/options (real compiler, canonical option trees decoded against the compiled "
           "schema, error texts mapped to classes) and the generator / renderer in checks/optlib.py",
           "the standard options messages are read from the descriptors of the code under test (harness mode describe)"]
ASSUMPTIONS = ["modelled fragment: scalar kinds, enums (open/closed), message-typed fields, repeated fields, oneofs, extensions, "
               "name paths, message literals with lists and extension names, target types, explicit/implicit presence; not "
               "modelled: maps, groups, Any expansion, required-field and feature validation, pseudo-options, cloneInto failures",
               "strict run = handler that aborts at the first error (reporter.NewHandler(nil)); the error class of the first error is compared",
               "integer literals are within what the lexer produces (negative: int64, non-negative: uint64); larger ones are floats",
               "oneof conflicts across option statements are rejected (documented divergence from protoc, protobuf issue 9125): spec follows the project",
               "float literals reach the model as the float64 the parser computed (decimal conversion is C14/C39); float32 rounding is modelled exactly"]

CHKS = ["opt_chk_strict", "opt_chk_lenient", "opt_chk_unlinked", "spec_chk", "spec_chk_nowords"]
DEFS = """
(* the specification without protoc's case-insensitive float words inside message literals (L1): when the
   implementation agrees with this variant but not with the specification, the defect repaired by bb1a10d1 is back *)
Definition spec_chk_nowords (c : opt_case) : bool := spec_chk_gen false c.
"""


def fixed_defs(ctx):
    return ("".join("Definition fx_%s : schema := %s.\n" % (ek, fixed_schema(ctx, ek).coq()) for ek in ELEMENTS) +
            "".join("Definition tg_%s : schema := %s.\n" % (ek, targets_schema(ctx, ek).coq()) for ek in ELEMENTS) +
            "".join("Definition tw_%s : schema := %s.\n" % (ek, twin_schema(ctx, ek).coq()) for ek in ELEMENTS))


def generate(ctx, n_random, corpus_stride):
    rng = ctx.rng
    cases = []
    eks = list(ELEMENTS)
    # 0. the smallest inputs of the findings so far, so that replays are short
    t3, t2 = tiny_schema(ctx, "p3"), tiny_schema(ctx, "main")
    for sch, sts in [(t3, [(X("(foo)", "a"), I(0)), (X("(foo)", "a"), I(5))]),
                     (t3, [(X("(foo)", "s"), ("str", [])), (X("(foo)", "s"), ("str", [120]))]),
                     (t3, [(X("(foo)"), LM(("a", I(0)))), (X("(foo)", "a"), I(5))]),
                     (t3, [(X("(foo)", "a"), I(1)), (X("(foo)", "a"), I(0))]),
                     (t2, [(X("(foo)", "a"), I(0)), (X("(foo)", "a"), I(5))]),
                     (t2, [(X("(foo)", "sub", "a"), ("str", [120]))]),
                     # one field descriptor through two paths (recursive type): both statements are legal
                     (t3, [(X("(foo)", "a"), I(0)), (X("(foo)", "sub", "a"), I(5))]),
                     (t3, [(X("(foo)", "sub", "s"), ("str", [])), (X("(foo)", "sub", "sub", "s"), ("str", [])), (X("(foo)", "s"), ("str", []))]),
                     (t3, [(X("(foo)", "a"), I(0)), (X("(foo)", "sub", "a"), I(0)), (X("(foo)", "a"), I(0))]),
                     (t2, [(X("(foo)", "a"), I(0)), (X("(foo)", "sub", "a"), I(0))]),
                     (tiny_schema(ctx, "float"), [(X("(foo)"), LM(("a", ("ident", "Infinity"))))]),
                     (tiny_schema(ctx, "float"), [(X("(foo)"), LM(("a", ("ident", "inf"))))])]:
        cases.append(("corpus", make_case(rng, ctx, "message", 0, fixed=(sch, sts))))
    # 1. corpus: everything on a message, a rotating share on every other element kind
    fixed = {ek: fixed_schema(ctx, ek) for ek in eks}
    def fx(ek, sts):
        c = make_case(rng, ctx, ek, 0, fixed=(fixed[ek], sts))
        c["sch_ref"] = "fx_" + ek          # the fixed schemas are defined once per shard (see fixed_defs)
        return c
    for i, sts in enumerate(corpus("message")):
        cases.append(("corpus", fx("message", sts)))
    others = [e for e in eks if e != "message"]
    for ek in others:
        cs = corpus(ek)
        for i, sts in enumerate(cs):
            if i % corpus_stride == others.index(ek) % corpus_stride or i >= len(cs) - 12:
                cases.append(("corpus", fx(ek, sts)))
    #     repeated and message-typed standard options (targets, edition_defaults, declaration, feature_support) next to custom ones
    for ek in eks:
        for i, sts in enumerate(std_custom_corpus(ek)):
            if corpus_stride == 1 or i % 3 == 0:
                cases.append(("corpus", fx(ek, sts)))
    # 1b. target types: every step of a name and every spelling of a value against `targets` that exclude / include the
    #     element kind; whole list on file, message and field, a rotating third on the other kinds (thorough: everywhere)
    tsch = {ek: targets_schema(ctx, ek) for ek in eks}
    tcs = targets_corpus()
    for k, ek in enumerate(eks):
        for i, sts in enumerate(tcs):
            if ek in ("file", "message", "field") or corpus_stride == 1 or i % 3 == k % 3:
                c = make_case(rng, ctx, ek, 0, fixed=(tsch[ek], sts))
                c["sch_ref"] = "tg_" + ek
                cases.append(("targets", c))
    # 1c. one field descriptor through several paths of one options message (sibling sub-messages of one type, two
    #     extensions of one type, recursive types, repeated message elements; fields without presence in proto3 and
    #     edition 2023, with presence in proto2): the hand-made pairs on a third fixed schema, then random statements of
    #     that shape over it and over random schemas; every other case has a second element with the same statements
    wsch = {ek: twin_schema(ctx, ek) for ek in eks}
    wcs = twin_corpus()
    for k, ek in enumerate(eks):
        for i, sts in enumerate(wcs):
            tail = i >= len(wcs) - 26
            if corpus_stride == 1 or (ek == "message" and (i % 3 == 0 or tail)) or i % 16 == k or (tail and i % 4 == k % 4):
                c = make_case(rng, ctx, ek, 0, fixed=(wsch[ek], sts), again=(sts if i % 2 else None))
                c["sch_ref"] = "tw_" + ek
                cases.append(("same-field-paths", c))
    for i in range(n_random // 4):
        ek = eks[i % len(eks)]
        if i % 3 == 2:
            sch = gen_schema(ctx, rng, ek, rich=True, p3=True)
            sts = same_field_stmts(rng, sch)
            if sts is None:
                continue
            cases.append(("same-field-paths-random", make_case(rng, ctx, ek, 0, fixed=(sch, sts), again=(sts if rng.chance(1, 3) else None))))
        else:
            sts = same_field_stmts(rng, wsch[ek], lits=(i % 3 == 1))
            c = make_case(rng, ctx, ek, 0, fixed=(wsch[ek], sts), again=(sts if rng.chance(1, 3) else None))
            c["sch_ref"] = "tw_" + ek
            cases.append(("same-field-paths-random", c))
    # 2. random: scalars + paths + repeated first, then the rich schemas
    for i in range(n_random):
        ek = eks[i % len(eks)]
        stage = i % 4
        if stage == 0:
            cases.append(("random-scalar", make_case(rng, ctx, ek, rng.range(1, 5), rich=False, lits=False, wrong=4)))
        elif stage == 1:
            cases.append(("random-rich", make_case(rng, ctx, ek, rng.range(1, 4), rich=True, lits=True, wrong=3)))
        elif stage == 2:
            cases.append(("random-rich", make_case(rng, ctx, ek, rng.range(1, 6), rich=True, lits=True, wrong=12)))
        else:
            # every third field / extension (message-typed ones too) declares targets
            cases.append(("random-targets", make_case(rng, ctx, ek, rng.range(1, 5), rich=True, lits=True, wrong=5, tdense=True)))
    return cases


def escalate(ctx, broken, budget):
    """The mirror model and the implementation disagree on the cases `broken` (strict error class, lenient or unlinked
    run) while the strict outcome of each still agrees with the specification.  Search around them for an input on which
    the property itself fails: every statement of a disagreeing case on its own (an earlier rejected statement hides the
    later ones from the strict run), every respelling of it (name path <-> message literal), the case without each one of
    its statements, then fresh random statements over the schemas of the disagreeing cases.  Every derived input is
    run on the implementation and compared with the specification in coqc."""
    rng = ctx.rng
    derived, seen = [], set()

    def add(c, sts):
        k = (id(c["sch"]), tuple(stmt_coq(s) for s in sts))
        if k in seen or len(derived) >= budget:
            return
        seen.add(k)
        d = make_case(rng, ctx, c["sch"].ek, 0, fixed=(c["sch"], sts))
        if c.get("sch_ref"):
            d["sch_ref"] = c["sch_ref"]
        derived.append(d)
    for _, c, _ in broken:
        seen.add((id(c["sch"]), tuple(stmt_coq(s) for s in c["stmts"])))
    for _, c, _ in broken:
        for st in c["stmts"]:
            add(c, [st])
    for _, c, _ in broken:
        for st in c["stmts"]:
            for st2 in respellings(st):
                add(c, [st2])
    for _, c, _ in broken:
        if 2 <= len(c["stmts"]) <= 6:
            for i in range(len(c["stmts"])):
                add(c, c["stmts"][:i] + c["stmts"][i + 1:])
    schs = []
    for _, c, _ in broken:
        if all(c["sch"] is not x["sch"] for x in schs):
            schs.append(c)
    i = 0
    while schs and len(derived) < budget and i < 4 * budget:
        c = schs[i % len(schs)]
        i += 1
        add(c, [rand_stmt(rng, c["sch"], wrong=3, lits=True)])
    if not derived:
        return 0
    outs = ctx.impl("options", [d["input"] for d in derived])
    terms, meta = [], []
    for d, o in zip(derived, outs):
        if "crash" in o or "panic" in o:
            continue
        try:
            terms.append(case_term(d, o))
        except Unmodelled:
            continue
        meta.append((d, o))
        ctx.count((d["sch"].ek, d["sch"].coq(), tuple(stmt_coq(s) for s in d["stmts"])), True, "escalation")
    res, err = coq_eval_multi("cases_C20e", HEADER, terms, ["spec_chk"], shard_size=ctx.budget(120, 400), defs=fixed_defs(ctx) + DEFS)
    if err:
        raise RuntimeError(err)
    for i in res["spec_chk"]:
        d, o = meta[i]
        obs = {m: dict(o[m]) for m in ("strict", "strictm")}
        what = "accepted although the specification rejects" if o["strictm"].get("ok") else "rejected (or other value) although the specification accepts"
        ctx.violation("differs-from-protoc-spec", "implementation and protoc specification disagree: " + what +
                      " (found by the search around a case on which mirror model and implementation disagree)",
                      {"proto": d["files"]["t.proto"], "files": d["files"], "observed": obs})
    return len(meta)


def run(ctx):
    ctx.rule = ("a case = one generated file (custom-option schema + one target element of kind file/message/field/enum/enum value/"
                "service/method/oneof/extension range carrying 1..6 option statements); corpus: boundary integers for every integer kind, "
                "floats to ints and ints to floats, identifiers, enums by name and number, duplicates, oneofs, deep paths, lists vs repeated, "
                "fields without presence, target types, extensions in paths and literals, on a fixed schema; one field descriptor reached through several "
                "paths of one options message (sibling sub-messages and extensions of one type, recursive types, repeated message elements; fields "
                "without presence in proto3 and edition 2023, with presence in proto2; zero and non-zero values; the same path again; message-literal "
                "spellings; half of the cases with a second element carrying the same statements) as hand-made pairs on a third fixed schema and as "
                "random statements of that shape over it and over random schemas; target types at every step of a "
                "name (first / middle / last part, simple and extension parts) and in every spelling (path, literal, nested literal, list) "
                "against `targets` that exclude / include the element kind, on a second fixed schema; random: staged schemas "
                "(scalars/paths/repeated, then enums, literals, oneofs, extensions, targets, then schemas where every third field - message-typed "
                "ones too - declares targets); when mirror model and implementation disagree, a search around the disagreeing cases "
                "(single statements, respellings, leave-one-out, random statements over the same schema) against the specification; distinct = distinct (schema, element kind, "
                "statements); non-trivial = at least one statement")
    cases = generate(ctx, ctx.budget(440, 12000), ctx.budget(8, 1))
    outs = ctx.impl("options", [c["input"] for _, c in cases])
    terms, meta = [], []
    unmodelled = {}
    panics = 0
    for (klass, c), o in zip(cases, outs):
        text = c["files"]["t.proto"]
        if "crash" in o or "panic" in o:
            ctx.corr_break("options:harness", {"proto": text}, o)
            continue
        try:
            terms.append(case_term(c, o))
        except Unmodelled as e:
            k = str(e).split(":")[0]
            unmodelled[k] = unmodelled.get(k, 0) + 1
            if "parse error" in str(e) or "parser produced" in str(e):
                ctx.corr_break("options:generator", {"proto": text}, {"why": str(e)})
            continue
        meta.append((klass, c, o))
        st = o["strictm"]
        outcome = "accepted" if st.get("ok") else st.get("errclass")
        ctx.count((c["sch"].ek, c["sch"].coq(), tuple(stmt_coq(s) for s in c["stmts"])), len(c["stmts"]) > 0,
                  "%s:%s" % (klass, outcome))
        if st.get("errclass") == "panic":
            panics += 1
        # direct oracle: nothing is left uninterpreted after a successful strict interpretation
        for mode in ("strict", "strictm"):
            r = o[mode]
            if r.get("ok"):
                for e in r["elems"]:
                    if e["unint"]:
                        ctx.violation("uninterpreted-left-after-success",
                                      "%s interpretation succeeded but %s still has %d uninterpreted option(s)" % (mode, e["el"], len(e["unint"])),
                                      {"proto": text, "files": c["files"], "mode": mode, "element": e})
        if o["strict"].get("ok") and not o["strictm"].get("ok"):
            ctx.corr_break("options:compiler-vs-InterpretOptions", {"proto": text, "files": c["files"]},
                           {"why": "protocompile.Compiler accepts what options.InterpretOptions rejects", "interpret_options": o["strictm"]})
        # the whole compiler against InterpretOptions alone: same options when both accept
        if o["strict"].get("ok") and o["strictm"].get("ok"):
            a, b = find_elem(o["strict"], c["key"]), find_elem(o["strictm"], c["key"])
            if (a or {}).get("tree") != (b or {}).get("tree"):
                ctx.violation("compiler-differs-from-interpret-options", "protocompile.Compiler and options.InterpretOptions store different option values",
                              {"proto": text, "files": c["files"], "compiler": a, "interpret_options": b})
    if len(meta) >= 3:
        for k in (0, len(meta) // 2, len(meta) - 1):
            ctx.sample({"proto": meta[k][1]["files"]["t.proto"][-400:], "strict": {kk: vv for kk, vv in meta[k][2]["strictm"].items() if kk != "elems"}})
    res, err = coq_eval_multi("cases_C20", HEADER, terms, CHKS, shard_size=ctx.budget(120, 400), defs=fixed_defs(ctx) + DEFS)
    if err:
        raise RuntimeError(err)
    spec_bad = set(res["spec_chk"])
    nowords_bad = set(res["spec_chk_nowords"])
    for i in sorted(spec_bad):
        klass, c, o = meta[i]
        text = c["files"]["t.proto"]
        obs = {m: {k: v for k, v in o[m].items()} for m in ("strict", "strictm")}
        if i not in nowords_bad:
            ctx.violation("float-word-letter-case-in-message-literal",
                          "inside a message literal a float or double field does not take inf / infinity / nan in another letter case "
                          "(Infinity, INF, NaN ...) unless a minus sign precedes it; protoc's text format reads them in any letter case",
                          {"proto": text, "files": c["files"], "observed": obs})
        elif o["strictm"].get("ok") and implicit_zero_then_again(c["sch"], c["stmts"]):
            ctx.violation("option-set-twice-on-field-without-presence",
                          "an option field without presence (proto3, not optional) that was set to its zero value is accepted a second time; protoc reports it as already set",
                          {"proto": text, "files": c["files"], "observed": obs})
        else:
            what = "accepted although the specification rejects" if o["strictm"].get("ok") else "rejected (or other value) although the specification accepts"
            ctx.violation("differs-from-protoc-spec", "implementation and protoc specification disagree: " + what,
                          {"proto": text, "files": c["files"], "observed": obs})
    broken = []
    for name, corr in (("opt_chk_strict", "options:interpretField/setOptionField/fieldValue (strict)"),
                       ("opt_chk_lenient", "options:interpretOptions (lenient)"),
                       ("opt_chk_unlinked", "options:interpretOptions (unlinked)")):
        for i in res[name]:
            klass, c, o = meta[i]
            ctx.corr_break(corr, {"proto": c["files"]["t.proto"], "files": c["files"]},
                           {m: o[m] for m in ("strictm", "lenient", "unlinked")})
            if all(meta[i] is not b for b in broken):
                broken.append(meta[i])
    if broken and not spec_bad:
        # correspondence broken but no input yet on which the property fails: look for one around the disagreeing cases
        ctx.extra["escalation_cases"] = escalate(ctx, broken[:40], ctx.budget(300, 3000))
    ctx.extra["unmodelled_cases"] = unmodelled
    ctx.extra["panics_observed"] = panics
    if panics:
        ctx.notes.append("%d case(s): the option interpreter panicked (before 36246e7a: a message literal naming an extension of another "
                         "message); the model has no panic, these cases are correspondence breaks" % panics)

    # the specification's ground truth: protoc's own output for the option test files of the repository
    gold_dir = os.path.join(REPO, "internal", "testdata", "options")
    gold = [("test.protoset", "test.proto"), ("test_proto3.protoset", "test_proto3.proto"),
            ("test_editions.protoset", "test_editions.proto"), ("options.protoset", "options.proto")]
    gouts = ctx.impl("options", [{"mode": "golden", "dir": gold_dir, "protoset": ps, "file": f} for ps, f in gold], shards=1)
    agree = {"elements_agree": 0, "elements": 0, "values": 0, "files": {}}
    for (ps, f), g in zip(gold, gouts):
        if "elements_agree" not in g:
            ctx.notes.append("golden %s not evaluated: %s" % (f, g))
            agree["files"][f] = str(g)[:200]
            continue
        agree["elements_agree"] += g["elements_agree"]
        agree["elements"] += g["elements"]
        agree["values"] += g["values"]
        agree["files"][f] = "%d/%d elements, %d option values" % (g["elements_agree"], g["elements"], g["values"])
        ctx.count(("golden", f), True, "golden")
        for d in (g.get("diffs") or []):
            ctx.violation("golden-differs-from-protoc", "option values of %s differ from what protoc stored in %s" % (f, ps),
                          {"file": os.path.join(gold_dir, f), "element": d["el"], "mine": d["mine"], "protoc": d["protoc"]})
    ctx.extra["spec_golden_agreement"] = agree
