"""C13 - Line and column positions are correct (ast/file_info.go SourcePos + the lexer's line table)."""
import itertools
import time
from vlib import *
from C32 import go_decode

ID = "C13"
COQ_FILES = ["Common/Bytes.v", "Common/Corr.v", "Model/Utf8.v", "Model/Lines.v", "Model/FileInfo.v",
             "Proofs/Utf8.v", "Proofs/Lines.v", "Proofs/FileInfo.v", "Props/C13.v"]
PROPS = "Props/C13.v"
THEOREMS = ["C13_line_table_exact", "C13_source_pos_in_range", "C13_line_is_newlines_before_refuted",
            "C13_line_is_newlines_before_partial", "C13_col_spec_partial", "C13_col_counts_characters",
            "C13_partial_table_same_position", "C13_span_start_le_end", "C13_span_start_le_end_any_table",
            "C13_comment_span_start_le_end", "C13_lex_lines_strictly_increasing",
            "C13_fixed_line_table", "C13_fixed_line_and_col_spec",
            "C13_span_end_is_position_after_last_character", "C13_fixed_span_end_spec"]
AXIOMS_OK = []
TRUSTED = ["hand-written Gallina model of FileInfo.SourcePos, NodeInfo.Start/End, Comment.End (ast/file_info.go) and of the rune-level "
           "control flow of protoLex.Lex / readIdentifier / readNumber / readStringLiteral / skipToEndOf*Comment (parser/lexer.go) "
           "as far as it decides where maybeNewLine is called",
           "sort.Search is modelled by its contract on a sorted table (smallest index whose entry exceeds the offset)",
           "correspondence harness (harness/cmd/fileinfo) + verif hooks ast.VerifLines/VerifItems/VerifIsComment/VerifFileInfo/VerifDataLen"]
ASSUMPTIONS = ["the goyacc parser only decides how far the file is lexed (it may stop calling Lex after an error); the table is "
               "compared as a prefix of the model's table that covers every lexed item",
               "utf8Strict is false (as in the pinned code); a leading byte order mark is dropped before lexing (offsets are relative to the rest)",
               "Go ints are modelled as unbounded naturals"]

KEY_STRNL = "newline-inside-string-literal"

# ---- an independent reading of which newlines the lexer consumes inside string literals (used only to
# ---- name the class of a failure; the Coq model is what the theorems are about)
def strlit_newlines(data):
    out = set()
    st, q, k, allow = "top", 0, 0, False
    i = 0
    SP = b"\n\r\t\f\v "

    def top(c):
        if c < 128 and bytes([c]) in SP:
            return "top"
        if c == 0x2e:
            return "dot"
        if c == 0x5f or (c < 128 and chr(c).isalpha()):
            return "ident"
        if 0x30 <= c <= 0x39:
            return "num"
        if c in (0x22, 0x27):
            return "str"
        if c == 0x2f:
            return "slash"
        return "top"

    def isid(c):
        return c == 0x5f or (c < 128 and chr(c).isalnum())

    def strtop(c):
        if c == 10 or c == q:
            return "top"
        if c == 0x5c:
            return "esc"
        return "str"

    while i < len(data):
        c, sz = go_decode(data, i)
        end = i + sz
        instr = st in ("str", "esc", "hex1", "hex2", "oct2", "oct3", "uni")
        if instr and c == 10:
            out.add(end)
        if st == "top":
            st = top(c)
            if st == "str":
                q = c
            allow = False
        elif st == "dot":
            st = "num" if 0x30 <= c <= 0x39 else top(c)
            if st == "str":
                q = c
            allow = False
        elif st == "ident":
            if not isid(c):
                st = top(c)
                if st == "str":
                    q = c
                allow = False
        elif st == "num":
            if (c in (0x2d, 0x2b) and not allow) or not (c in (0x2e, 0x5f, 0x2d, 0x2b) or (c < 128 and chr(c).isalnum())):
                st = top(c)
                if st == "str":
                    q = c
                allow = False
            else:
                allow = c in (0x65, 0x45)
        elif st == "slash":
            if c == 0x2f:
                st = "line"
            elif c == 0x2a:
                st = "block"
            else:
                st = top(c)
                if st == "str":
                    q = c
                allow = False
        elif st == "line":
            if c == 10 or c == 0:
                st = "top"
        elif st in ("block", "star"):
            if st == "star" and c == 0x2f:
                st = "top"
            elif c == 0:
                st = "top"
            elif c == 0x2a:
                st = "star"
            else:
                st = "block"
        elif st == "str":
            st = strtop(c)
        elif st == "esc":
            if c in (0x78, 0x58):
                st = "hex1"
            elif 0x30 <= c <= 0x37:
                st = "oct2"
            elif c == 0x75:
                st, k = "uni", 4
            elif c == 0x55:
                st, k = "uni", 8
            else:
                st = "str"
        elif st == "hex1":
            st = strtop(c) if c in (q, 0x5c) else "hex2"
        elif st == "hex2":
            ishex = c < 128 and chr(c) in "0123456789abcdefABCDEF"
            st = "str" if ishex else strtop(c)
        elif st == "oct2":
            st = "oct3" if 0x30 <= c <= 0x37 else strtop(c)
        elif st == "oct3":
            st = "str" if 0x30 <= c <= 0x37 else strtop(c)
        elif st == "uni":
            if c in (q, 0x5c):
                st = strtop(c)
            else:
                k -= 1
                if k <= 0:
                    st = "str"
        i = end
    return out


def oracle_positions(data):
    """The property, read off the text alone: for every offset 0..len(data) the pair (line, column) with
    line = 1 + number of newlines before the offset and column = 1 + characters since the line start, a tab
    advancing to the next multiple of eight.  column is None where the text does not define it: the offset is
    inside a character, or a byte that is not part of a valid character lies between the line start and it."""
    n = len(data)
    out = [None] * (n + 1)
    line, col, i = 1, 0, 0
    while True:
        out[i] = (line, None if col is None else col + 1)
        if i >= n:
            break
        r, sz = go_decode(data, i)
        for j in range(i + 1, min(i + sz, n + 1)):
            out[j] = (line, None)
        if r == 10:
            line, col = line + 1, 0
        elif r == 0xFFFD and sz == 1:
            col = None
        elif col is not None:
            col = col + (8 - col % 8) if r == 9 else col + 1
        i += sz
    return out


PROTO_FRAGS = ['syntax = "proto3";\n', "package a.b;\n", 'import "x.proto";\n', "message M {\n", "}\n", "  int32 x = 1;\n",
               "\tstring s = 2 [default = \"a\\tb\"];\n", "// line comment é €\n", "/* block\n\n   comment 😀 */", "\r\n", "\n", "\n\n",
               "\t", "  ", "option (o) = \"ü\\n\";\n", "enum E { A = 0; }\n", "/**/", "/* a */ // b\n", "x = 0x1F;", "f = 1.5e+3;", ".5", "'q\\'q'",
               "\"\\x41\\101\\u00e9\\U0001F600\"", "rpc R(A) returns (B);\n", "service S {\n", "\t\tbool b = 3;\t// tail\n",
               "message É {}\n", "\"é\"", "/* é\n\t*/\n"]
BROKEN_FRAGS = ["\"abc\n", "\"a\\\nb\"", "\"\\u\n\n12\"", "'\\x\n'", "\"\\U0001\n\"", "$", "\x00", "/* never closed", "\"never closed",
                "\\", "\"\\q\"", "\x7f", "é", "'\n", "\"\\\n", "/*\x00*/", "//\x00\n", "\"\\18\n\"", "\"\\x4\n\""]
ALPHA = [b'"', b"'", b"\\", b"\n", b"/", b"*", b"x", b"u", b"0", b" ", b"\t", "é".encode(), b";"]


# ---- files whose tokens contain tabs and multi-byte characters (string literals, comments), at arbitrary columns ----
LIT_CHARS = ["a", "b", "\t", "\t", "\t", "é", "€", "😀", " ", "\\t", "\\x41", "\\\\", "z"]
INDENTS = ["", " ", "  ", "\t", "\t\t", " \t", "   \t ", "/* é€ */", "/* é\t*/", "/*\t*/\t", "/* a\n\t é */ ", "      ", "       ", "        "]
TAILS = ["", "", " // c", "\t// tab\tinside é", " // ends in tab\t", " // ends in é", "\t/* b\tc */", " /* € */\t", "\r", " //\t\r"]
DECLS = ["import %s;", "option java_package = %s;", "option (o).f = %s %s;", "optional string f = 1 [default = %s];",
         "optional string f = 1 [default = %s %s, json_name = %s];", "A = 0 [(o) = %s];", "reserved %s, %s;",
         "option (o) = { k: %s l: [%s, %s] };", "optional bytes g = 2 [(x.y) = { s: %s }, deprecated = true];",
         "string h = 3 [json_name = %s]; int32 i = 4;", "option (o) = %s;option (q) = %s;", "rpc R(A) returns (B) { option (p) = %s; }"]


def tabbed_literal(rng):
    q = rng.choice(["\"", "\"", "'"])
    return q + "".join(rng.choice(LIT_CHARS) for _ in range(rng.range(0, 6))) + q


def tabbed_file(rng):
    """a parseable file: every declaration line has random indentation (tabs, spaces, multi-byte characters and
    comments in front), string literals holding raw tabs and multi-byte characters, and a random tail"""
    out = [rng.choice(["", "syntax = \"proto2\";\n", "\tsyntax = \"proto3\";\t// é\n", "edition = \"2023\";\n"])]
    for _ in range(rng.range(1, 5)):
        d = rng.choice(DECLS)
        d = d % tuple(tabbed_literal(rng) for _ in range(d.count("%s")))
        wrap = rng.below(4)
        if d.startswith(("import", "option")) and wrap:
            wrap = 0
        if d.startswith("A = "):
            wrap = 2
        elif d.startswith("rpc"):
            wrap = 3
        elif d.startswith(("optional", "string", "reserved")) and wrap in (0, 2, 3):
            wrap = 1
        if rng.chance(1, 3):
            # break the line after some token boundary that is outside a literal
            cut = [i for i, ch in enumerate(d) if ch in "=[,{" and d[:i].count("\"") % 2 == 0 and d[:i].count("'") % 2 == 0]
            if cut:
                c = rng.choice(cut) + 1
                d = d[:c] + rng.choice(["\n", "\r\n", "\n\n"]) + rng.choice(INDENTS) + d[c:]
        line = rng.choice(INDENTS) + d + rng.choice(TAILS) + "\n"
        if wrap == 1:
            line = rng.choice(INDENTS) + "message M {" + rng.choice(["\n", " ", "\t"]) + line + rng.choice(INDENTS) + "}" + rng.choice(TAILS) + "\n"
        elif wrap == 2:
            line = rng.choice(INDENTS) + "enum E {" + rng.choice(["\n", " ", "\t"]) + line + rng.choice(INDENTS) + "}" + rng.choice(TAILS) + "\n"
        elif wrap == 3:
            line = rng.choice(INDENTS) + "service S {" + rng.choice(["\n", " ", "\t"]) + line + rng.choice(INDENTS) + "}" + rng.choice(TAILS) + "\n"
        out.append(line)
    return "".join(out).encode("utf-8")


def P(p):
    return "(%d, %d)%%nat" % (p[0], p[1])


def run(ctx):
    rng = ctx.rng
    texts = [b"", b"\n", b"\"\n", b"\"\n$", b"'\\\n';\n$", b"\tmessage\t\xc3\xa9 M { }", b"\xef\xbb\xbfmessage M {}\n",
             b"message M {\n /* c\n\n */ $ }\n", b"option x = \"\\u\n\n12\";\n$\n", b"a\r\nb\r\n\r\n", b"// only a comment",
             b"/* a\n b */ message M {\n\tint32 \xc3\xbc = 1;\n}\n", b"message M { option x = \"a\\\nb\";\n\n  $\n}\n",
             b"\xff\n\x80;\n", b"\"\xe2\x82\"\n;", b"syntax = \"proto3\";\nmessage M {\n}\n",
             # tokens that hold tabs / multi-byte characters, and nodes that end in them
             b"message M {\n  optional string s = 1 [default = \"a\tb\"];\n}\n",
             "message M {\n\toptional string s = 1 [default = \"é\t\tz\" 'q\tr', json_name = \"k\t\"];\t// c\t\n}\n".encode(),
             "option (o) = { s: \"😀\t€\" };\t/* a\tb */ import '\t';\n".encode(),
             "// é\t\n/* \t */\t// €".encode(), b"import \"\t\";", b"\t\"\t\t\"\t'\t'"]
    ncorpus = len(texts)
    maxsyms = ctx.budget(3, 4)
    for n in range(1, maxsyms + 1):
        for t in itertools.product(ALPHA, repeat=n):
            texts.append(b"".join(t))
    nexh = len(texts) - ncorpus
    for _ in range(ctx.budget(250, 20000)):
        parts = [rng.choice(PROTO_FRAGS) for _ in range(rng.range(1, 7))]
        for _ in range(rng.below(3)):
            parts.insert(rng.below(len(parts) + 1), rng.choice(BROKEN_FRAGS))
        texts.append("".join(parts).encode("utf-8", "surrogatepass"))
    for _ in range(ctx.budget(120, 5000)):
        texts.append(bytes(rng.choice([0x22, 0x27, 0x5c, 0x0a, 0x2f, 0x2a, 0x78, 0x75, 0x55, 0x30, 0x37, 0x20, 0x09, 0x0d, 0xc3, 0xa9, 0x3b,
                                       0x61, 0x2e, 0x65, 0x2b, 0x00, 0xe2, 0x82, 0xac, 0x7b, 0x7d])
                           if rng.chance(9, 10) else rng.below(256) for _ in range(rng.range(1, 30))))
    coq_limit = len(texts) + ctx.budget(25, 2000)     # the texts below that index also go through the model in coqc
    ntab = ctx.budget(400, 20000)
    for _ in range(ntab):
        texts.append(tabbed_file(rng))
    ctx.rule = ("source texts: hand-picked corpus (%d) + all concatenations of 1..%d symbols from {\", ', \\, LF, /, *, x, u, 0, space, tab, "
                "U+00E9, ;} (%d) + random proto-like files built from declarations, tabs, CRLF, blank lines, line/block comments with multi-byte "
                "characters, string literals with every escape form, and broken fragments (unterminated strings, newline after backslash, NUL, "
                "stray bytes) + random strings over the lexer's special bytes + %d parseable files whose declarations sit behind random "
                "indentation (tabs, spaces, comments with tabs and multi-byte characters), hold single and adjacent string literals with raw "
                "tabs, 2-, 3- and 4-byte characters and escapes (import, option values, message literals, default / json_name, reserved names), "
                "are broken over lines (LF, CRLF, blank lines) and end in comments that contain or end in a tab or a multi-byte character; "
                "every text goes through the real lexer+parser with a reporter "
                "that keeps going; observed: SourcePos of every offset 0..len, Start() and End() of every item and every AST node, every "
                "reported error; each is compared with the line and column recomputed from the text (Start = position of the first "
                "character, NodeInfo.End = position just after the last character of the last token, Comment.End = position of the offset "
                "it reports). The model in coqc sees all texts but the last %d of the parseable-file stratum (direct oracle only). "
                "distinct = distinct (text, offset); non-trivial = offset > 0" % (ncorpus, maxsyms, nexh, ntab, max(0, len(texts) - coq_limit)))
    t_start = time.time()
    outs = ctx.impl("fileinfo", [{"mode": "parse", "text": t.hex()} for t in texts])
    terms, meta = [], []
    parse_panics = []
    for ti, (t, o) in enumerate(zip(texts, outs)):
        in_coq = ti < coq_limit
        if "crash" in o or "panic" in o:
            ctx.corr_break("fileinfo", {"text": t.hex()}, o)
            ctx.violation("panic", "lexer/parser or SourcePos panicked on this text", {"text": t.hex(), "observed": o})
            continue
        data = bytes.fromhex(o["data"])
        dl = coq_N_list(data)
        true_nl = [i + 1 for i, b in enumerate(data) if b == 10]
        strnl = strlit_newlines(data)
        errpos = [e[0] for e in o["errs"]] + [e[1] for e in o["errs"]]

        opos = oracle_positions(data)

        def judge(what, line, col, off, lexed_table, keys=("line-number", "column"), extra=None):
            """the property on one reported position: (line, col) must be the position of offset off in the text"""
            if not 0 <= off <= len(data):
                ctx.violation(keys[0], "a reported position lies outside the file", dict(extra or {}, text=t.hex(), offset=off, reported=[line, col], what=what))
                return
            eline, ecol = opos[off]
            if line == eline and (ecol is None or col == ecol):
                return
            rep = dict(extra or {}, text=t.hex(), offset=off, reported=[line, col], expected=[eline, ecol], what=what)
            before = [p for p in true_nl if p <= off]
            missed = [p for p in before if p in strnl and (lexed_table is None or p not in lexed_table)]
            if line != eline:
                ctx.violation(KEY_STRNL if missed and line == eline - len(missed) else keys[0],
                              "reported line != 1 + number of newlines before the offset", rep)
            start = before[-1] if before else 0
            if ecol is not None and col != ecol:
                ctx.violation(KEY_STRNL if start in missed else keys[1],
                              "reported column != 1 + characters since the line start (tab -> next multiple of 8)", rep)

        def judge_span(what, first, last, st, en, is_comment):
            """Start()/End() of an item or node whose first / last items are first / last = [offset, length, ...].
            NodeInfo.Start is the position of the first character (Offset = its offset).  NodeInfo.End is the position
            just after the last character (ast/file_info.go: open range; its Offset field stays on the last character),
            so its line and column must be those of offset+length of the last item.  Comment.End is the position of
            the comment's last byte: line and column must be those of the offset it reports."""
            ex = {"first_item": first[:2], "last_item": last[:2], "start": st, "end": en}
            if st[2] != first[0]:
                ctx.violation("span-start-position", "Start() of a %s is not at the first character of its first item" % what,
                              dict(ex, text=t.hex(), what=what + " Start()"))
            else:
                judge(what + " Start()", st[0], st[1], first[0], lines, ("span-start-position", "span-start-position"), ex)
            if is_comment:
                judge(what + " End() (comment: position of the last byte)", en[0], en[1], en[2], lines,
                      ("span-end-position", "span-end-position"), ex)
            else:
                judge(what + " End() (position just after the last character)", en[0], en[1], last[0] + last[1], lines,
                      ("span-end-position", "span-end-position"), ex)

        if o.get("parse_panic"):
            # parser.Parse itself panicked: totality of the parser is property C12; here only the positions it
            # reported before the panic are judged
            parse_panics.append({"text": t.hex(), "panic": o["parse_panic"]})
        if o.get("noast") or o.get("parse_panic"):
            # only error positions are observable
            for l, c, off in errpos:
                ctx.count((data, off), off > 0, "error-position/no-ast")
                judge("error position", l, c, off, None)
            continue
        lines, items, pos = o["lines"], o["items"], o["pos"]
        T, Mt = (terms, meta) if in_coq else ([], [])
        lexed = max([lines[-1]] + [it[0] + it[1] for it in items])
        T.append("FILines %s %s %d%%nat" % (dl, coq_nat_list(lines), lexed))
        Mt.append(("lines", t, {"lines": lines, "lexed": lexed}))
        T.append("FIPos %s %s %s" % (dl, coq_nat_list(lines), coq_list(pos, lambda p: "(Some %s)" % P(p))))
        Mt.append(("pos", t, {"lines": lines}))
        spans = [(it, sp) for it, sp in zip(items, o["spans"]) if sp]
        if spans:
          T.append("FISpans %s %s %s" % (dl, coq_nat_list(lines), coq_list(
            spans, lambda x: "(%d%%nat, %d%%nat, %s, %s, %s)" % (x[0][0], x[0][1], coq_bool(x[0][2]), P(x[1][0]), P(x[1][1])))))
          Mt.append(("spans", t, {"spans": spans}))
        if o["nodes"]:
          T.append("FINodes %s %s %s" % (dl, coq_nat_list(lines), coq_list(
            o["nodes"], lambda n: "(%s, %s, %s, %s)" % (P(items[n[0]]), P(items[n[1]]), P(n[2]), P(n[3])))))
          Mt.append(("nodes", t, {"nodes": o["nodes"]}))
        if errpos:
          T.append("FIErrs %s %s %s" % (dl, coq_nat_list(lines), coq_list(errpos, lambda e: "(%d, %d, %d)%%nat" % tuple(e))))
          Mt.append(("errs", t, {"errs": errpos}))
        # ---- direct oracle ----
        bogus = [p for p in lines[1:] if p not in true_nl]
        if bogus or lines[0] != 0:
            ctx.violation("line-table-bogus-entry", "the line table has an entry that is not the offset after a newline",
                          {"text": t.hex(), "lines": lines})
        missing = [p for p in true_nl if p <= lexed and p not in lines]
        if missing:
            ctx.violation(KEY_STRNL if all(p in strnl for p in missing) else "line-table-missing-newline",
                          "the lexer did not record the line start after a newline it consumed",
                          {"text": t.hex(), "lines": lines, "missing": missing, "lexed_up_to": lexed})
        for off in range(0, lexed + 1):
            ctx.count((data, off), off > 0, "offset")
            judge("SourcePos(offset)", pos[off][0], pos[off][1], off, lines)
        for l, c, off in errpos:
            ctx.count((data, "e", off), True, "error-position")
            judge("error position", l, c, off, lines)
        for what, lst in (("item", [(it, it, sp[0], sp[1], bool(it[2])) for it, sp in spans]),
                          ("node", [(items[n[0]], items[n[1]], n[2], n[3], False) for n in o["nodes"]])):
            for first, last, st, en, isc in lst:
                ctx.count((data, what, tuple(st), tuple(en)), True, what + "-span")
                if (st[0], st[1]) > (en[0], en[1]) or st[2] > en[2]:
                    ctx.violation("span-start-after-end", "a %s span starts after it ends" % what,
                                  {"text": t.hex(), "start": st, "end": en})
                judge_span(what, first, last, st, en, isc)
    # SourcePos on arbitrary byte strings with an explicit table (no lexer)
    tabs = []
    for _ in range(ctx.budget(150, 10000)):
        n = rng.range(0, 24)
        d = bytes(rng.choice([0x0a, 0x09, 0x61, 0x20, 0xc3, 0xa9, 0xe2, 0x82, 0xac, 0x80, 0xbf, 0xf0, 0x9f, 0x98, 0x0d]) if rng.chance(9, 10)
                  else rng.below(256) for _ in range(n))
        nl = [i + 1 for i, b in enumerate(d) if b == 10]
        if rng.chance(1, 4):
            nl = [p for p in nl if rng.chance(2, 3)]
        tabs.append((d, nl))
    touts = ctx.impl("fileinfo", [{"mode": "table", "text": d.hex(), "lines": nl} for d, nl in tabs])
    for (d, nl), o in zip(tabs, touts):
        if "crash" in o or "panic" in o:
            ctx.corr_break("fileinfo:table", {"text": d.hex(), "lines": nl}, o)
            continue
        ctx.count((d, tuple(nl)), len(d) > 0, "explicit-table")
        terms.append("FIPos %s %s %s" % (coq_N_list(d), coq_nat_list([0] + nl), coq_list(o["pos"], lambda p: "(Some %s)" % P(p))))
        meta.append(("table-pos", d, {"lines": [0] + nl}))
    for t in (texts[3], texts[12], texts[ncorpus + nexh + 1], texts[-1]):
        ctx.sample({"text": t.hex()})

    header = ("From Coq Require Import List NArith Bool.\nImport ListNotations.\n"
              "From PV Require Import Common.Corr Model.Utf8 Model.Lines Model.FileInfo.\nOpen Scope N_scope.\n")
    t_coq = time.time()
    mism, err = coq_eval_mismatches("cases_C13", header, terms, "fi_chk", shard_size=min(800, max(200, len(terms) // NCPU + 1)))
    if err:
        raise RuntimeError(err)
    variant = "as-is (newlines inside string literals are not recorded)"
    if mism:
        mism2, err = coq_eval_mismatches("cases_C13f", header, terms, "fi_chk_fixed", shard_size=800)
        if err:
            raise RuntimeError(err)
        if not mism2:
            variant, mism = "repaired lexer (lex_lines_fixed)", []
        elif len(mism2) < len(mism):
            variant, mism = "neither; closest = repaired", mism2
        else:
            variant = "neither; closest = as-is"
    ctx.extra["timing_s"] = {"implementation_and_oracle": round(t_coq - t_start, 1), "model_in_coq": round(time.time() - t_coq, 1), "coq_terms": len(terms)}
    ctx.extra["model_variant_matching_implementation"] = variant
    ctx.extra["parser_panics_seen_not_judged_here"] = {"count": len(parse_panics),
                                                        "smallest": min(parse_panics, key=lambda x: len(x["text"])) if parse_panics else None}
    ctx.notes.append("theorems that apply to the implementation: " +
                     ("C13_fixed_* (unconditional)" if variant.startswith("repaired") else "C13_*_partial / _refuted (pinned code)"))
    for k in mism:
        kind, t, detail = meta[k]
        ctx.corr_break("fileinfo:" + kind, {"text": t.hex()}, {"observed": detail, "model_variant": variant})
    ctx.exhaustive = True
    ctx.extra["exhaustive_part"] = "all texts of 1..%d symbols over the 13-symbol lexer alphabet, every offset" % maxsyms
