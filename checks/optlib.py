"""Shared helpers of the C20 / C21 checks (family `options`, models coq/Model/Options.v and
coq/Model/ProtocOptions.v): generator of custom-option schemas and option statements, rendering to .proto
text and to Coq terms, translation of the harness observations (canonical option trees, uninterpreted
remainders, error classes) into Coq terms, evaluation of several checkers over the same cases in coqc."""
import json, os, re, subprocess
from vlib import *

HEADER = ("From Coq Require Import List ZArith NArith Bool String.\nImport ListNotations.\n"
          "From PV Require Import Common.Corr Model.Options Model.ProtocOptions.\n"
          "Open Scope string_scope.\nOpen Scope Z_scope.\n")

SCALARS = ["int32", "sint32", "sfixed32", "int64", "sint64", "sfixed64", "uint32", "fixed32", "uint64", "fixed64",
           "bool", "float", "double", "string", "bytes"]
COQ_KIND = {"int32": "KInt32", "sint32": "KSint32", "sfixed32": "KSfixed32", "int64": "KInt64", "sint64": "KSint64",
            "sfixed64": "KSfixed64", "uint32": "KUint32", "fixed32": "KFixed32", "uint64": "KUint64",
            "fixed64": "KFixed64", "bool": "KBool", "float": "KFloat", "double": "KDouble", "string": "KString",
            "bytes": "KBytes"}
INT_RANGE = {"int32": (-2**31, 2**31 - 1), "sint32": (-2**31, 2**31 - 1), "sfixed32": (-2**31, 2**31 - 1),
             "int64": (-2**63, 2**63 - 1), "sint64": (-2**63, 2**63 - 1), "sfixed64": (-2**63, 2**63 - 1),
             "uint32": (0, 2**32 - 1), "fixed32": (0, 2**32 - 1), "uint64": (0, 2**64 - 1), "fixed64": (0, 2**64 - 1)}

# element kinds: target type number, options message, standard option fields the generator may use
ELEMENTS = {
    "file": (1, "google.protobuf.FileOptions", ["java_package", "java_multiple_files", "optimize_for", "deprecated", "cc_enable_arenas", "go_package"]),
    "extrange": (2, "google.protobuf.ExtensionRangeOptions", ["verification", "declaration"]),
    "message": (3, "google.protobuf.MessageOptions", ["deprecated", "no_standard_descriptor_accessor"]),
    "field": (4, "google.protobuf.FieldOptions", ["deprecated", "ctype", "jstype", "lazy", "debug_redact", "feature_support", "targets", "edition_defaults"]),
    "oneof": (5, "google.protobuf.OneofOptions", []),
    "enum": (6, "google.protobuf.EnumOptions", ["deprecated"]),
    "enumval": (7, "google.protobuf.EnumValueOptions", ["deprecated", "debug_redact", "feature_support"]),
    "service": (8, "google.protobuf.ServiceOptions", ["deprecated"]),
    "method": (9, "google.protobuf.MethodOptions", ["deprecated", "idempotency_level"]),
}
TARGET_NAMES = {1: "TARGET_TYPE_FILE", 2: "TARGET_TYPE_EXTENSION_RANGE", 3: "TARGET_TYPE_MESSAGE", 4: "TARGET_TYPE_FIELD",
                5: "TARGET_TYPE_ONEOF", 6: "TARGET_TYPE_ENUM", 7: "TARGET_TYPE_ENUM_ENTRY", 8: "TARGET_TYPE_SERVICE",
                9: "TARGET_TYPE_METHOD"}
ERR_COQ = {"no-field": "ENoField", "no-ext": "ENoExt", "wrong-extendee": "EWrongExtendee",
           "path-not-message": "EPathNotMessage", "path-repeated": "EPathRepeated", "oneof-conflict": "EOneof",
           "already-set": "EAlreadySet", "range": "ERange", "type": "EType", "type-message": "ETypeMessage",
           "enum-name": "EEnumName", "enum-number": "EEnumNumber", "enum-type": "EEnumType", "enum-range": "EEnumRange",
           "enum-closed": "EEnumClosed", "array-nonrepeated": "EArrayNonRepeated", "lit-no-field": "ELitNoField",
           "target-type": "ETargetType"}

BOUNDARY = [0, 1, -1, 2, 127, 2**31 - 1, 2**31, -2**31, -2**31 - 1, 2**32 - 1, 2**32, 2**63 - 1, 2**63, -2**63,
            -2**63 - 1, 2**64 - 1, 2**64, 2**24 + 1, 2**53 + 1, -(2**53 + 3), 2**63 + 2**10 + 1, 2**31 - 2, -2**31 + 1,
            2**32 - 2, 2**63 - 2, 2**64 - 2, 3 * 2**62 + 12345, 16777219, 10**19]
FLOATS = ["1.5", "0.1", "-0.0", "0.0", "1e40", "3.4028235e38", "3.4028236e38", "1e-50", "16777217.0", "2.5e-45",
          "1.401298464324817e-45", "7e-46", "123456.789", "-1e39", "4294967296.0", "1e300", "-2.0", "0.30000000000000004",
          "inf_neg", "nan_neg"]
IDENTS = ["true", "false", "inf", "nan", "t", "f", "True", "False", "FOO", "infinity", "TRUE", "Infinity", "NaN"]


# ------------------------------------------------------------------ standard options (read from the code under test)
_STD = {}


def std_schema(ctx):
    """field descriptors of the standard options messages as the implementation under test sees them"""
    if "s" not in _STD:
        want = {m: fs for (_, m, fs) in ELEMENTS.values()}
        out = ctx.impl("options", [{"mode": "describe", "want": want}], shards=1)[0]
        if "messages" not in out:
            raise RuntimeError("describe failed: %r" % (out,))
        _STD["s"] = out
    return _STD["s"]


# ------------------------------------------------------------------ schema
class Field:
    def __init__(self, name, num, kind, rep=False, oneof=None, implicit=False, targets=()):
        self.name, self.num, self.kind, self.rep, self.oneof = name, num, kind, rep, oneof
        self.implicit, self.targets = implicit, list(targets)

    def is_msg(self):
        return isinstance(self.kind, tuple) and self.kind[0] == "msg"

    def is_enum(self):
        return isinstance(self.kind, tuple) and self.kind[0] == "enum"

    def coq(self):
        if self.is_msg():
            k = "(KMsg %d)" % self.kind[1]
        elif self.is_enum():
            k = "(KEnum %d)" % self.kind[1]
        else:
            k = COQ_KIND[self.kind]
        return 'mkField "%s" %d%%N %s %s %s %s %s' % (
            self.name, self.num, k, coq_bool(self.rep),
            "None" if self.oneof is None else "(Some %d%%nat)" % self.oneof, coq_bool(self.implicit),
            "[" + ";".join("%d%%N" % t for t in self.targets) + "]")


class Schema:
    """msgs[i] = {"name", "fields", "where": std|main|p3, "extendable"}; enums[i] = {"name", "values", "closed", "where"};
    exts[i] = {"name", "extendee", "field"}.  msgs[0] is the options message of the element kind."""

    def __init__(self):
        self.msgs, self.enums, self.exts = [], [], []
        self.ek = None

    def coq(self):
        ms = "[" + "; ".join("mkMsg [" + "; ".join(f.coq() for f in m["fields"]) + "]" for m in self.msgs) + "]"
        es = "[" + "; ".join("mkEnum [" + "; ".join('("%s", %s)' % (n, coq_Z(v)) for n, v in e["values"]) + "] " + coq_bool(e["closed"])
                             for e in self.enums) + "]"
        xs = "[" + "; ".join('mkExt "%s" %d%%nat (%s)' % (x["name"], x["extendee"], x["field"].coq()) for x in self.exts) + "]"
        return "(mkSchema %s %s %s)" % (ms, es, xs)

    def fields_of(self, mi):
        return self.msgs[mi]["fields"]

    def exts_of(self, mi):
        return [x for x in self.exts if x["extendee"] == mi]


def _std_kind(sch, std, f, enum_idx, msg_idx):
    k = f["kind"]
    if k == "enum":
        return ("enum", enum_idx(f["enum"]))
    if k == "message":
        return ("msg", msg_idx(f["msg"]))
    return k


def gen_schema(ctx, rng, ek, rich=True, tdense=False, p3=None):
    """A random schema for options on element kind ek.  rich=False: scalars, paths and repeated fields only.
    tdense=True: every third field / extension (message-typed ones included, which is what makes the steps of a name
    path and the fields of nested literals meet a target-type restriction) declares `targets`."""
    std = std_schema(ctx)
    tt, optmsg, stdfields = ELEMENTS[ek]
    sch = Schema()
    sch.ek = ek
    std_enum_idx, std_msg_idx = {}, {}

    def enum_idx(full):
        if full not in std_enum_idx:
            e = std["enums"][full]
            sch.enums.append({"name": full, "values": [(n, v) for n, v in e["values"]], "closed": e["closed"], "where": "std"})
            std_enum_idx[full] = len(sch.enums) - 1
        return std_enum_idx[full]

    pending = []

    def msg_idx(full):
        if full not in std_msg_idx:
            sch.msgs.append({"name": full, "fields": [], "where": "std", "extendable": False})
            std_msg_idx[full] = len(sch.msgs) - 1
            pending.append(full)
        return std_msg_idx[full]

    msg_idx(optmsg)
    # user messages first get their indices (1..k), std sub-messages are appended afterwards
    nm = rng.range(2, 4)
    for i in range(nm):
        sch.msgs.append({"name": "M%d" % (i + 1), "fields": [], "where": "main", "extendable": rng.chance(1, 2)})
    use_p3 = rich and rng.chance(1, 3)
    if p3 is not None:
        use_p3 = p3
    if use_p3:
        sch.msgs.append({"name": "P3", "fields": [], "where": "p3", "extendable": False})
    user_msgs = [i for i, m in enumerate(sch.msgs) if m["where"] != "std"]
    # std messages
    while pending:
        full = pending.pop()
        mi = std_msg_idx[full]
        for f in (std["messages"][full] or []):
            if f["map"] or f["kind"] == "group":
                continue
            sch.msgs[mi]["fields"].append(Field(f["name"], f["number"], _std_kind(sch, std, f, enum_idx, msg_idx),
                                                rep=f["repeated"], oneof=(None if f["oneof"] < 0 else f["oneof"]),
                                                implicit=f["implicit"], targets=f["targets"] or []))
    # user enums
    closed_e = []
    for i in range(rng.range(1, 2)):
        n = "E%d" % (i + 1)
        vals = [(n + "_A", 0), (n + "_B", 1), (n + "_N", -5), (n + "_X", 2147483647)]
        if rng.chance(1, 2):
            vals.append((n + "_M", -2147483648))
        sch.enums.append({"name": n, "values": vals, "closed": True, "where": "main"})
        closed_e.append(len(sch.enums) - 1)
    open_e = []
    if use_p3:
        sch.enums.append({"name": "OE", "values": [("OE_Z", 0), ("OE_A", 1), ("OE_B", 7)], "closed": False, "where": "p3"})
        open_e.append(len(sch.enums) - 1)

    def rand_kind(in_p3):
        r = rng.below(100)
        if rich and r < 12:
            pool = open_e if in_p3 else (closed_e + open_e)
            return ("enum", rng.choice(pool))
        if r < 34:
            pool = [i for i in user_msgs if (sch.msgs[i]["where"] == "p3") == in_p3 or not in_p3]
            if in_p3:
                pool = [i for i in user_msgs if sch.msgs[i]["where"] == "p3"]
            return ("msg", rng.choice(pool))
        return rng.choice(SCALARS)

    for mi in user_msgs:
        m = sch.msgs[mi]
        in_p3 = m["where"] == "p3"
        nf = rng.range(3, 6)
        oneof_members = 0
        want_oneof = rich and rng.chance(2, 3)
        for j in range(nf):
            k = rand_kind(in_p3)
            rep = rng.chance(1, 4)
            oneof = None
            implicit = False
            if want_oneof and not rep and oneof_members < 3 and rng.chance(1, 2):
                oneof = 0
                oneof_members += 1
            if in_p3 and not rep and oneof is None and not (isinstance(k, tuple) and k[0] == "msg"):
                implicit = rng.chance(2, 3)      # else declared `optional`
            targets = []
            if rich and (rng.chance(1, 3) if tdense else rng.chance(1, 10)):
                targets = sorted(set(rng.choice(list(TARGET_NAMES)) for _ in range(rng.range(1, 2))))
                if rng.chance(1, 2) and tt not in targets:
                    targets.append(tt)
            m["fields"].append(Field("f%d" % (j + 1), j + 1, k, rep, oneof, implicit, targets))
        if want_oneof and oneof_members == 1:
            # a oneof with one member is legal; keep it
            pass
    # extensions of the options message
    num = 50001
    for j in range(rng.range(3, 6)):
        k = rand_kind(False)
        rep = rng.chance(1, 4)
        targets = []
        if rich and (rng.chance(1, 3) if tdense else rng.chance(1, 8)):
            targets = sorted(set(rng.choice(list(TARGET_NAMES)) for _ in range(rng.range(1, 2))))
            if tdense and rng.chance(1, 2) and tt not in targets:
                targets.append(tt)
        sch.exts.append({"name": "x%d" % (j + 1), "extendee": 0, "field": Field("x%d" % (j + 1), num, k, rep, None, False, targets)})
        num += 1
    # at least one message-typed and one scalar extension
    sch.exts.append({"name": "xm", "extendee": 0, "field": Field("xm", num, ("msg", rng.choice(user_msgs)), False, None, False, [])})
    sch.exts.append({"name": "xi", "extendee": 0, "field": Field("xi", num + 1, rng.choice(SCALARS[:10]), False, None, False, [])})
    # extensions of user messages
    if rich:
        for mi in user_msgs:
            if sch.msgs[mi]["extendable"] and sch.msgs[mi]["where"] == "main":
                for j in range(rng.range(1, 2)):
                    n = "y%d_%d" % (mi, j + 1)
                    targets = []
                    if tdense and rng.chance(1, 3):
                        targets = [rng.choice(list(TARGET_NAMES))] + ([tt] if rng.chance(1, 2) else [])
                        targets = sorted(set(targets))
                    sch.exts.append({"name": n, "extendee": mi, "field": Field(n, 100 + j, rand_kind(False), rng.chance(1, 5), None, False, targets)})
    return sch


def fixed_schema(ctx, ek):
    """The hand-made schema of the corpus: one extension option of every scalar kind on the options message of ek,
    message M1 with a field of every kind / a recursive sub-message / repeated fields / a oneof / an extension range,
    message M2 (extendable), proto3 message P3 (fields with and without presence), closed enum E1, open enum OE."""
    std = std_schema(ctx)
    tt, optmsg, stdfields = ELEMENTS[ek]
    sch = Schema()
    sch.ek = ek
    std_enum_idx, std_msg_idx, pending = {}, {}, []

    def enum_idx(full):
        if full not in std_enum_idx:
            e = std["enums"][full]
            sch.enums.append({"name": full, "values": [(n, v) for n, v in e["values"]], "closed": e["closed"], "where": "std"})
            std_enum_idx[full] = len(sch.enums) - 1
        return std_enum_idx[full]

    def msg_idx(full):
        if full not in std_msg_idx:
            sch.msgs.append({"name": full, "fields": [], "where": "std", "extendable": False})
            std_msg_idx[full] = len(sch.msgs) - 1
            pending.append(full)
        return std_msg_idx[full]

    msg_idx(optmsg)
    sch.msgs.append({"name": "M1", "fields": [], "where": "main", "extendable": True})     # 1
    sch.msgs.append({"name": "M2", "fields": [], "where": "main", "extendable": True})     # 2
    sch.msgs.append({"name": "P3", "fields": [], "where": "p3", "extendable": False})      # 3
    while pending:
        full = pending.pop()
        mi = std_msg_idx[full]
        for f in (std["messages"][full] or []):
            if f["map"] or f["kind"] == "group":
                continue
            sch.msgs[mi]["fields"].append(Field(f["name"], f["number"], _std_kind(sch, std, f, enum_idx, msg_idx),
                                                rep=f["repeated"], oneof=(None if f["oneof"] < 0 else f["oneof"]),
                                                implicit=f["implicit"], targets=f["targets"] or []))
    sch.enums.append({"name": "E1", "values": [("E1_A", 0), ("E1_B", 1), ("E1_N", -5), ("E1_X", 2147483647)], "closed": True, "where": "main"})
    e1 = len(sch.enums) - 1
    sch.enums.append({"name": "OE", "values": [("OE_Z", 0), ("OE_A", 1), ("OE_B", 7)], "closed": False, "where": "p3"})
    oe = len(sch.enums) - 1
    m1 = sch.msgs[1]["fields"]
    for i, k in enumerate(SCALARS):
        m1.append(Field("f_" + k, i + 1, k))
    m1 += [Field("sub", 16, ("msg", 1)), Field("rep", 17, "int32", rep=True), Field("repm", 18, ("msg", 1), rep=True),
           Field("oa", 19, "string", oneof=0), Field("ob", 20, "int32", oneof=0), Field("om", 21, ("msg", 1), oneof=0),
           Field("e", 22, ("enum", e1)), Field("oe", 23, ("enum", oe)), Field("p", 24, ("msg", 3)),
           Field("onenum", 25, "int32", targets=[6]), Field("reps", 26, "string", rep=True)]
    sch.msgs[2]["fields"] += [Field("z", 1, "int32")]
    sch.msgs[3]["fields"] += [Field("a", 1, "int32", implicit=True), Field("s", 2, "string", implicit=True),
                              Field("oa", 3, "int32"), Field("sub", 4, ("msg", 3)), Field("b", 5, "bool", implicit=True),
                              Field("e", 6, ("enum", oe), implicit=True), Field("d", 7, "double", implicit=True),
                              Field("r", 8, "int32", rep=True)]
    num = 50001
    for k in SCALARS:
        sch.exts.append({"name": "x_" + k, "extendee": 0, "field": Field("x_" + k, num, k)})
        num += 1
    for n, k, rep, tg in [("xm", ("msg", 1), False, []), ("xr", "uint64", True, []), ("xrm", ("msg", 1), True, []),
                          ("xe", ("enum", e1), False, []), ("xoe", ("enum", oe), False, []), ("xp", ("msg", 3), False, []),
                          ("xt", "int32", False, [4]), ("xre", ("enum", e1), True, [])]:
        sch.exts.append({"name": n, "extendee": 0, "field": Field(n, num, k, rep, None, False, tg)})
        num += 1
    sch.exts.append({"name": "y1", "extendee": 1, "field": Field("y1", 100, "int32")})
    sch.exts.append({"name": "y1m", "extendee": 1, "field": Field("y1m", 101, ("msg", 2))})
    sch.exts.append({"name": "y2", "extendee": 2, "field": Field("y2", 100, "int32")})
    sch.exts.append({"name": "y2r", "extendee": 2, "field": Field("y2r", 101, "int32", rep=True)})
    return sch


def tiny_schema(ctx, where="p3"):
    """message O { int32 a = 1; string s = 2; O sub = 3; } (proto3: a and s have no presence; or proto2) and
    extend google.protobuf.MessageOptions { O foo = 50001; } - the smallest schema for replays"""
    std = std_schema(ctx)
    sch = Schema()
    sch.ek = "message"
    sch.msgs.append({"name": "google.protobuf.MessageOptions", "fields": [], "where": "std", "extendable": False})
    for f in (std["messages"]["google.protobuf.MessageOptions"] or []):
        if f["kind"] in ("bool",) and not f["repeated"]:
            sch.msgs[0]["fields"].append(Field(f["name"], f["number"], f["kind"], targets=f["targets"] or []))
    imp = where == "p3"
    kind_a = "int32"
    if where == "float":
        where, kind_a = "main", "float"
    sch.msgs.append({"name": "O", "where": where, "extendable": False,
                     "fields": [Field("a", 1, kind_a, implicit=imp), Field("s", 2, "string", implicit=imp), Field("sub", 3, ("msg", 1))]})
    sch.exts.append({"name": "foo", "extendee": 0, "field": Field("foo", 50001, ("msg", 1))})
    return sch


def targets_schema(ctx, ek):
    """The smallest schema in which every step of an option name and every spelling of a value (name path, message
    literal, nested literal, list) can meet a field whose `targets` exclude (names with `no`) or include (names with
    `ok`) the element kind ek:
      message T { int32 a; T ok [tt, other]; T no [no]; int32 sno [no]; repeated T rno [no]; repeated int32 rsno [no];
                  T sub; int32 sok [tt]; oneof { T ono [no]; int32 oa; } extensions 100 to 199; }
      extend <options of ek> { T xo; T xno [no]; T xok [tt]; int32 xsno [no]; repeated T xrno [no]; }
      extend T { int32 yno [no]; T ymno [no]; int32 yok [tt]; T ym; }"""
    std = std_schema(ctx)
    tt, optmsg, _ = ELEMENTS[ek]
    no, other = tt % 9 + 1, (tt + 1) % 9 + 1
    sch = Schema()
    sch.ek = ek
    sch.msgs.append({"name": optmsg, "fields": [], "where": "std", "extendable": False})
    for f in (std["messages"][optmsg] or []):
        if f["kind"] in ("bool",) and not f["repeated"]:
            sch.msgs[0]["fields"].append(Field(f["name"], f["number"], f["kind"], targets=f["targets"] or []))
    T = ("msg", 1)
    sch.msgs.append({"name": "T", "where": "main", "extendable": True, "fields": [
        Field("a", 1, "int32"), Field("ok", 2, T, targets=[tt, other]), Field("no", 3, T, targets=[no]),
        Field("sno", 4, "int32", targets=[no]), Field("rno", 5, T, rep=True, targets=[no]),
        Field("rsno", 6, "int32", rep=True, targets=[no]), Field("sub", 7, T), Field("sok", 8, "int32", targets=[tt]),
        Field("ono", 9, T, oneof=0, targets=[no]), Field("oa", 10, "int32", oneof=0)]})
    for i, (n, k, rep, tg) in enumerate([("xo", T, False, []), ("xno", T, False, [no]), ("xok", T, False, [tt]),
                                         ("xsno", "int32", False, [no]), ("xrno", T, True, [no])]):
        sch.exts.append({"name": n, "extendee": 0, "field": Field(n, 50001 + i, k, rep, None, False, tg)})
    for i, (n, k, tg) in enumerate([("yno", "int32", [no]), ("ymno", T, [no]), ("yok", "int32", [tt]), ("ym", T, [])]):
        sch.exts.append({"name": n, "extendee": 1, "field": Field(n, 100 + i, k, False, None, False, tg)})
    return sch


def targets_corpus():
    """statement lists for targets_schema: a target-type restriction met at the first, a middle and the last part of a
    name, on simple and extension parts, alone or together with another error of the same step (repeated, not a message,
    no such field), below a sub-message that is / is not there yet, and at every depth of a message literal or list."""
    A = LM(("a", I(1)))
    one = [
        # name paths: the restricted field is the last part
        (X("(xo)", "sno"), I(1)), (X("(xo)", "sok"), I(1)), (X("(xo)", "no"), A), (X("(xo)", "no"), LM()), (X("(xo)", "ok"), A),
        (X("(xo)", "rno"), A), (X("(xo)", "rsno"), I(1)), (X("(xo)", "ono"), A), (X("(xsno)"), I(1)), (X("(xno)"), A),
        (X("(xno)"), LM()), (X("(xok)"), A), (X("(xrno)"), A), (X("(xo)", "(yno)"), I(1)), (X("(xo)", "(yok)"), I(1)),
        (X("(xo)", "(ymno)"), A), (X("(xo)", "sub", "sno"), I(1)), (X("(xo)", "sub", "sub", "no"), A),
        # ... a part in the middle
        (X("(xo)", "no", "a"), I(1)), (X("(xo)", "ok", "a"), I(1)), (X("(xo)", "sub", "no", "a"), I(1)),
        (X("(xo)", "no", "sub", "a"), I(1)), (X("(xo)", "ok", "no", "a"), I(1)), (X("(xo)", "no", "ok", "a"), I(1)),
        (X("(xo)", "ono", "a"), I(1)), (X("(xo)", "(ymno)", "a"), I(1)), (X("(xo)", "(ym)", "no", "a"), I(1)),
        (X("(xo)", "sub", "(ymno)", "sub", "a"), I(1)), (X("(xo)", "no", "(yok)"), I(1)), (X("(xo)", "no", "no", "no", "a"), I(1)),
        (X("(xo)", "sub", "sub", "sub", "no", "a"), I(1)),
        # ... the first part
        (X("(xno)", "a"), I(1)), (X("(xok)", "a"), I(1)), (X("(xno)", "sub", "a"), I(1)), (X("(xok)", "no", "a"), I(1)),
        (X("(xno)", "ok", "a"), I(1)),
        # ... together with another error of the same or of a later step
        (X("(xo)", "rno", "a"), I(1)), (X("(xo)", "sno", "a"), I(1)), (X("(xo)", "no", "nosuch"), I(1)),
        (X("(xo)", "no", "a"), ("str", [120])), (X("(xrno)", "a"), I(1)), (X("(xsno)", "a"), I(1)), (X("(xno)", "(nosuch)"), I(1)),
        (X("(xo)", "no", "(xo)"), I(1)), (X("(xo)", "no"), I(1)), (X("(xo)", "sno"), ("str", [120])),
        # message literals: depth 1, 2, 3; lists; extension names
        (X("(xo)"), LM(("sno", I(1)))), (X("(xo)"), LM(("sok", I(1)))), (X("(xo)"), LM(("no", A))), (X("(xo)"), LM(("no", LM()))),
        (X("(xo)"), LM(("ok", A))), (X("(xo)"), LM(("ok", LM(("no", A))))), (X("(xo)"), LM(("ok", LM(("sno", I(1)))))),
        (X("(xo)"), LM(("sub", LM(("sub", LM(("no", LM()))))))), (X("(xo)"), LM(("sub", LM(("sub", LM(("sno", I(1)))))))),
        (X("(xo)"), LM(("rno", ("list", [A])))), (X("(xo)"), LM(("rno", A))), (X("(xo)"), LM(("rno", ("list", [])))),
        (X("(xo)"), LM(("rsno", ("list", [I(1), I(2)])))), (X("(xo)"), LM(("rsno", I(1)))), (X("(xo)"), LM(("ono", A))),
        (X("(xo)"), LM(("[yno]", I(1)))), (X("(xo)"), LM(("[yok]", I(1)))), (X("(xo)"), LM(("[ymno]", A))),
        (X("(xo)"), LM(("[ym]", LM(("no", A))))), (X("(xo)"), LM(("sub", LM(("[yno]", I(1)))))),
        (X("(xo)"), LM(("a", I(1)), ("sno", I(2)))), (X("(xo)"), LM(("sno", ("str", [120])))), (X("(xo)"), LM(("no", I(1)))),
        (X("(xno)"), LM(("sno", I(1)))), (X("(xok)"), LM(("no", A))), (X("(xrno)"), LM(("sno", I(1)))),
        # name path ending in a literal
        (X("(xo)", "sub"), LM(("no", A))), (X("(xo)", "ok"), LM(("sub", LM(("sno", I(1)))))), (X("(xo)", "no"), LM(("sno", I(1)))),
        (X("(xo)", "sub", "sub"), LM(("rno", ("list", [A, A])))), (X("(xo)", "(ym)"), LM(("[ymno]", A))),
    ]
    out = [[st] for st in one]
    out += [
        # the sub-message is there already (interpretField continues inside it) / is created by the statement
        [(X("(xo)", "ok", "a"), I(1)), (X("(xo)", "ok", "no", "a"), I(2))],
        [(X("(xo)", "sub", "a"), I(1)), (X("(xo)", "sub", "no", "a"), I(2))],
        [(X("(xo)", "sub", "a"), I(1)), (X("(xo)", "sub", "sno"), I(2))],
        [(X("(xo)"), LM(("ok", A))), (X("(xo)", "ok", "no", "a"), I(2))],
        [(X("(xo)", "a"), I(1)), (X("(xo)", "no", "a"), I(2))],
        # a rejected statement first: only the lenient runs reach the second one
        [(X("(xo)", "nosuch"), I(1)), (X("(xo)", "no", "a"), I(2)), (X("(xo)", "a"), I(3))],
        [(X("(xo)", "no", "a"), I(1)), (X("(xo)", "a"), I(2)), (X("(xo)", "sub", "no", "a"), I(3))],
        [(X("(xo)", "oa"), I(1)), (X("(xo)", "ono", "a"), I(2))],
        [(X("deprecated"), ("ident", "true")), (X("(xo)", "no", "a"), I(2))],
    ]
    return out


def _std_base(ctx, ek):
    """schema holding only the options message of ek (msgs[0]) with the standard fields of ELEMENTS and what they refer to;
    -> (schema, finish) - call finish() after the user messages have got their indices"""
    std = std_schema(ctx)
    tt, optmsg, stdfields = ELEMENTS[ek]
    sch = Schema()
    sch.ek = ek
    std_enum_idx, std_msg_idx, pending = {}, {}, []

    def enum_idx(full):
        if full not in std_enum_idx:
            e = std["enums"][full]
            sch.enums.append({"name": full, "values": [(n, v) for n, v in e["values"]], "closed": e["closed"], "where": "std"})
            std_enum_idx[full] = len(sch.enums) - 1
        return std_enum_idx[full]

    def msg_idx(full):
        if full not in std_msg_idx:
            sch.msgs.append({"name": full, "fields": [], "where": "std", "extendable": False})
            std_msg_idx[full] = len(sch.msgs) - 1
            pending.append(full)
        return std_msg_idx[full]

    def finish():
        while pending:
            full = pending.pop()
            mi = std_msg_idx[full]
            for f in (std["messages"][full] or []):
                if f["map"] or f["kind"] == "group":
                    continue
                sch.msgs[mi]["fields"].append(Field(f["name"], f["number"], _std_kind(sch, std, f, enum_idx, msg_idx),
                                                    rep=f["repeated"], oneof=(None if f["oneof"] < 0 else f["oneof"]),
                                                    implicit=f["implicit"], targets=f["targets"] or []))
    msg_idx(optmsg)
    return sch, finish


def twin_schema(ctx, ek):
    """The schema in which one field DESCRIPTOR is reached through several paths of one options message: sibling
    sub-messages of one type (W.l / W.r, two extensions xp / xp2 of one type), recursive types (sub, W.w), repeated
    message elements (W.rp, xrp, P3.rs), for fields without presence (proto3 P3, edition 2023 ED with
    features.field_presence = IMPLICIT) and with presence (proto2 Q, `optional` / message fields of P3, plain fields of ED):
      message W  { P3 l, r; repeated P3 rp; Q lq, rq; ED le, re; W w; oneof { P3 ol; P3 orr; } }     (proto2)
      message Q  { int32 a; string s; Q sub; repeated int32 r; bool b; }                             (proto2)
      message P3 { int32 a; string s; bool b; OE e; double d; optional int32 o; P3 sub; repeated int32 r; repeated P3 rs; bytes y; uint64 u; float g; }
      message ED { int32 a [IMPLICIT]; string s [IMPLICIT]; int32 o; ED sub; repeated int32 r; EE e [IMPLICIT]; bool b [IMPLICIT]; }
      extend <options of ek> { W xw; P3 xp, xp2; Q xq, xq2; ED xe, xe2; repeated P3 xrp; }"""
    sch, finish = _std_base(ctx, ek)
    W, Q, P, E = 1, 2, 3, 4
    sch.msgs.append({"name": "W", "fields": [], "where": "main", "extendable": False})
    sch.msgs.append({"name": "Q", "fields": [], "where": "main", "extendable": False})
    sch.msgs.append({"name": "P3", "fields": [], "where": "p3", "extendable": False})
    sch.msgs.append({"name": "ED", "fields": [], "where": "ed", "extendable": False})
    finish()
    sch.enums.append({"name": "OE", "values": [("OE_Z", 0), ("OE_A", 1), ("OE_B", 7)], "closed": False, "where": "p3"})
    oe = len(sch.enums) - 1
    sch.enums.append({"name": "EE", "values": [("EE_Z", 0), ("EE_A", 1)], "closed": False, "where": "ed"})
    ee = len(sch.enums) - 1
    sch.msgs[W]["fields"] += [Field("l", 1, ("msg", P)), Field("r", 2, ("msg", P)), Field("rp", 3, ("msg", P), rep=True),
                              Field("lq", 4, ("msg", Q)), Field("rq", 5, ("msg", Q)), Field("le", 6, ("msg", E)),
                              Field("re", 7, ("msg", E)), Field("w", 8, ("msg", W)),
                              Field("ol", 9, ("msg", P), oneof=0), Field("orr", 10, ("msg", P), oneof=0)]
    sch.msgs[Q]["fields"] += [Field("a", 1, "int32"), Field("s", 2, "string"), Field("sub", 3, ("msg", Q)),
                              Field("r", 4, "int32", rep=True), Field("b", 5, "bool")]
    sch.msgs[P]["fields"] += [Field("a", 1, "int32", implicit=True), Field("s", 2, "string", implicit=True),
                              Field("b", 3, "bool", implicit=True), Field("e", 4, ("enum", oe), implicit=True),
                              Field("d", 5, "double", implicit=True), Field("o", 6, "int32"), Field("sub", 7, ("msg", P)),
                              Field("r", 8, "int32", rep=True), Field("rs", 9, ("msg", P), rep=True),
                              Field("y", 10, "bytes", implicit=True), Field("u", 11, "uint64", implicit=True),
                              Field("g", 12, "float", implicit=True)]
    sch.msgs[E]["fields"] += [Field("a", 1, "int32", implicit=True), Field("s", 2, "string", implicit=True), Field("o", 3, "int32"),
                              Field("sub", 4, ("msg", E)), Field("r", 5, "int32", rep=True), Field("e", 6, ("enum", ee), implicit=True),
                              Field("b", 7, "bool", implicit=True)]
    for i, (n, k, rep) in enumerate([("xw", ("msg", W), False), ("xp", ("msg", P), False), ("xp2", ("msg", P), False),
                                     ("xq", ("msg", Q), False), ("xq2", ("msg", Q), False), ("xe", ("msg", E), False),
                                     ("xe2", ("msg", E), False), ("xrp", ("msg", P), True)]):
        sch.exts.append({"name": n, "extendee": 0, "field": Field(n, 50001 + i, k, rep)})
    return sch


def paths_to(sch, mi, maxlen=4, cap=40):
    """name paths (through singular message-typed fields and extensions only) from the options message to messages of
    type index mi, shortest first"""
    out, frontier = [], [([], 0)]
    for _ in range(maxlen):
        nxt = []
        for parts, cur in frontier:
            steps = [(("f", f.name), f) for f in sch.fields_of(cur)] + [(("x", x["name"]), x["field"]) for x in sch.exts_of(cur)]
            for part, f in steps:
                if f.is_msg() and not f.rep:
                    if sch.msgs[f.kind[1]]["where"] == "std":
                        continue
                    q = parts + [part]
                    if f.kind[1] == mi:
                        out.append(q)
                    nxt.append((q, f.kind[1]))
        frontier = nxt[:4 * cap]
        if len(out) >= cap:
            break
    return out[:cap]


def zero_value_of(sch, f):
    k = f.kind
    if f.is_enum():
        return ("ident", sch.enums[k[1]]["values"][0][0])
    if k in INT_RANGE:
        return ("int", 0)
    if k == "bool":
        return ("ident", "false")
    if k in ("float", "double"):
        return ("float", "0.0")
    return ("str", [])


def same_field_stmts(rng, sch, lits=True):
    """2..4 statements that reach ONE field descriptor (a scalar / enum / repeated / message-typed field of a user message
    that several paths lead to) through different paths - now and then through the same path twice, which protoc rejects
    for a singular field -, zero and non-zero values mixed, sometimes one of them spelled as a message literal.
    -> statements, or None when no message of the schema is reached by two paths"""
    cands = []
    for mi, m in enumerate(sch.msgs):
        if m["where"] == "std" or not m["fields"]:
            continue
        ps = paths_to(sch, mi)
        if len(ps) >= 2:
            cands.append((mi, ps))
    if not cands:
        return None
    # messages with fields without presence first
    imp = [c for c in cands if any(f.implicit for f in sch.fields_of(c[0]))]
    mi, ps = rng.choice(imp) if imp and rng.chance(3, 4) else rng.choice(cands)
    fields = sch.fields_of(mi)
    impf = [f for f in fields if f.implicit]
    f = rng.choice(impf) if impf and rng.chance(2, 3) else rng.choice(fields)
    n = rng.range(2, 4)
    chosen = []
    for _ in range(n):
        if chosen and rng.chance(1, 5):
            chosen.append(rng.choice(chosen))          # the same path again
        else:
            chosen.append(rng.choice(ps[:12]))
    out = []
    for q in chosen:
        if f.is_msg():
            v = rand_value(rng, sch, f, 2, 0, lits=lits)
        elif rng.chance(1, 2):
            v = zero_value_of(sch, f)
        else:
            v = rand_scalar_value(rng, sch, f, 0)
        st = (list(q) + [("f", f.name)], v)
        if lits and rng.chance(1, 6):
            st = rng.choice(respellings(st))
        out.append(st)
    if rng.chance(1, 4):
        out.insert(rng.range(0, len(out)), rand_stmt(rng, sch, wrong=3, lits=lits))
    return out


def twin_corpus():
    """statement lists for twin_schema: every pair of paths to P3 (without presence), Q (presence) and ED (editions) on a
    rotating leaf with zero / non-zero values; the same with the first path repeated at the end (rejected: already set);
    message-literal spellings; repeated message elements; oneof members of one type"""
    out = []
    groups = {
        "p": ([X("(xp)"), X("(xp2)"), X("(xp)", "sub"), X("(xp2)", "sub"), X("(xw)", "l"), X("(xw)", "r"), X("(xw)", "l", "sub"),
               X("(xw)", "w", "l"), X("(xw)", "w", "r"), X("(xp)", "sub", "sub"), X("(xw)", "w", "w", "l")],
              [("a", I(0), I(10)), ("s", ("str", []), ("str", [120])), ("b", ("ident", "false"), ("ident", "true")),
               ("e", ("ident", "OE_Z"), ("ident", "OE_A")), ("d", ("float", "0.0"), ("float", "1.5")), ("o", I(0), I(3)),
               ("y", ("str", []), ("str", [0])), ("u", I(0), I(2**64 - 1)), ("g", ("float", "0.0"), ("ident", "inf"))]),
        "q": ([X("(xq)"), X("(xq2)"), X("(xq)", "sub"), X("(xw)", "lq"), X("(xw)", "rq"), X("(xw)", "w", "lq"), X("(xw)", "lq", "sub")],
              [("a", I(0), I(10)), ("s", ("str", []), ("str", [120])), ("b", ("ident", "false"), ("ident", "true"))]),
        "e": ([X("(xe)"), X("(xe2)"), X("(xe)", "sub"), X("(xw)", "le"), X("(xw)", "re"), X("(xw)", "w", "re"), X("(xe2)", "sub", "sub")],
              [("a", I(0), I(10)), ("s", ("str", []), ("str", [120])), ("o", I(0), I(3)), ("e", ("ident", "EE_Z"), ("ident", "EE_A")),
               ("b", ("ident", "false"), ("ident", "true"))]),
    }
    n = 0
    for g in ("p", "q", "e"):
        paths, leaves = groups[g]
        for i in range(len(paths)):
            for j in range(i + 1, len(paths)):
                leaf, z, nz = leaves[n % len(leaves)]
                va, vb = [(z, z), (z, nz), (nz, z), (nz, nz)][(n // len(leaves)) % 4]
                a, b = (paths[i] + [("f", leaf)], va), (paths[j] + [("f", leaf)], vb)
                out.append([a, b])
                if n % 3 == 0:
                    out.append([a, b, (paths[i] + [("f", leaf)], nz)])       # the first path again: already set
                if n % 3 == 1:
                    out.append([b, a, (paths[j] + [("f", leaf)], z)])
                if n % 4 == 2:
                    out.append([a, rs] if (rs := respellings(b)) and (rs := rs[n % len(rs)]) else [a, b])
                if n % 4 == 3:
                    out.append([respellings(a)[0], b] if len(a[0]) > 1 else [a, b])
                n += 1
    A0, A5 = LM(("a", I(0))), LM(("a", I(5)))
    out += [
        # the example of the finding: sibling sub-messages of one type
        [(X("(xw)", "l", "a"), I(0)), (X("(xw)", "r", "a"), I(10))],
        [(X("(xw)", "l", "a"), I(0)), (X("(xw)", "r", "a"), I(0)), (X("(xw)", "l", "s"), ("str", [])), (X("(xw)", "r", "s"), ("str", []))],
        [(X("(xw)", "l", "a"), I(0)), (X("(xw)", "r", "a"), I(10)), (X("(xw)", "l", "a"), I(0))],
        [(X("(xw)", "l", "a"), I(0)), (X("(xw)", "l", "sub", "a"), I(0)), (X("(xw)", "l", "sub", "sub", "a"), I(0)), (X("(xw)", "l", "sub", "a"), I(1))],
        # literals
        [(X("(xw)"), LM(("l", A0), ("r", A0)))],
        [(X("(xw)"), LM(("l", A0), ("r", A0))), (X("(xp)", "a"), I(0))],
        [(X("(xw)", "l"), A0), (X("(xw)", "r", "a"), I(0))],
        [(X("(xw)", "l", "a"), I(0)), (X("(xw)", "r"), A0)],
        [(X("(xw)", "l"), A0), (X("(xw)", "r"), A0)],
        [(X("(xw)", "l"), A0), (X("(xw)", "l", "a"), I(5))],
        [(X("(xw)", "l"), A5), (X("(xw)", "l", "a"), I(0))],
        [(X("(xp)"), LM(("a", I(0)), ("sub", A0))), (X("(xp2)", "a"), I(0))],
        [(X("(xp)", "sub"), LM(("a", I(0)), ("a", I(0))))],
        # repeated message elements
        [(X("(xrp)"), A0), (X("(xrp)"), A0), (X("(xrp)"), A5)],
        [(X("(xrp)"), A0), (X("(xp)", "a"), I(0)), (X("(xrp)"), LM(("a", I(0)), ("s", ("str", []))))],
        [(X("(xw)", "rp"), A0), (X("(xw)", "rp"), A0), (X("(xw)", "l", "a"), I(0))],
        [(X("(xw)"), LM(("rp", ("list", [A0, A0]))))],
        [(X("(xw)"), LM(("rp", A0), ("rp", A5), ("l", A0)))],
        [(X("(xp)", "rs"), A0), (X("(xp)", "rs"), A0), (X("(xp)", "a"), I(0))],
        [(X("(xp)", "r"), I(0)), (X("(xp)", "r"), I(0)), (X("(xp2)", "r"), I(0))],
        # oneof members of one type
        [(X("(xw)", "ol", "a"), I(0)), (X("(xw)", "ol", "s"), ("str", []))],
        [(X("(xw)", "ol", "a"), I(0)), (X("(xw)", "orr", "a"), I(0))],
        [(X("(xw)", "ol", "a"), I(0)), (X("(xw)", "l", "a"), I(0)), (X("(xw)", "w", "ol", "a"), I(0))],
        # a rejected statement between the two (lenient runs)
        [(X("(xw)", "l", "a"), I(0)), (X("(xw)", "l", "nosuch"), I(1)), (X("(xw)", "r", "a"), I(0))],
        [(X("(xw)", "l", "a"), ("str", [120])), (X("(xw)", "r", "a"), I(0)), (X("(xw)", "l", "a"), I(0))],
        # standard options next to them
        [(X("deprecated"), ("ident", "false")), (X("(xp)", "a"), I(0)), (X("(xp2)", "a"), I(0))],
    ]
    return out


def respellings(st):
    """the same assignment written with the name / value boundary elsewhere: (p1..pk) = { pk+1 { .. pn: v } } for every
    k, and a literal with a single field folded into the name.  (Not always equivalent - repeated fields - and not
    meant to be: each spelling is compared with the specification on its own.)"""
    parts, v = st
    out = []
    for k in range(1, len(parts)):
        vv = v
        for p in reversed(parts[k:]):
            vv = ("msg", [(p, vv)])
        out.append((list(parts[:k]), vv))
    p2, v2 = list(parts), v
    while v2[0] == "msg" and len(v2[1]) == 1:
        nm, fv = v2[1][0]
        p2, v2 = p2 + [nm], fv
        out.append((list(p2), v2))
    return out


def X(*parts):
    """name path: "(x)" is an extension part, anything else a field part"""
    return [("x", p[1:-1]) if p.startswith("(") else ("f", p) for p in parts]


def L(**kw):
    return ("msg", [(("x", k[2:]) if k.startswith("x_") and False else ("f", k), v) for k, v in kw.items()])


def LM(*pairs):
    """message literal from (name, value) pairs; name "[x]" = extension"""
    return ("msg", [((("x", n[1:-1]) if n.startswith("[") else ("f", n)), v) for n, v in pairs])


def I(v):
    return ("int", v)


_BADBOOL = ("msg", [(("f", "f_bool"), ("ident", "x"))])
_GOODBOOL = ("msg", [(("f", "f_bool"), ("ident", "t"))])


def corpus(ek):
    """hand-picked statement lists for the fixed schema (each entry one case)"""
    out = []
    for k in SCALARS[:10]:
        lo, hi = INT_RANGE[k]
        for v in [lo - 1, lo, lo + 1, hi - 1, hi, hi + 1, 0, -1, 2**64, -2**63 - 1, 2**63, 2**32, -2**31]:
            out.append([(X("(x_%s)" % k), I(v))])
        out.append([(X("(x_%s)" % k), ("negzero",))])
        for t in ["1.0", "1e3", "-0.0", "inf_neg"]:
            out.append([(X("(x_%s)" % k), ("float", t))])
        for t in ["inf", "nan", "true"]:
            out.append([(X("(x_%s)" % k), ("ident", t))])
        out.append([(X("(x_%s)" % k), ("str", [49]))])
        out.append([(X("(xm)", "f_" + k), I(hi)), (X("(xm)", "f_" + k), I(lo))])
        out.append([(X("(xm)"), LM(("f_" + k, I(hi + 1))))])
        out.append([(X("(xm)"), LM(("f_" + k, I(lo))))])
    for k in ("float", "double"):
        for v in [0, 1, -1, 16777216, 16777217, 16777219, 9007199254740993, -9007199254740995, 2**63, 2**64 - 1, 2**64, -2**63,
                  2**63 + 2**10 + 1, 3 * 2**62 + 12345, 10**19]:
            out.append([(X("(x_%s)" % k), I(v))])
        for t in FLOATS:
            out.append([(X("(x_%s)" % k), ("float", t))])
        for t in ["inf", "nan", "infinity", "Inf", "true"]:
            out.append([(X("(x_%s)" % k), ("ident", t))])
        out.append([(X("(x_%s)" % k), ("str", [49]))])
        out.append([(X("(xm)"), LM(("f_" + k, ("ident", "inf")), ("f_float", ("float", "inf_neg"))))])
        for t in ["Infinity", "INF", "infinity", "NaN", "nan", "Inf", "inF", "nAn", "infinit", "true"]:
            out.append([(X("(xm)"), LM(("f_" + k, ("ident", t))))])
        out.append([(X("(xm)"), LM(("rep", ("ident", "Infinity"))))])
    for t in IDENTS:
        out.append([(X("(x_bool)"), ("ident", t))])
        out.append([(X("(xm)"), LM(("f_bool", ("ident", t))))])
    out.append([(X("(x_bool)"), I(1))])
    out.append([(X("(x_bool)"), ("str", [116, 114, 117, 101]))])
    out.append([(X("(x_string)"), ("str", [97, 34, 92, 39, 0x7e]))])
    out.append([(X("(x_bytes)"), ("str", [0, 1, 255, 128, 10]))])
    out.append([(X("(x_string)"), ("ident", "abc"))])
    out.append([(X("(x_bytes)"), I(7))])
    # enums
    for v in [("ident", "E1_B"), ("ident", "E1_N"), ("ident", "FOO"), I(1), I(-5), ("float", "1.0"), ("str", [65]), ("ident", "OE_A")]:
        out.append([(X("(xe)"), v)])
        out.append([(X("(xoe)"), v)])
        out.append([(X("(xm)"), LM(("e", v)))])
        out.append([(X("(xm)"), LM(("oe", v)))])
    for v in [0, 1, 7, 99, -5, 2147483647, 2147483648, -2147483648, -2147483649, 2**63, 2**64]:
        out.append([(X("(xm)"), LM(("e", I(v))))])
        out.append([(X("(xm)"), LM(("oe", I(v))))])
    out.append([(X("(xre)"), ("ident", "E1_A")), (X("(xre)"), ("ident", "E1_X")), (X("(xre)"), ("ident", "E1_A"))])
    # duplicates, merges
    out += [
        [(X("(x_int32)"), I(1)), (X("(x_int32)"), I(1))],
        [(X("(xr)"), I(1)), (X("(xr)"), I(2)), (X("(xr)"), I(2**64 - 1))],
        [(X("(xr)"), I(1)), (X("(xr)"), I(-1)), (X("(xr)"), I(3))],
        [(X("(xm)", "f_int32"), I(1)), (X("(xm)", "f_int64"), I(2)), (X("(xm)", "f_int32"), I(3))],
        [(X("(xm)"), LM(("f_int32", I(1)))), (X("(xm)", "f_int64"), I(2))],
        [(X("(xm)"), LM(("f_int32", I(1)))), (X("(xm)", "f_int32"), I(2))],
        [(X("(xm)", "f_int32"), I(1)), (X("(xm)"), LM(("f_int64", I(2))))],
        [(X("(xm)"), LM()), (X("(xm)"), LM())],
        [(X("(xm)"), LM(("f_int32", I(1)), ("f_int32", I(2))))],
        [(X("(xrm)"), LM(("f_int32", I(1)))), (X("(xrm)"), LM(("f_int32", I(2)))), (X("(xrm)", "f_int32"), I(3))],
        [(X("(xm)", "sub", "f_int32"), I(1)), (X("(xm)", "sub", "sub", "f_int32"), I(2)), (X("(xm)", "sub", "f_int32"), I(3))],
        [(X("(xm)", "sub", "sub", "sub", "sub", "f_int64"), I(-2**63))],
        [(X("(xm)", "sub", "rep"), I(1)), (X("(xm)", "sub", "rep"), I(2)), (X("(xm)", "rep"), I(3))],
        [(X("(xm)", "rep", "x"), I(1))],
        [(X("(xm)", "f_int32", "x"), I(1))],
        [(X("(xm)", "repm", "f_int32"), I(1))],
        [(X("(xm)", "nosuch"), I(1))],
        [(X("nosuch"), I(1))],
        [(X("(xm)", "sub", "nosuch", "x"), I(1))],
        [(X("(x_int32)", "x"), I(1))],
        # oneofs
        [(X("(xm)", "oa"), ("str", [97])), (X("(xm)", "ob"), I(1))],
        [(X("(xm)", "oa"), ("str", [97])), (X("(xm)", "oa"), ("str", [98]))],
        [(X("(xm)", "om", "f_int32"), I(1)), (X("(xm)", "oa"), ("str", [120]))],
        [(X("(xm)", "oa"), ("str", [120])), (X("(xm)", "om", "f_int32"), I(1))],
        [(X("(xm)", "om", "f_int32"), I(1)), (X("(xm)", "om", "f_int64"), I(1))],
        [(X("(xm)"), LM(("oa", ("str", [97])), ("ob", I(1))))],
        [(X("(xm)"), LM(("oa", ("str", [97])))), (X("(xm)", "ob"), I(1))],
        [(X("(xm)", "sub", "oa"), ("str", [97])), (X("(xm)", "oa"), ("str", [97])), (X("(xm)", "sub", "ob"), I(2))],
        # lists
        [(X("(xm)"), LM(("rep", ("list", [I(1), I(2)]))))],
        [(X("(xm)"), LM(("rep", I(1)), ("rep", I(2)), ("rep", ("list", [I(3)]))))],
        [(X("(xm)"), LM(("rep", ("list", []))))],
        [(X("(xm)"), LM(("f_int32", ("list", [I(1)]))))],
        [(X("(xm)"), LM(("rep", ("list", [I(1), ("str", [120]), I(3)]))))],
        [(X("(xm)"), LM(("rep", ("list", [I(1), I(2**31)]))))],
        [(X("(xm)"), LM(("repm", ("list", [LM(("f_int32", I(1))), LM(("f_int32", I(2)))]))))],
        [(X("(xm)"), LM(("repm", ("list", [LM(("f_int32", I(1))), LM(("nosuch", I(2)))]))))],
        [(X("(xm)"), LM(("repm", LM(("rep", ("list", [I(1)])))), ("repm", LM())))],
        [(X("(xm)"), LM(("sub", LM(("sub", _GOODBOOL)))))],
        [(X("(xm)"), LM(("sub", LM(("sub", _BADBOOL))), ("f_int32", I(1))))],
        [(X("(xm)"), LM(("sub", I(1))))],
        [(X("(xm)"), I(1))],
        [(X("(xm)"), ("ident", "foo"))],
        [(X("(xm)"), LM(("reps", ("list", [("str", [97]), ("str", [])]))))],
        # fields without presence (proto3)
        [(X("(xp)", "a"), I(0)), (X("(xp)", "a"), I(0))],
        [(X("(xp)", "a"), I(0)), (X("(xp)", "a"), I(5))],
        [(X("(xp)", "a"), I(5)), (X("(xp)", "a"), I(0))],
        [(X("(xp)", "s"), ("str", [])), (X("(xp)", "s"), ("str", [120]))],
        [(X("(xp)", "b"), ("ident", "false")), (X("(xp)", "b"), ("ident", "true"))],
        [(X("(xp)", "e"), ("ident", "OE_Z")), (X("(xp)", "e"), ("ident", "OE_A"))],
        [(X("(xp)", "d"), ("float", "0.0")), (X("(xp)", "d"), ("float", "1.5"))],
        [(X("(xp)", "d"), ("float", "-0.0")), (X("(xp)", "d"), ("float", "1.5"))],
        [(X("(xp)", "oa"), I(0)), (X("(xp)", "oa"), I(1))],
        [(X("(xp)"), LM(("a", I(0)), ("a", I(5))))],
        [(X("(xp)"), LM(("a", I(0)))), (X("(xp)", "a"), I(5))],
        [(X("(xp)", "sub", "a"), I(0)), (X("(xp)", "sub", "s"), ("str", [])), (X("(xp)", "sub", "sub", "r"), I(0))],
        [(X("(xm)", "p", "a"), I(0)), (X("(xm)", "p", "a"), I(0))],
        # target types
        [(X("(xt)"), I(1))],
        [(X("(xm)", "onenum"), I(1))],
        [(X("(xm)"), LM(("onenum", I(1))))],
        [(X("(xt)"), ("str", [120]))],
        # extensions inside messages
        [(X("(xm)", "(y1)"), I(5))],
        [(X("(xm)", "(y2)"), I(5))],
        [(X("(xm)", "(y1m)", "z"), I(5)), (X("(xm)", "(y1m)", "(y2)"), I(6))],
        [(X("(xm)"), LM(("[y1]", I(5)), ("f_int32", I(1))))],
        [(X("(xm)"), LM(("[y2]", I(5))))],
        [(X("(xm)"), LM(("[y2]", ("str", [120]))))],
        [(X("(xm)"), LM(("[y2r]", I(5))))],
        [(X("(xm)"), LM(("[y2r]", ("list", [I(5)]))))],
        [(X("(xm)"), LM(("[y2]", ("list", [I(5)]))))],
        [(X("(xm)"), LM(("[y1m]", LM(("z", I(1)), ("[y2]", I(2))))))],
        [(X("(xm)"), LM(("[nosuch_ext_]", I(1))))] if False else [(X("(xm)"), LM(("nosuch", I(1))))],
        [(X("(y1)"), I(1))],
    ]
    # standard options of the element kind
    std_first = {"file": [(X("deprecated"), ("ident", "true")), (X("java_package"), ("str", [97, 46, 98])),
                          (X("optimize_for"), ("ident", "CODE_SIZE")), (X("optimize_for"), ("ident", "FOO")),
                          (X("optimize_for"), I(1)), (X("deprecated"), ("ident", "false"))],
                 "message": [(X("deprecated"), ("ident", "true")), (X("deprecated"), ("ident", "true"))],
                 "field": [(X("ctype"), ("ident", "CORD")), (X("lazy"), ("ident", "t")), (X("jstype"), ("ident", "JS_STRING")),
                           (X("feature_support", "deprecation_warning"), ("str", [120])),
                           (X("feature_support", "edition_introduced"), ("ident", "EDITION_2023")),
                           (X("feature_support", "nosuch"), I(1))],
                 "enumval": [(X("deprecated"), ("ident", "true")),
                             (X("feature_support"), LM(("deprecation_warning", ("str", [120])), ("edition_removed", I(1000)))),
                             (X("feature_support", "deprecation_warning"), ("str", [121]))],
                 "method": [(X("idempotency_level"), ("ident", "IDEMPOTENT")), (X("idempotency_level"), I(2))],
                 "enum": [(X("deprecated"), ("ident", "TRUE"))],
                 "service": [(X("deprecated"), ("ident", "true")), (X("(x_int32)"), I(5)), (X("deprecated"), ("ident", "false"))],
                 "extrange": [(X("verification"), ("ident", "UNVERIFIED"))],
                 "oneof": [(X("deprecated"), ("ident", "true"))]}
    sts = std_first.get(ek, [])
    for i in range(len(sts)):
        out.append(sts[:i + 1])
    if sts:
        out.append([(X("(x_int32)"), I(2**31))] + sts + [(X("(x_int64)"), I(1))])
    return out


def std_custom_corpus(ek):
    """repeated and message-typed STANDARD options next to custom options on one element, in every order (the two passes of
    interpretOptions - standard options first, custom options second - both write the same options message)"""
    ED = lambda e, v: LM(("edition", ("ident", e)), ("value", ("str", [ord(c) for c in v])))
    DE = lambda n, nm: LM(("number", I(n)), ("full_name", ("str", [ord(c) for c in nm])), ("type", ("str", [ord(c) for c in "int32"])))
    reps = {"field": [(X("targets"), ("ident", "TARGET_TYPE_FIELD")), (X("targets"), ("ident", "TARGET_TYPE_MESSAGE")),
                      (X("edition_defaults"), ED("EDITION_2023", "a")), (X("edition_defaults"), ED("EDITION_PROTO2", "b")),
                      (X("feature_support"), LM(("deprecation_warning", ("str", [120])), ("edition_introduced", ("ident", "EDITION_2023")))),
                      (X("lazy"), ("ident", "true"))],
            "extrange": [(X("declaration"), DE(100, ".a.b")), (X("declaration"), DE(101, ".a.c")),
                         (X("declaration"), LM(("number", I(102)), ("reserved", ("ident", "true")))),
                         (X("verification"), ("ident", "DECLARATION"))],
            "enumval": [(X("feature_support", "deprecation_warning"), ("str", [120])),
                        (X("feature_support", "edition_removed"), ("ident", "EDITION_2024")), (X("deprecated"), ("ident", "true"))],
            "file": [(X("optimize_for"), ("ident", "SPEED")), (X("java_package"), ("str", [97]))],
            "message": [(X("deprecated"), ("ident", "true")), (X("no_standard_descriptor_accessor"), ("ident", "false"))],
            "method": [(X("idempotency_level"), ("ident", "IDEMPOTENT")), (X("deprecated"), ("ident", "true"))],
            "enum": [(X("deprecated"), ("ident", "true"))], "service": [(X("deprecated"), ("ident", "true"))], "oneof": []}.get(ek, [])
    c1, c2, c3 = (X("(x_int32)"), I(5)), (X("(xr)"), I(7)), (X("(xm)", "f_int64"), I(1))
    bad = (X("(x_int32)"), ("str", [120]))
    out = []
    if reps:
        out += [reps + [c1], [c1] + reps, reps[:1] + [c1] + reps[1:], [c2] + reps[:2] + [c2, c3], reps[:2] + [c1, c2, c2],
                # a custom option that fails: only the lenient runs go on
                reps + [bad], [bad] + reps + [c1], reps[:2] + [bad, c1], [c1, bad] + reps[:3],
                # a standard option that fails (the same singular option twice / no such field) between the repeated ones
                reps[:2] + [(X("nosuch"), I(1))] + reps[2:] + [c1]]
        for i in range(len(reps)):
            out.append([reps[i], c1])
            out.append([c3, reps[i], reps[i]])
    return out


def plain(v):
    """outside a message literal a bool takes only true / false: keeps the accepted share of a stratum high"""
    if v[0] == "ident" and v[1] in ("t", "True", "TRUE"):
        return ("ident", "true")
    if v[0] == "ident" and v[1] in ("f", "False"):
        return ("ident", "false")
    return v


def std_custom_stmts(rng, sch, wrong=0):
    """1..4 statements on standard options of the element (repeated ones preferred, several times) and 1..3 custom ones,
    standard first / custom first / interleaved"""
    f0 = sch.fields_of(0)
    reps = [f for f in f0 if f.rep]
    std = []
    for _ in range(rng.range(1, 4)):
        if not f0:
            break
        f = rng.choice(reps) if reps and rng.chance(2, 3) else rng.choice(f0)
        parts = [("f", f.name)]
        if f.is_msg() and not f.rep and rng.chance(1, 2):
            sub = [g for g in sch.fields_of(f.kind[1]) if not g.is_msg()]
            if sub:
                f = rng.choice(sub)
                parts.append(("f", f.name))
        std.append((parts, plain(rand_value(rng, sch, f, 2, wrong))))
    cus = []
    for _ in range(rng.range(1, 3)):
        for _try in range(20):
            st = rand_stmt(rng, sch, wrong=wrong)
            if st[0][0][0] == "x":
                cus.append((st[0], plain(st[1])))
                break
    o = rng.below(3)
    if o == 0:
        return std + cus
    if o == 1:
        return cus + std
    out = std + cus
    rng.shuffle(out)
    return out


def _type_name(sch, k):
    if isinstance(k, tuple):
        return (sch.msgs if k[0] == "msg" else sch.enums)[k[1]]["name"]
    return k


def render_schema(sch):
    """-> (main schema text (proto2, without the syntax line and imports), p3 file text or None); messages and enums
    with where == "ed" go to sch.ed_text (edition 2023, file ed.proto)"""
    out = []
    p3 = []
    ed = []
    for e in sch.enums:
        if e["where"] == "main":
            out.append("enum %s { %s }" % (e["name"], " ".join("%s = %d;" % (n, v) for n, v in e["values"])))
        elif e["where"] == "p3":
            p3.append("enum %s { %s }" % (e["name"], " ".join("%s = %d;" % (n, v) for n, v in e["values"])))
        elif e["where"] == "ed":
            ed.append("enum %s { %s }" % (e["name"], " ".join("%s = %d;" % (n, v) for n, v in e["values"])))
    for mi, m in enumerate(sch.msgs):
        if m["where"] == "std":
            continue
        if m["where"] == "ed":
            # edition 2023: presence is explicit unless the field says features.field_presence = IMPLICIT
            body, oneof = [], []
            for f in m["fields"]:
                o = ["targets = %s" % TARGET_NAMES[t] for t in f.targets]
                if f.implicit:
                    o.append("features.field_presence = IMPLICIT")
                opts = (" [" + ", ".join(o) + "]") if o else ""
                line = "%s%s %s = %d%s;" % ("repeated " if f.rep else "", _type_name(sch, f.kind), f.name, f.num, opts)
                (oneof if f.oneof is not None else body).append(line)
            if oneof:
                body.append("oneof o0 { %s }" % " ".join(oneof))
            ed.append("message %s { %s }" % (m["name"], " ".join(body)))
            continue
        is3 = m["where"] == "p3"
        body = []
        oneof = []
        for f in m["fields"]:
            opts = ""
            if f.targets:
                opts = " [" + ", ".join("targets = %s" % TARGET_NAMES[t] for t in f.targets) + "]"
            ty = _type_name(sch, f.kind)
            if f.oneof is not None:
                oneof.append("%s %s = %d%s;" % (ty, f.name, f.num, opts))
                continue
            if f.rep:
                lab = "repeated "
            elif is3:
                lab = "" if (f.implicit or f.is_msg()) else "optional "
            else:
                lab = "optional "
            body.append("%s%s %s = %d%s;" % (lab, ty, f.name, f.num, opts))
        if oneof:
            body.append("oneof o0 { %s }" % " ".join(oneof))
        if m["extendable"] and not is3:
            body.append("extensions 100 to 199;")
        (p3 if is3 else out).append("message %s { %s }" % (m["name"], " ".join(body)))
    by_ext = {}
    for x in sch.exts:
        by_ext.setdefault(x["extendee"], []).append(x)
    for mi, xs in by_ext.items():
        lines = []
        for x in xs:
            f = x["field"]
            opts = ""
            if f.targets:
                opts = " [" + ", ".join("targets = %s" % TARGET_NAMES[t] for t in f.targets) + "]"
            lines.append("%s %s %s = %d%s;" % ("repeated" if f.rep else "optional", _type_name(sch, f.kind), f.name, f.num, opts))
        out.append("extend %s { %s }" % (sch.msgs[mi]["name"], " ".join(lines)))
    p3text = None
    if p3:
        p3text = 'syntax = "proto3";\n' + "\n".join(p3) + "\n"
    sch.ed_text = ('edition = "2023";\n' + "\n".join(ed) + "\n") if ed else None
    return "\n".join(out) + "\n", p3text


# ------------------------------------------------------------------ values
def dyadic(x):
    """Coq fl term of a Python float"""
    import math
    if math.isnan(x):
        return "FNaN"
    if math.isinf(x):
        return "(FInf %s)" % coq_bool(x < 0)
    if x == 0:
        return "FNegZero" if math.copysign(1, x) < 0 else "(FFin 0 0)"
    n, d = x.as_integer_ratio()
    e = -(d.bit_length() - 1)
    while n % 2 == 0:
        n //= 2
        e += 1
    return "(FFin %s %s)" % (coq_Z(n), coq_Z(e))


def float_of_text(t):
    if t == "inf_neg":
        return float("-inf")
    if t == "nan_neg":
        return float("nan")
    return float(t)


def val_text(v):
    k = v[0]
    if k == "int":
        return str(v[1])
    if k == "negzero":
        return "-0"
    if k == "float":
        return {"inf_neg": "-inf", "nan_neg": "-nan"}.get(v[1], v[1])
    if k == "ident":
        return v[1]
    if k == "str":
        return '"' + "".join(chr(c) if 32 <= c < 127 and c not in (34, 92, 39) else "\\x%02x" % c for c in v[1]) + '"'
    if k == "msg":
        parts = []
        for (nk, nn), fv in v[1]:
            parts.append("%s: %s" % (nn if nk == "f" else "[" + nn + "]", val_text(fv)))
        return "{ " + " ".join(parts) + " }"
    if k == "list":
        return "[" + ", ".join(val_text(x) for x in v[1]) + "]"
    raise ValueError(k)


def val_coq(v):
    k = v[0]
    if k == "int":
        z = v[1]
        if z < 0:
            return "(OInt %s)" % coq_Z(z) if z >= -2**63 else "(OFloat %s)" % dyadic(float(z))
        return "(OUint %s)" % coq_Z(z) if z < 2**64 else "(OFloat %s)" % dyadic(float(z))
    if k == "negzero":
        return "(OInt 0)"
    if k == "float":
        return "(OFloat %s)" % dyadic(float_of_text(v[1]))
    if k == "ident":
        return '(OIdent "%s")' % v[1]
    if k == "str":
        return "(OStr [" + ";".join("%d%%N" % c for c in v[1]) + "])"
    if k == "msg":
        return "(OMsg [" + "; ".join('(%s "%s", %s)' % ("LField" if nk == "f" else "LExt", nn, val_coq(fv))
                                     for (nk, nn), fv in v[1]) + "])"
    if k == "list":
        return "(OList [" + "; ".join(val_coq(x) for x in v[1]) + "])"
    raise ValueError(k)


def has_kind(v, kinds):
    if v[0] in kinds:
        return True
    if v[0] == "msg":
        return any(has_kind(fv, kinds) for _, fv in v[1])
    if v[0] == "list":
        return any(has_kind(x, kinds) for x in v[1])
    return False


def rand_int(rng):
    if rng.chance(3, 4):
        v = rng.choice(BOUNDARY)
        if rng.chance(1, 6):
            v += rng.range(-2, 2)
        return v
    return rng.range(-300, 300)


def rand_bytes(rng, ascii_only):
    n = rng.range(0, 5)
    if ascii_only:
        return [rng.range(32, 126) for _ in range(n)]
    return [rng.below(256) for _ in range(n)]


def rand_scalar_value(rng, sch, f, wrong):
    """a literal for a scalar or enum field; wrong: probability (out of 100) of a literal of another shape"""
    k = f.kind
    if rng.below(100) < wrong:
        c = rng.below(5)
        if c == 0:
            return ("int", rand_int(rng))
        if c == 1:
            return ("float", rng.choice(FLOATS))
        if c == 2:
            return ("ident", rng.choice(IDENTS))
        if c == 3:
            return ("str", rand_bytes(rng, True))
        return ("ident", rng.choice(IDENTS))
    if f.is_enum():
        e = sch.enums[k[1]]
        if rng.chance(4, 5):
            return ("ident", rng.choice(e["values"])[0])
        return ("int", rng.choice([0, 1, 7, 2, -5, 2147483647, 2147483648, -2147483649, 99]))
    if k in INT_RANGE:
        if rng.chance(1, 25):
            return ("negzero",)
        v = rand_int(rng)
        if wrong == 0 and rng.chance(5, 6):
            lo, hi = INT_RANGE[k]
            if not lo <= v <= hi:
                v = rng.choice([lo, hi, lo + 1, hi - 1, 0, 1])
        return ("int", v)
    if k == "bool":
        return ("ident", rng.choice(["true", "false", "true", "false", "t", "f", "True", "False", "TRUE"]))
    if k in ("float", "double"):
        c = rng.below(10)
        if c < 4:
            return ("int", rand_int(rng))
        if c < 8:
            return ("float", rng.choice(FLOATS))
        return ("ident", rng.choice(["inf", "nan"]))
    if k == "string":
        return ("str", rand_bytes(rng, True))
    if k == "bytes":
        return ("str", rand_bytes(rng, False))
    raise ValueError(k)


def rand_literal(rng, sch, mi, depth, wrong, lits=True):
    """a message literal for message type index mi"""
    fields = sch.fields_of(mi)
    exts = sch.exts_of(mi)
    n = rng.range(0, 4)
    out = []
    for _ in range(n):
        r = rng.below(100)
        if r < 4:
            out.append((("f", "nosuch"), ("int", 1)))
            continue
        if r < 8 and sch.exts:
            x = rng.choice(sch.exts)        # possibly an extension of another message
            out.append((("x", x["name"]), rand_value(rng, sch, x["field"], depth - 1, wrong, in_lit=True)))
            continue
        if r < 22 and exts:
            x = rng.choice(exts)
            out.append((("x", x["name"]), rand_value(rng, sch, x["field"], depth - 1, wrong, in_lit=True)))
            continue
        if not fields:
            continue
        f = rng.choice(fields)
        out.append((("f", f.name), rand_value(rng, sch, f, depth - 1, wrong, in_lit=True)))
    return ("msg", out)


def rand_value(rng, sch, f, depth, wrong, in_lit=False, lits=True):
    def one():
        if f.is_msg():
            if not lits or depth <= 0 or rng.below(100) < wrong:
                return rng.choice([("int", 1), ("ident", "foo"), ("str", [97])]) if (not lits or rng.chance(1, 2)) else ("msg", [])
            return rand_literal(rng, sch, f.kind[1], depth, wrong)
        return rand_scalar_value(rng, sch, f, wrong)
    if in_lit and (f.rep and rng.chance(1, 2) or rng.below(100) < 3):
        return ("list", [one() for _ in range(rng.range(0, 3))])
    return one()


# ------------------------------------------------------------------ statements
def rand_stmt(rng, sch, wrong=12, lits=True, deep=True):
    """-> (name parts [(kind f|x, name)], value)"""
    mi = 0
    parts = []
    depth = 0
    while True:
        fields = sch.fields_of(mi)
        exts = sch.exts_of(mi)
        r = rng.below(100)
        f = None
        if r < 3:
            parts.append(("f", "nosuch"))
            return parts, ("int", 1)
        if r < 6 and sch.exts and depth > 0:
            x = rng.choice(sch.exts)        # extension of some message, maybe not this one
            parts.append(("x", x["name"]))
            f = x["field"]
            if x["extendee"] != mi:
                return parts, rand_value(rng, sch, f, 2, wrong, lits=lits)
        elif exts and (not fields or rng.chance(7, 10) if depth == 0 else rng.chance(1, 4)):
            x = rng.choice(exts)
            parts.append(("x", x["name"]))
            f = x["field"]
        elif fields:
            f = rng.choice(fields)
            parts.append(("f", f.name))
        else:
            parts.append(("f", "nosuch"))
            return parts, ("int", 1)
        depth += 1
        descend = False
        if f.is_msg() and not f.rep and deep and depth < 5:
            descend = rng.chance(3, 5) if lits else rng.chance(9, 10)
        elif deep and rng.chance(1, 30):
            descend = True            # wrongly descend into a scalar or a repeated field
        if descend:
            if f.is_msg():
                mi = f.kind[1]
                continue
            parts.append(("f", "f1"))
            return parts, ("int", 1)
        return parts, rand_value(rng, sch, f, 2, wrong, lits=lits)


def name_text(parts):
    return ".".join(n if k == "f" else "(" + n + ")" for k, n in parts)


def stmt_coq(st):
    parts, v = st
    return "(mkStmt [%s] %s)" % ("; ".join('%s "%s"' % ("PField" if k == "f" else "PExt", n) for k, n in parts), val_coq(v))


def elem_text(ek, name, stmts):
    """the source of one element of kind ek called name (Tgt...) carrying the statements -> (text, harness key)"""
    opts = ["%s = %s" % (name_text(p), val_text(v)) for p, v in stmts]
    decl = " ".join("option %s;" % o for o in opts)
    compact = (" [" + ", ".join(opts) + "]") if opts else ""
    if ek == "file":
        return decl, "file"
    if ek == "message":
        return "message %s { %s }" % (name, decl), "msg:%s" % name
    if ek == "field":
        return "message %s { optional int32 tf = 1%s; }" % (name, compact), "field:%s.tf" % name
    if ek == "oneof":
        return "message %s { oneof oo { %s int32 ta = 1; } }" % (name, decl), "oneof:%s.oo" % name
    if ek == "extrange":
        return "message %s { extensions 100 to 200%s; }" % (name, compact), "extrange:%s.100-201" % name
    if ek == "enum":
        return "enum %s { %s %s_ZERO = 0; }" % (name, decl, name.upper()), "enum:%s" % name
    if ek == "enumval":
        return "enum %s { %s_ZERO = 0%s; }" % (name, name.upper(), compact), "enumval:%s.%s_ZERO" % (name, name.upper())
    if ek == "service":
        return "service %s { %s }" % (name, decl), "service:%s" % name
    if ek == "method":
        return "message %sIO {} service %s { rpc Do (%sIO) returns (%sIO) { %s } }" % (name, name, name, name, decl), "method:%s.Do" % name
    raise ValueError(ek)


def render_file(sch, stmts, extra_elems=None, again=None):
    """One file t.proto with the schema and the target element carrying the statements.  again: statements of a
    second element of the same kind (Tgt2) that follows the target (what one element's options leave behind in the
    interpreter must not reach the next element).  -> files dict, element key as the harness names it"""
    body, p3 = render_schema(sch)
    ek = sch.ek
    elem, key = elem_text(ek, "Tgt", stmts)
    if again is not None and ek != "file":
        elem += "\n" + elem_text(ek, "Tgt2", again)[0]
    imports = 'import "google/protobuf/descriptor.proto";\n'
    if p3:
        imports += 'import "p3.proto";\n'
    if getattr(sch, "ed_text", None):
        imports += 'import "ed.proto";\n'
    text = 'syntax = "proto2";\n' + imports + body + elem + "\n" + (extra_elems or "")
    files = {"t.proto": text}
    if p3:
        files["p3.proto"] = p3
    if getattr(sch, "ed_text", None):
        files["ed.proto"] = sch.ed_text
    return files, key


# ------------------------------------------------------------------ observations
class Unmodelled(Exception):
    pass


def tree_coq(t):
    """canonical tree (harness JSON) -> Coq mval term"""
    if "unknown" in t or "decode-error" in t:
        raise Unmodelled("unknown fields in decoded options")
    return "[" + "; ".join("(%d%%N, %s)" % (n, _val_coq(v)) for n, v in t["m"]) + "]"


def _fl_coq(s):
    if s == "inf":
        return "(FInf false)"
    if s == "-inf":
        return "(FInf true)"
    if s == "nan":
        return "FNaN"
    if s == "-0":
        return "FNegZero"
    m, e = s.split("p")
    return "(FFin %s %s)" % (coq_Z(int(m)), coq_Z(int(e)))


def _val_coq(v):
    if "i" in v:
        return "(VS (SInt %s))" % coq_Z(int(v["i"]))
    if "b" in v:
        return "(VS (SBool %s))" % coq_bool(v["b"])
    if "e" in v:
        return "(VS (SEnum %s))" % coq_Z(int(v["e"]))
    if "s" in v:
        return "(VS (SStr [" + ";".join("%d%%N" % c for c in bytes.fromhex(v["s"])) + "]))"
    if "f" in v:
        return "(VS (SFloat %s))" % _fl_coq(v["f"])
    if "l" in v:
        return "(VL [" + "; ".join(_val_coq(x) for x in v["l"]) + "])"
    if "m" in v:
        return "(VM %s)" % tree_coq(v)
    raise Unmodelled("map or unknown value shape")


def find_elem(res, key):
    for e in (res.get("elems") or []):
        if e["el"] == key:
            return e
    return None


def remain_indices(orig_unint, unint):
    """indices (into the parser's list) of the uninterpreted options left, matched greedily in order;
    None if unint is not a subsequence of orig_unint (then it is not `verbatim, in order`)."""
    idx = []
    j = 0
    for u in unint:
        while j < len(orig_unint) and strip_dot(orig_unint[j]) != strip_dot(u):
            j += 1
        if j >= len(orig_unint):
            return None
        idx.append(j)
        j += 1
    return idx


def strip_dot(hexu):
    """The linker rewrites extension names in option names to their fully-qualified form (leading dot).
    For comparing an uninterpreted option before and after, name parts are compared without that dot."""
    b = bytes.fromhex(hexu)
    out = bytearray()
    i = 0
    # UninterpretedOption: field 2 = repeated NamePart {1: name_part, 2: is_extension}
    while i < len(b):
        tag = b[i]
        if tag == 0x12:      # name part, length-delimited (short)
            ln = b[i + 1]
            part = b[i + 2:i + 2 + ln]
            # NamePart: 0a <len> <name> 10 <bool>
            if len(part) >= 2 and part[0] == 0x0a:
                nl = part[1]
                name = part[2:2 + nl]
                rest = part[2 + nl:]
                if name[:1] == b".":
                    name = name[1:]
                part = bytes([0x0a, len(name)]) + name + rest
            out += bytes([0x12, len(part)]) + part
            i += 2 + ln
        else:
            out += b[i:]
            break
    return bytes(out).hex()


def obs_coq(res, key, orig_unint):
    """one mode's result -> Coq obs term"""
    if not res.get("ok"):
        c = res.get("errclass")
        if c == "panic":
            return "ObsPanic"
        if c in ERR_COQ:
            return "(ObsErr %s)" % ERR_COQ[c]
        return "ObsOther"
    e = find_elem(res, key)
    if e is None:
        return "(ObsOk [] [])" if not orig_unint else "ObsOther"
    idx = remain_indices(orig_unint, e["unint"])
    if idx is None:
        return "ObsOther"
    return "(ObsOk %s %s)" % (tree_coq(e["tree"]), "[" + ";".join("%d%%nat" % i for i in idx) + "]")


# ------------------------------------------------------------------ several checkers over the same cases
def coq_eval_multi(name, header, case_terms, chks, shard_size=300, timeout=1500, defs=""):
    """Like vlib.coq_eval_mismatches but evaluates several checkers (names of Coq functions case -> bool) on the same
    cases.  -> ({chk: sorted mismatch indices}, err)"""
    os.makedirs(os.path.join(COQ, "cases"), exist_ok=True)
    shards = [case_terms[i:i + shard_size] for i in range(0, len(case_terms), shard_size)]
    procs = []
    for k, sh_cases in enumerate(shards):
        fn = os.path.join(COQ, "cases", "%s_%d.v" % (name, k))
        with open(fn, "w") as f:
            f.write(header + "\n" + defs + "\n")
            f.write("Definition cases := [\n" + ";\n".join(sh_cases) + "\n].\n")
            for j, c in enumerate(chks):
                f.write("Definition M%d := Eval vm_compute in mismatches %s cases.\nPrint M%d.\n" % (j, c, j))
        procs.append((k, fn))
    mism = {c: [] for c in chks}
    err = None
    running = []
    idx = 0

    def reap(p, k, fn):
        nonlocal err
        out, _ = p.communicate()
        if p.returncode != 0:
            err = (err or "") + "coqc failed on %s:\n%s\n" % (fn, out[-2000:])
            return
        flat = " ".join(out.split())
        for j, c in enumerate(chks):
            m = re.search(r"M%d = (.*?) : list nat" % j, flat)
            if not m:
                err = (err or "") + "cannot parse coqc output for %s: %s\n" % (fn, flat[:500])
                return
            for d in re.findall(r"\d+", m.group(1)):
                mism[c].append(k * shard_size + int(d))
        for ext in (".v", ".vo", ".vok", ".vos", ".glob"):
            try:
                os.remove(fn[:-2] + ext)
            except OSError:
                pass
        try:
            os.remove(os.path.join(os.path.dirname(fn), "." + os.path.basename(fn)[:-2] + ".aux"))
        except OSError:
            pass

    while idx < len(procs) or running:
        while idx < len(procs) and len(running) < NCPU:
            k, fn = procs[idx]
            p = subprocess.Popen(["timeout", str(timeout), "coqc", "-Q", COQ, "PV", fn],
                                 stdout=subprocess.PIPE, stderr=subprocess.STDOUT, text=True, cwd=COQ)
            running.append((p, k, fn))
            idx += 1
        p, k, fn = running.pop(0)
        reap(p, k, fn)
    return {c: sorted(v) for c, v in mism.items()}, err


# ------------------------------------------------------------------ one generated case, end to end
def make_case(rng, ctx, ek, nst, rich=True, lits=True, wrong=12, fixed=None, tdense=False, again=None):
    """-> dict(sch, stmts, files, key, input)"""
    if fixed is not None:
        sch, stmts = fixed
    else:
        sch = gen_schema(ctx, rng, ek, rich=rich, tdense=tdense) if tdense else gen_schema(ctx, rng, ek, rich=rich)
        stmts = [rand_stmt(rng, sch, wrong=wrong, lits=lits) for _ in range(nst)]
    files, key = render_file(sch, stmts, again=again)
    return {"sch": sch, "stmts": stmts, "files": files, "key": key,
            "input": {"mode": "interp", "files": files, "target": "t.proto"}}


def case_term(case, out, strict_mode="strictm"):
    """Coq opt_case term for a case and the harness output; raises Unmodelled"""
    sch = case["sch"]
    key = case["key"]
    if "parse_error" in out or "orig" not in out:
        raise Unmodelled("parse error: %s" % out.get("parse_error"))
    oe = find_elem(out["orig"], key)
    orig = oe["unint"] if oe else []
    if len(orig) != len(case["stmts"]):
        raise Unmodelled("parser produced %d options for %d statements" % (len(orig), len(case["stmts"])))
    st = out[strict_mode]
    if not st.get("ok") and st.get("errclass") == "link":
        raise Unmodelled("link error: %s" % st.get("err"))
    return "(OC %s %d%%N 0%%nat [%s] %s %s %s)" % (
        case.get("sch_ref") or sch.coq(), ELEMENTS[sch.ek][0], "; ".join(stmt_coq(s) for s in case["stmts"]),
        obs_coq(st, key, orig), obs_coq(out["lenient"], key, orig), obs_coq(out["unlinked"], key, orig))


# ------------------------------------------------------------------ attribution of a recurrence of f7db43f0
def _zero_value(v):
    return v in (("int", 0), ("negzero",), ("str", []), ("ident", "false"), ("float", "0.0")) or \
        (v[0] == "ident" and v[1].endswith(("_Z", "_A")) and v[1] in ("OE_Z", "E1_A", "E2_A"))


def implicit_zero_then_again(sch, stmts):
    """two statements with the same name path whose last part is a field without presence, the first giving it the zero value"""
    seen = {}
    for parts, v in stmts:
        mi, f = 0, None
        for k, n in parts:
            cands = [x["field"] for x in sch.exts_of(mi) if x["name"] == n] if k == "x" else [g for g in sch.fields_of(mi) if g.name == n]
            if not cands:
                f = None
                break
            f = cands[0]
            if f.is_msg():
                mi = f.kind[1]
        if f is None or not f.implicit:
            continue
        key = tuple(parts)
        if key in seen and seen[key]:
            return True
        seen.setdefault(key, _zero_value(v))
    return False
