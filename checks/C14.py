"""C14 - String and number literals decode like protoc."""
import itertools
from lexlib import *

ID = "C14"
COQ_FILES = COQ_LEX + ["Model/Escape.v", "Proofs/Escape.v", "Proofs/Literals.v", "Props/C14.v"]
PROPS = "Props/C14.v"
THEOREMS = ["C14_string_literal_decodes_escaped", "C14_string_literal_decodes_hex", "C14_invalid_escape_reported",
            "C14_decimal_literal_value", "C14_octal_literal_value", "C14_hex_literal_value", "C14_leading_zero_decimal_rejected"]
AXIOMS_OK = []
TRUSTED = TRUSTED_LEX + ["the transcription of protoc's tokenizer rules (ConsumeString, ParseStringAppend, ConsumeNumber) in checks/C14.py: protoc is "
                         "not installed, so this transcription (from protoc's source as remembered and the language specification) is the oracle "
                         "for 'what protoc does'; where it is unsure (upper-case \\X, numbers that overflow in hex or octal) it answers UNKNOWN and "
                         "no judgement is made"]
ASSUMPTIONS = ["P-core: the theorems state what the lexer model decodes against protoc-independent references (inverse of CEscape, inverse of the "
               "\\xHH spelling, positional value of digit strings, error on undefined escapes); agreement with protoc on arbitrary literals is "
               "decided by the differential oracle on exhaustively enumerated short literals, not proved",
               "float VALUES are strconv.ParseFloat's (correct rounding is C39's subject); only accept/reject and int-vs-float are compared"]

UNKNOWN = "unknown"
HEX = b"0123456789abcdefABCDEF"
OCT = b"01234567"
SIMPLE = {ord('a'): 7, ord('b'): 8, ord('f'): 12, ord('n'): 10, ord('r'): 13, ord('t'): 9, ord('v'): 11,
          ord('\\'): 92, ord('?'): 63, ord("'"): 39, ord('"'): 34}


def utf8(cp):
    if cp < 0x80: return bytes([cp])
    if cp < 0x800: return bytes([0xC0 | cp >> 6, 0x80 | cp & 63])
    if cp < 0x10000: return bytes([0xE0 | cp >> 12, 0x80 | (cp >> 6) & 63, 0x80 | cp & 63])
    return bytes([0xF0 | cp >> 18, 0x80 | (cp >> 12) & 63, 0x80 | (cp >> 6) & 63, 0x80 | cp & 63])


def pc_string(lit):
    """protoc on the literal text lit = quote body quote: (decoded bytes | None = rejected | UNKNOWN, set of features)"""
    feats = set()
    q = lit[0]
    i = 1
    n = len(lit)
    # Tokenizer::ConsumeString
    while True:
        if i >= n: return None, feats
        c = lit[i]
        if c == 0 or c == 10: return None, feats
        if c == q:
            end = i
            break
        if c == 92:
            i += 1
            if i >= n: return None, feats
            e = lit[i]
            if e in SIMPLE: i += 1
            elif e in OCT: i += 1
            elif e == ord('x') or e == ord('X'):
                if e == ord('X'): feats.add("upper-X")
                i += 1
                if i < n and lit[i] in HEX: i += 1
                else: return None, feats
            elif e == ord('u'):
                i += 1
                for _ in range(4):
                    if i < n and lit[i] in HEX: i += 1
                    else: return None, feats
            elif e == ord('U'):
                i += 1
                ok = i + 8 <= n and lit[i] == 48 and lit[i + 1] == 48 and lit[i + 2] in b"01" and all(ch in HEX for ch in lit[i + 3:i + 8])
                if not ok: return None, feats
                i += 8
            else:
                return None, feats
        else:
            if c >= 0x80: feats.add("non-ascii")
            i += 1
    if end != n - 1:
        return "split", feats      # the literal ends before the end of the text: not a single literal
    # Tokenizer::ParseStringAppend
    out = bytearray()
    i = 1
    while i < end:
        c = lit[i]
        if c != 92:
            out.append(c); i += 1; continue
        e = lit[i + 1]
        if e in OCT:
            j = i + 1; code = 0; k = 0
            while j < end and k < 3 and lit[j] in OCT:
                code = code * 8 + lit[j] - 48; j += 1; k += 1
            if code > 255: feats.add("octal>377")
            out.append(code & 0xFF); i = j
        elif e == ord('x') or e == ord('X'):
            j = i + 2; code = 0; k = 0
            while j < end and k < 2 and lit[j] in HEX:
                code = code * 16 + int(chr(lit[j]), 16); j += 1; k += 1
            out.append(code); i = j
        elif e == ord('u'):
            cp = int(lit[i + 2:i + 6], 16); j = i + 6
            if 0xD800 <= cp <= 0xDBFF and lit[j:j + 2] == b"\\u" and j + 6 <= end and all(ch in HEX for ch in lit[j + 2:j + 6]):
                lo = int(lit[j + 2:j + 6], 16)
                if 0xDC00 <= lo <= 0xDFFF:
                    cp = 0x10000 + ((cp - 0xD800) << 10) + (lo - 0xDC00); j += 6; feats.add("surrogate")
            if 0xD800 <= cp <= 0xDFFF: feats.add("surrogate")
            out += utf8(cp); i = j
        elif e == ord('U'):
            cp = int(lit[i + 2:i + 10], 16)
            if 0xD800 <= cp <= 0xDFFF: feats.add("surrogate")
            if cp > 0x10FFFF: return None, feats
            out += utf8(cp); i = i + 10
        else:
            out.append(SIMPLE[e]); i += 2
    return bytes(out), feats


def valid_utf8(b):
    try:
        b.decode("utf-8"); return True
    except UnicodeDecodeError:
        return False


def pc_number(t):
    """protoc's ConsumeNumber on the whole text t: ('int', v) | ('float',) | None (rejected / not one literal) | UNKNOWN"""
    n = len(t); i = 0
    is_float = False
    dig = b"0123456789"
    def many(cls):
        nonlocal i
        while i < n and t[i] in cls: i += 1
    if t[0:1] == b".":
        if n < 2 or t[1] not in dig: return None
        i = 1; is_float = True; many(dig)
        started_zero = False
        kind = "dec"
    else:
        started_zero = t[0] == 48
        i = 1
        if started_zero and i < n and t[i] in b"xX":
            i += 1; s = i; many(HEX)
            if i == s: return None
            kind = "hex"
        elif started_zero and i < n and t[i] in dig:
            many(OCT)
            if i < n and t[i] in dig: return None
            kind = "oct"
        else:
            many(dig)
            if i < n and t[i] == 46:
                i += 1; is_float = True; many(dig)
            kind = "dec"
    if kind == "dec" and i < n and t[i] in b"eE":
        i += 1; is_float = True
        if i < n and t[i] in b"+-": i += 1
        s = i; many(dig)
        if i == s: return None
    if i < n:
        return None   # a letter ("need space"), a second dot, or an operator: not one number literal
    if is_float: return ("float", fbits(t))
    if kind == "hex":
        v = int(t[2:], 16)
        return ("int", v) if v < 1 << 64 else UNKNOWN
    if kind == "oct":
        v = int(t, 8)
        return ("int", v) if v < 1 << 64 else UNKNOWN
    v = int(t)
    return ("int", v) if v < 1 << 64 else ("float", fbits(t))


def fbits(t):
    """IEEE-754 double bits of the decimal literal t, correctly rounded, overflow to +infinity without complaint (protoc's
    Tokenizer::ParseFloat is strtod; Python's float() is correctly rounded too and gives inf on overflow)"""
    import struct
    return struct.unpack(">Q", struct.pack(">d", float(t.decode("ascii"))))[0]


# every character class boundary of the escape scanner: octal 0 7 | 8, decimal 9 | : /, hex a f A F | g G ` @
STR_ALPHA = [b"\\", b"x", b"X", b"u", b"U", b"0", b"1", b"3", b"4", b"7", b"8", b"9", b"a", b"f", b"g", b"A", b"F", b"G", b"/", b":", b"@", b"`",
             b"n", b"D", b"\"", b"'", b"\n", b"\x00", b"\xc3\xa9", b"\xff", b"?", b" "]
NUM_ALPHA = [b"0", b"1", b"7", b"8", b"9", b"x", b"X", b"e", b"E", b".", b"_", b"+", b"-", b"a", b"f"]


def run(ctx):
    rng = ctx.rng
    strs = []
    L = ctx.budget(3, 4)
    for n in range(0, L + 1):
        for t in itertools.product(STR_ALPHA, repeat=n):
            strs.append(b"\"" + b"".join(t) + b"\"")
    corpus = [b"\"\\u00e9\"", b"'\\U0001F600'", b"\"\\ud83d\\ude00\"", b"\"\\ud800\"", b"\"\\U0000d800\"", b"\"\\U00110000\"", b"\"\\400\"", b"\"\\777\"",
              b"\"\\x-f\"", b"\"\\u-123\"", b"\"\\xfff\"", b"\"\\1234\"", b"\"\\x\xff\xff\"", b"'it''s'", b"\"\\X41\"", b"\"\\u00E9\\n\\t\\\\\""]
    strs += corpus
    # every one- and two-character hex escape over the hex digits and their neighbours, every octal escape of 1..3 digits,
    # a sample of unicode escapes with each hex digit in each position
    HX = b"0123456789abcdefABCDEF/:@G`g"
    for a in HX:
        strs.append(b"\"\\x" + bytes([a]) + b"\"")
        strs.append(b"\"\\X" + bytes([a]) + b"z\"")
        for b_ in HX:
            strs.append(b"\"\\x" + bytes([a, b_]) + b"\"")
    for a in b"01234567":
        strs.append(b"\"\\" + bytes([a]) + b"\"")
        for b_ in b"012345678":
            strs.append(b"\"\\" + bytes([a, b_]) + b"\"")
            for c_ in b"012345678":
                strs.append(b"\"\\" + bytes([a, b_, c_]) + b"9\"")
    for pos in range(4):
        for h in HX:
            d = bytearray(b"0041"); d[pos] = h
            strs.append(b"\"\\u" + bytes(d) + b"\"")
    for pos in range(8):
        for h in HX:
            d = bytearray(b"0000004a"); d[pos] = h
            strs.append(b"\"\\U" + bytes(d) + b"\"")
    for _ in range(ctx.budget(3000, 100000)):
        k = rng.range(1, 12)
        q = rng.choice([b"\"", b"'"])
        strs.append(q + b"".join(rng.choice(STR_ALPHA) for _ in range(k)) + q)
    nums = []
    NL = ctx.budget(4, 5)
    for n in range(1, NL + 1):
        for t in itertools.product(NUM_ALPHA, repeat=n):
            s = b"".join(t)
            if s[0] in b"0123456789" or (s[0:1] == b"." and len(s) > 1 and s[1] in b"0123456789"):
                nums.append(s)
    nums += [b"18446744073709551615", b"18446744073709551616", b"0xffffffffffffffff", b"0x10000000000000000", b"01777777777777777777777",
             b"02000000000000000000000", b"1e400", b"1e-400", b"123456789012345678901234567890", b"0.5", b"00.5", b"01.5", b"09.5", b"08e1", b"1.", b"1.e5", b".5e-3"]
    # magnitudes: digit-only and decimal literals around 2^64, around the largest double (overflow to infinity without
    # complaint) and the smallest (underflow to zero), long digit strings, rounding boundaries
    MAXF = b"17976931348623157" + b"0" * 292          # just below MaxFloat64
    for s in [b"1" + b"0" * k for k in (19, 20, 21, 38, 39, 100, 307, 308, 309, 310, 400, 1000)] + \
             [b"9" * k for k in (19, 20, 21, 308, 309, 310, 400)] + \
             [MAXF, MAXF[:-1] + b"1", b"17976931348623158" + b"0" * 292, b"17976931348623159" + b"0" * 292, b"179769313486231580793728971405303415079934132710037826936173778980444968292764750946649017977587207096330286416692887910946555547851940402630657488671505820681908902000708383676273854845817711531764475730270069855571366959622842914819860834936475292719074168444365510704342711559699508093042880177904174497791",
              b"179769313486231580793728971405303415079934132710037826936173778980444968292764750946649017977587207096330286416692887910946555547851940402630657488671505820681908902000708383676273854845817711531764475730270069855571366959622842914819860834936475292719074168444365510704342711559699508093042880177904174497792",
              b"1.7976931348623157e308", b"1.7976931348623158e308", b"1.7976931348623159e308", b"1e308", b"1e309", b"2e308", b"1.8e308", b"1e400", b"1e99999", b"1E+400",
              b"4.9e-324", b"2.4703282292062327e-324", b"2.4703282292062328e-324", b"2.5e-324", b"1e-323", b"1e-324", b"1e-400", b"1e-99999", b"0e400", b"0.0e-400",
              b"0." + b"0" * 400 + b"1", b"1" + b"0" * 400 + b".5", b"." + b"9" * 400, b"9007199254740993", b"9007199254740993.0", b"18446744073709551615.0",
              b"18446744073709551616.0", b"18446744073709551617", b"18446744073709553665", b"18446744073709553664", b"36893488147419103232",
              b"0.1", b"0.30000000000000004", b"123456789012345678", b"5e-324", b"2.2250738585072014e-308", b"2.2250738585072011e-308",
              b"1" + b"0" * 309 + b"e-309", b"0." + b"0" * 308 + b"1e309"]:
        nums.append(s)
    for _ in range(ctx.budget(300, 20000)):
        k = rng.choice([1, 5, 17, 19, 20, 21, 30, 300, 309, 310, 330])
        d = bytes(rng.choice(b"0123456789") for _ in range(k)).lstrip(b"0") or b"1"
        form = rng.below(4)
        if form == 0:
            nums.append(d)
        elif form == 1:
            p = rng.below(len(d) + 1)
            nums.append((d[:p] or b"0") + b"." + d[p:])
        else:
            nums.append(d[:17] + (b"." + d[17:20] if form == 3 and len(d) > 17 else b"") + b"e" + rng.choice([b"", b"+", b"-"]) + str(rng.choice([0, 1, 22, 23, 290, 300, 307, 308, 309, 320, 324, 400])).encode())
    ctx.rule = ("string literals: every body of <= %d symbols over a %d-symbol escape alphabet (backslash, x X u U, digits, hex letters, both quotes, newline, NUL, a "
                "2-byte character, an invalid byte) in double quotes, a corpus of unicode / surrogate / overflow cases, random longer literals in both quote "
                "styles; number literals: every string of <= %d symbols over %d symbols that starts like a number, plus boundary values and magnitudes (digit strings and decimal forms around 2^64, MaxFloat64, the smallest subnormal; "
                "float VALUES are compared bit for bit with correctly rounded conversion, overflow = +inf); each is lexed by the "
                "real lexer and compared with the transcription of protoc's rules; distinct = distinct literal; non-trivial = at least 2 symbols"
                % (L, len(STR_ALPHA), NL, len(NUM_ALPHA)))
    outs = ctx.impl("lexer", [{"mode": "lex", "data": (s + b" ;").hex()} for s in strs + nums])
    souts, nouts = outs[:len(strs)], outs[len(strs):]
    terms, meta = [], []
    classes = {}

    def note(k):
        classes[k] = classes.get(k, 0) + 1

    for lit, o in zip(strs, souts):
        ctx.count(lit, len(lit) > 3, None)
        if "panic" in o or "crash" in o:
            ctx.violation("parser-panic", "the lexer panicked on a string literal", {"literal_hex": lit.hex(), "observed": o})
            continue
        want, feats = pc_string(lit)
        it = o["items"][0] if o["items"] else None
        whole = it is not None and it["k"] == "string" and it["off"] == 0 and it["len"] == len(lit)
        if want == "split":
            note("str-not-one-literal"); 
        else:
            got = bytes.fromhex(it["str"]) if whole else None
            rep = {"literal_text": lit.decode("latin1"), "literal_hex": lit.hex(), "implementation": None if got is None else got.hex(),
                   "protoc_rules": None if want is None else want.hex(), "features": sorted(feats)}
            if "upper-X" in feats:
                note("str-unknown-upper-X")
            elif got == want:
                note("str-agree-accept" if want is not None else "str-agree-reject")
            elif "octal>377" in feats and got is None:
                ctx.violation("octal-escape-above-377-rejected", "an octal escape above \\377 is rejected; protoc accepts it and keeps the low 8 bits", rep)
            elif "surrogate" in feats and want is not None:
                ctx.violation("surrogate-escape-becomes-replacement-char", "a \\u / \\U escape in the surrogate range decodes to U+FFFD; protoc emits the "
                              "three-byte encoding of the surrogate (or combines a surrogate pair)", rep)
            elif "non-ascii" in feats and want is not None and not valid_utf8(lit[1:-1]) and got is not None:
                ctx.violation("invalid-utf8-in-string-replaced", "a byte that is not valid UTF-8 inside a string literal is replaced by U+FFFD; protoc keeps the byte", rep)
            else:
                ctx.violation("string-literal-differs-from-protoc", "string literal decoded / rejected differently from protoc's rules", rep)
        if len(lit) <= 12:
            terms.append(coq_lex_case(lit + b" ;", o)); meta.append((lit, o))
    for t, o in zip(nums, nouts):
        ctx.count(t, len(t) > 1, None)
        if "panic" in o or "crash" in o:
            ctx.violation("parser-panic", "the lexer panicked on a number literal", {"literal": t.decode("latin1"), "observed": o})
            continue
        want = pc_number(t)
        it = o["items"][0] if o["items"] else None
        whole = it is not None and it["off"] == 0 and it["len"] == len(t) and it["k"] in ("int", "float")
        got = None
        if whole:
            got = ("int", int(it["int"], 16)) if it["k"] == "int" else ("float", int(it["float"], 16))
        rep = {"literal": t.decode("latin1"), "implementation": got, "protoc_rules": want}
        if want == UNKNOWN:
            note("num-unknown-overflow")
        elif got == want:
            note("num-agree-accept" if want is not None else "num-agree-reject")
        elif got is not None and got[0] == "float" and want is None and t[0] == 48 and len(t) > 1 and t[1] in b"0123456789":
            ctx.violation("leading-zero-float-accepted", "a float literal with a leading zero followed by a digit (01.5, 09e1) is accepted; protoc rejects "
                          "it (numbers starting with a leading zero must be octal integers)", rep)
        else:
            ctx.violation("number-literal-differs-from-protoc", "number literal accepted / valued differently from protoc's rules", rep)
        terms.append(coq_lex_case(t + b" ;", o)); meta.append((t, o))
    for k, v in classes.items():
        ctx.hist[k] = v
    ctx.sample({"string_literal": strs[777].decode("latin1")}); ctx.sample({"number_literal": nums[555].decode("latin1")})
    ctx.exhaustive = True
    ctx.extra["exhaustive_part"] = "all double-quoted bodies of <= %d alphabet symbols; all number-like strings of <= %d alphabet symbols" % (L, NL)
    # the model against the implementation on (a sample of) the same literals
    if ctx.tier == "quick" and len(terms) > 9000:
        step = len(terms) // 9000 + 1
        terms, meta = terms[::step], meta[::step]
    mism, err = coq_eval_mismatches("cases_C14", HEADER, terms, "lex_chk", shard_size=600)
    if err:
        raise RuntimeError(err)
    for k in mism:
        lit, o = meta[k]
        ctx.corr_break("lexer literal", {"literal_hex": lit.hex(), "literal_text": lit.decode("latin1")}, {"observed": o})
