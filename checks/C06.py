"""C06 - Compilation always terminates and reports exactly the import cycles."""
from execlib import *

ID = "C06"
COQ_FILES = COQ_EXEC + ["Props/C06.v"]
PROPS = "Props/C06.v"
THEOREMS = ["C06_steps_bounded", "C06_no_deadlock", "C06_can_finish", "C06_cycle_report_sound",
            "C06_cycle_report_complete", "C06_clean_implies_success"]
AXIOMS_OK = []
TRUSTED = TRUSTED_EXEC
ASSUMPTIONS = ["an overridden descriptor.proto adds an implicit dependency that the model does not have; those cases are "
               "checked on the implementation only (termination, cycle error), see DESIGN.md",
               "the reporter never aborts in these runs (C08 covers the reporter)"]


def run(ctx):
    rng = ctx.rng
    cases = []   # (json, meta)
    # corpus: implicit dependency on an overridden descriptor.proto (repaired defect, implementation-side only)
    corpus = []
    for seed in range(1, ctx.budget(60, 600) + 1):
        corpus.append(json_case(2, [[1], []], [0, 1] if seed % 2 else [1, 0], 2 + seed % 3, yield_seed=seed,
                                descriptor_override=True, timeout_ms=4000))
    # exhaustive small graphs
    nmax = 3
    for n in range(1, nmax + 1):
        for imports in all_graphs(n):
            for m in range(1, 1 << n):
                req = [d for d in range(n) if m >> d & 1]
                for par in ((1, 2) if ctx.tier == "quick" else (1, 2, 3)):
                    cases.append((n, imports, req, par, {}, 0))
    # random larger graphs, with yields, missing files
    for k in range(ctx.budget(700, 30000)):
        n = rng.range(3, 9)
        imports = random_graph(rng, n, rng.range(10, 45), rng.chance(2, 3))
        req = [d for d in range(n) if rng.chance(1, 3)] or [0]
        req = rng.shuffle(req)
        faults = {}
        if rng.chance(1, 4):
            faults[rng.below(n)] = "missing"
        cases.append((n, imports, req, rng.range(1, 4), faults, rng.range(1, 1 << 30) if rng.chance(2, 3) else 0))
    ctx.rule = ("import graphs: every digraph on <= 3 files (self-imports included) x every non-empty request x parallelism {1,2%s}; "
                "random graphs of 3..9 files (acyclic and cyclic strata, optional missing file, random yields at the hook sites); "
                "distinct = distinct (graph, request, parallelism, faults); non-trivial = at least one import edge"
                % ("" if ctx.tier == "quick" else ",3"))
    ins = [json_case(n, imp, req, par, faults, ys, timeout_ms=8000) for (n, imp, req, par, faults, ys) in cases]
    outs = ctx.impl("graphs", ins + corpus)
    couts = outs[len(ins):]
    outs = outs[:len(ins)]
    terms, meta = [], []
    for c, i, o in zip(cases, ins, outs):
        n, imports, req, par, faults, ys = c
        ctx.count((n, imports, req, par, sorted(faults.items())), any(imports), None)
        sp = spec(n, imports, req, faults)
        klass = ("cyclic" if sp["cycle"] else "acyclic") + ("+fault" if sp["fault"] else "")
        ctx.hist[klass] = ctx.hist.get(klass, 0) + 1
        if "crash" in o or "panic" in o:
            ctx.violation("harness-crash", "compile crashed the harness process", {"input": i, "observed": o})
            continue
        if o.get("escaped_panic"):
            ctx.violation("panic-escaped", "a panic escaped Compile", {"input": i, "observed": o})
            continue
        if o["hang"]:
            ctx.violation("hang", "Compile did not return within the watchdog", {"input": i, "observed": o, "spec": sp})
            continue
        # direct oracle
        if sp["ok"] and not o["ok"]:
            ctx.violation("acyclic-graph-fails", "an acyclic fault-free import graph failed to compile",
                          {"input": i, "observed": o, "spec": sp})
        if not sp["ok"] and o["ok"]:
            ctx.violation("bad-graph-succeeds", "a graph with a reachable cycle or fault compiled successfully",
                          {"input": i, "observed": o, "spec": sp})
        cyc = o.get("cycle")
        if cyc:
            real = all(b in imports[a] for a, b in zip(cyc, cyc[1:])) and cyc[-1] in cyc[:-1] and -1 not in cyc
            if not real:
                ctx.violation("reported-cycle-not-real", "the reported import cycle is not a cycle of the graph",
                              {"input": i, "observed": o})
            if not sp["cycle"]:
                ctx.violation("cycle-reported-on-acyclic", "an import cycle was reported but none is reachable",
                              {"input": i, "observed": o, "spec": sp})
        if sp["cycle"] and not sp["fault"] and not o["ok"] and not cyc:
            ctx.violation("cycle-not-reported", "a reachable import cycle exists but the error is not a cycle report",
                          {"input": i, "observed": o, "spec": sp})
        cmp_cycle = None if sp["fault"] else bool(cyc)
        terms.append(coq_case(n, imports, faults, req, par, o["ok"], cmp_cycle))
        meta.append((i, o, sp))
    for i, o in zip(corpus, couts):
        ctx.count(("override", i["yield"], tuple(i["req"])), True, "descriptor-override")
        if o.get("hang") or "crash" in o:
            ctx.violation("implicit-descriptor-dependency-deadlock",
                          "Compile hangs when an overridden descriptor.proto imports a file that implicitly depends on it",
                          {"input": i, "observed": o})
        elif o.get("ok") or not o.get("cycle"):
            ctx.violation("implicit-descriptor-cycle-not-reported", "implicit dependency cycle through descriptor.proto not reported",
                          {"input": i, "observed": o})
    ctx.sample(ins[len(ins) // 2]); ctx.sample(ins[-1]); ctx.sample(corpus[0])
    # keep the in-Coq evaluation bounded: all small graphs + a sample of the random ones in quick
    mism, err = coq_eval_mismatches("cases_C06", HEADER, terms, "exec_chk", shard_size=500)
    if err:
        raise RuntimeError(err)
    for k in mism:
        i, o, sp = meta[k]
        ctx.corr_break("compile-executor verdict / cycle report", i, {"observed": o, "spec": sp})
    ctx.exhaustive = True
    ctx.extra["exhaustive_part"] = "every digraph on <= 3 files x every non-empty request x the listed parallelism values"
