"""Generator of accepted protobuf programs (proto2 / proto3 / edition 2023) for C04, C09 and C10.

A program is a list of files; a later file may import earlier ones. Everything random comes from the rng
handed in (vlib.Rng). The generator knows the compiler's validity rules it has to respect (labels per
syntax, where each feature may be set, closed enums vs implicit presence, defaults need presence, packed
only on packable repeated fields, open enums start at zero, ...) so that nearly every program is accepted;
a rejected program is simply skipped by the checks.
"""

SCALARS = ["double", "float", "int32", "int64", "uint32", "uint64", "sint32", "sint64",
           "fixed32", "fixed64", "sfixed32", "sfixed64", "bool", "string", "bytes"]
MAPKEYS = ["int32", "int64", "uint32", "uint64", "sint32", "sint64", "fixed32", "fixed64",
           "sfixed32", "sfixed64", "bool", "string"]
PACKABLE = set(SCALARS) - {"string", "bytes"}

FEATURE_VALUES = {
    "field_presence": ["EXPLICIT", "IMPLICIT", "LEGACY_REQUIRED", "FIELD_PRESENCE_UNKNOWN"],
    "enum_type": ["OPEN", "CLOSED", "ENUM_TYPE_UNKNOWN"],
    "repeated_field_encoding": ["PACKED", "EXPANDED", "REPEATED_FIELD_ENCODING_UNKNOWN"],
    "utf8_validation": ["VERIFY", "NONE", "UTF8_VALIDATION_UNKNOWN"],
    "message_encoding": ["LENGTH_PREFIXED", "DELIMITED", "MESSAGE_ENCODING_UNKNOWN"],
    "json_format": ["ALLOW", "LEGACY_BEST_EFFORT", "JSON_FORMAT_UNKNOWN"],
}
FEATURE_ORDER = ["field_presence", "enum_type", "repeated_field_encoding", "utf8_validation", "message_encoding", "json_format"]
FEATURE_NUM = {
    "EXPLICIT": 1, "IMPLICIT": 2, "LEGACY_REQUIRED": 3, "FIELD_PRESENCE_UNKNOWN": 0,
    "OPEN": 1, "CLOSED": 2, "ENUM_TYPE_UNKNOWN": 0,
    "PACKED": 1, "EXPANDED": 2, "REPEATED_FIELD_ENCODING_UNKNOWN": 0,
    "VERIFY": 2, "NONE": 3, "UTF8_VALIDATION_UNKNOWN": 0,
    "LENGTH_PREFIXED": 1, "DELIMITED": 2, "MESSAGE_ENCODING_UNKNOWN": 0,
    "ALLOW": 1, "LEGACY_BEST_EFFORT": 2, "JSON_FORMAT_UNKNOWN": 0,
}
DEFAULTS_2023 = {"field_presence": "EXPLICIT", "enum_type": "OPEN", "repeated_field_encoding": "PACKED",
                 "utf8_validation": "VERIFY", "message_encoding": "LENGTH_PREFIXED", "json_format": "ALLOW"}


class Cfg:
    """Knobs; the three checks use different mixes."""

    def __init__(self, **kw):
        self.max_depth = 4          # message nesting depth
        self.features = True        # feature overrides in editions files
        self.unknown_values = True  # *_UNKNOWN feature values (accepted by the compiler)
        self.custom_options = True
        self.services = True
        self.extensions = True
        self.groups = True
        self.max_files = 3
        self.syntaxes = ["proto2", "proto3", "editions"]
        self.size = 3               # rough number of top-level messages / fields per message
        self.rel_names = True       # spell type references relative to an enclosing scope / package sometimes
        # adversarial declaration orders (default off: the random stream and the output of the generator are exactly
        # what they were before this knob existed): several extension / reserved ranges per message and enum,
        # declared out of ascending order, adjacent, single numbers, `to max`, negative enum ranges; the body
        # statements of a message (fields, oneofs, range and reserved-name statements) in shuffled order, so that
        # field numbers, names and ranges are not ascending in the descriptor
        self.adversarial_order = False
        # group-like fields (default off: with the knob off the random stream and the output are exactly what they
        # were before it existed): in editions files, message-typed fields for every spelling relation between the
        # field's name and the simple name of its message type (the lower-cased type name, equal only ignoring case,
        # the very same spelling, a near miss, unrelated) x where the type is declared (same scope as the field,
        # inside a sibling, the enclosing scope, the containing message itself, an imported file) x how the encoding
        # is chosen (DELIMITED / LENGTH_PREFIXED / MESSAGE_ENCODING_UNKNOWN on the field, inherited from the file)
        # x position (singular, repeated, oneof member, extension at message and file scope), with and without an
        # explicit json_name; in proto2 files also groups declared in extend blocks
        self.grouplike = False
        self.__dict__.update(kw)


class _File:
    def __init__(self, name, syntax, package):
        self.name, self.syntax, self.package = name, syntax, package
        self.imports = []           # [(name, modifier)]
        self.features = {}          # file-level features (editions)
        self.lines = []
        self.msgs = []              # exported message full names [(fqn, extendable, file_syntax)]
        self.enums = []             # [(fqn, closed_as_linker_sees, first_value_name, first_value_number)]
        self.uses_descriptor = False
        self.custom_opts = []       # [(kind, name, type)] options declared here
        self.shadow = False         # the file declares a message named like the first component of its package


class Program:
    def __init__(self):
        self.files = {}             # name -> text
        self.order = []             # names, dependencies first
        self.meta = {}              # name -> _File


def _pick_feature(rng, cfg, name, allowed=None):
    vals = list(FEATURE_VALUES[name] if allowed is None else allowed)
    if not cfg.unknown_values:
        vals = [v for v in vals if not v.endswith("_UNKNOWN")]
    else:
        # keep the *_UNKNOWN values rare
        if rng.chance(9, 10):
            known = [v for v in vals if not v.endswith("_UNKNOWN")]
            if known:
                vals = known
    return rng.choice(vals)


class _Gen:
    def __init__(self, rng, cfg, prog, f, visible):
        self.rng, self.cfg, self.prog, self.f = rng, cfg, prog, f
        self.visible = visible      # list of _File whose symbols may be referenced
        self.counter = 0
        self.ext_numbers = {}       # extendee fqn -> next number (shared across the program through prog)
        self.field_opt = None       # a custom field option usable in this file: (fqn-in-parens)
        self.msg_opt = None
        self.scope_stack = []       # full names of the enclosing messages / service, outermost first

    def uid(self):
        self.counter += 1
        return self.counter

    # ---- features
    def file_feature(self, name):
        if self.f.syntax != "editions":
            return None
        return self.f.features.get(name, DEFAULTS_2023[name])

    def linker_closed(self, enum_feature_value):
        # enumDescriptor.IsClosed: everything that is not OPEN
        return enum_feature_value != "OPEN"

    # ---- rendering helpers
    def feat_opts(self, feats):
        return ["features.%s = %s" % (k, v) for k, v in feats.items()]

    def emit(self, ind, s):
        self.f.lines.append("  " * ind + s)

    # ---- enums
    def gen_enum(self, ind, scope):
        rng = self.rng
        name = "E%d" % self.uid()
        fqn = scope + "." + name if scope else name
        feats = {}
        if self.f.syntax == "editions" and self.cfg.features:
            if rng.chance(1, 3):
                feats["enum_type"] = _pick_feature(rng, self.cfg, "enum_type")
            if rng.chance(1, 8):
                feats["json_format"] = _pick_feature(rng, self.cfg, "json_format")
        if self.f.syntax == "proto2":
            closed = True
        elif self.f.syntax == "proto3":
            closed = False
        else:
            closed = self.linker_closed(feats.get("enum_type", self.file_feature("enum_type")))
        self.emit(ind, "enum %s {" % name)
        for o in self.feat_opts(feats):
            self.emit(ind + 1, "option %s;" % o)
        nvals = rng.range(1, 4)
        first = 0 if (not closed or rng.chance(1, 2)) else rng.range(1, 5)
        nums = [first]
        alias = False
        for _ in range(nvals - 1):
            n = rng.range(-3, 12)
            if n in nums:
                continue
            nums.append(n)
        if rng.chance(1, 8) and len(nums) > 1:
            alias = True
            self.emit(ind + 1, "option allow_alias = true;")
        vnames = []
        for i, n in enumerate(nums):
            vn = "%s_V%d" % (name.upper(), i)
            vnames.append(vn)
            self.emit(ind + 1, "%s = %d;" % (vn, n))
        if alias:
            self.emit(ind + 1, "%s_ALIAS = %d;" % (name.upper(), nums[-1]))
        if self.cfg.adversarial_order:
            if rng.chance(1, 2):
                self.adv_enum_ranges(ind + 1)
        elif rng.chance(1, 5):
            self.emit(ind + 1, "reserved %d to %d;" % (100, 100 + rng.range(0, 5)))
        if rng.chance(1, 6):
            if self.f.syntax == "editions":
                self.emit(ind + 1, "reserved %s_OLD;" % name.upper())
            else:
                self.emit(ind + 1, 'reserved "%s_OLD";' % name.upper())
        self.emit(ind, "}")
        ent = (fqn, closed, vnames[0], nums[0], vnames + (["%s_ALIAS" % name.upper()] if alias else []))
        self.f.enums.append(ent)
        return ent

    # ---- field types
    def all_enums(self):
        out = []
        for g in self.visible + [self.f]:
            for e in g.enums:
                out.append((g, e))
        return out

    def all_msgs(self):
        out = []
        for g in self.visible + [self.f]:
            for m in g.msgs:
                out.append((g, m))
        return out

    def pick_type(self, allow_map=True, allow_msg=True, want=None):
        """Returns ('scalar', t) | ('enum', fqn, closed, firstval) | ('msg', fqn)"""
        rng = self.rng
        r = rng.below(10) if want is None else want
        if r < 5:
            return ("scalar", rng.choice(SCALARS))
        if r < 7:
            es = self.all_enums()
            if es:
                g, e = rng.choice(es)
                return ("enum", e[0], e[1], e[2], g.syntax, e[3], e[4])
            return ("scalar", rng.choice(SCALARS))
        if allow_msg:
            ms = self.all_msgs()
            if ms:
                g, m = rng.choice(ms)
                return ("msg", m[0])
        return ("scalar", rng.choice(SCALARS))

    INT_BOUNDS = {
        "s32": [0, 1, -1, 42, 2147483647, -2147483648],
        "s64": [0, 1, -1, 2147483648, -2147483649, 9223372036854775807, -9223372036854775808],
        "u32": [0, 1, 42, 2147483648, 4294967295],
        "u64": [0, 1, 4294967296, 9223372036854775807, 9223372036854775808, 18446744073709551615],
    }

    def int_literal(self, v):
        """decimal, hexadecimal or octal spelling of v"""
        r = self.rng.below(4)
        sign, a = ("-" if v < 0 else ""), abs(v)
        if r == 0:
            return "%s0x%X" % (sign, a)
        if r == 1:
            return "%s0%o" % (sign, a) if a else "%s0" % sign
        return "%s%d" % (sign, a)

    def default_for(self, t):
        rng = self.rng
        if t[0] == "enum":
            return rng.choice(t[6]) if len(t) > 6 and rng.chance(1, 2) else t[3]
        s = t[1]
        if s == "double":
            return rng.choice(["1.5", "-0.25", "inf", "-inf", "nan", "1e10", "0", "-0", "-0.0", "0.1", "1.7976931348623157e308",
                               "4.9e-324", "16777217", "1e-7"])
        if s == "float":
            return rng.choice(["1.5", "-0.25", "inf", "-inf", "nan", "1e10", "0", "-0", "-0.0", "0.1", "3.4028235e38", "1e-45",
                               "16777217", "1e-7"])
        if s == "bool":
            return rng.choice(["true", "false"])
        if s == "string":
            return '"' + rng.choice(["", "abc", "x y", "\\n\\t", "\\303\\251", "q\\\"q", "\\x41\\101", "\\\\", "it\\'s"]) + '"'
        if s == "bytes":
            return '"' + rng.choice(["", "\\x00\\xff", "abc", "\\001\\002", "\\377\\0"]) + '"'
        if s in ("int32", "sint32", "sfixed32"):
            return self.int_literal(rng.choice(self.INT_BOUNDS["s32"]))
        if s in ("int64", "sint64", "sfixed64"):
            return self.int_literal(rng.choice(self.INT_BOUNDS["s64"]))
        if s in ("uint32", "fixed32"):
            return self.int_literal(rng.choice(self.INT_BOUNDS["u32"]))
        return self.int_literal(rng.choice(self.INT_BOUNDS["u64"]))

    def spell(self, fqn):
        """One of the valid spellings of a reference to fqn from the current scope: fully qualified with a
        leading dot, fully qualified without it, or relative to an enclosing message of this file or to a
        prefix of this file's package. All declared names are unique, so no nearer scope can capture the
        first component."""
        rng = self.rng
        if not self.cfg.rel_names or rng.chance(1, 2) or self.f.shadow or any(g.shadow for g in self.visible):
            return "." + fqn
        parts = fqn.split(".")
        cands = [fqn]
        bases = list(self.scope_stack)
        pk = self.f.package.split(".") if self.f.package else []
        for k in range(1, len(pk) + 1):
            bases.append(".".join(pk[:k]))
        for b in bases:
            bp = b.split(".")
            if len(bp) < len(parts) and parts[:len(bp)] == bp:
                cands.append(".".join(parts[len(bp):]))
        return rng.choice(cands)

    def type_text(self, t):
        if t[0] == "scalar":
            return t[1]
        return self.spell(t[1])

    # ---- one field
    def gen_field(self, ind, number, in_oneof=False, is_ext=False, scope_delim=None):
        """Emits one field line (or group block); returns nothing. Respects the validity rules."""
        rng, f, cfg = self.rng, self.f, self.cfg
        syn = f.syntax
        name = "f%d" % self.uid()
        # cardinality
        if in_oneof:
            card = "single"
        else:
            r = rng.below(10)
            card = "repeated" if r < 3 else "single"
        # maps (never in oneof / extension)
        if not in_oneof and not is_ext and rng.chance(1, 8):
            k = rng.choice(MAPKEYS)
            vt = self.pick_type(allow_map=False)
            ok = True
            if vt[0] == "enum" and vt[5] != 0 and not rng.chance(1, 12):
                # an enum used as a map value must start at zero (rejected otherwise); keep a few as probes
                vt = ("scalar", "int32")
            if vt[0] == "enum":
                # the synthesized value field is singular: implicit presence needs an open enum
                if syn == "proto3" and vt[2]:
                    ok = False
                if syn == "editions" and vt[2] and self.file_feature("field_presence") not in ("EXPLICIT", "LEGACY_REQUIRED"):
                    ok = False
            if ok:
                opts = []
                feats = {}
                if syn == "editions" and cfg.features and (k == "string" or vt == ("scalar", "string")) and rng.chance(1, 3):
                    feats["utf8_validation"] = _pick_feature(rng, cfg, "utf8_validation")
                opts += self.feat_opts(feats)
                self.emit(ind, "map<%s, %s> %s = %d%s;" % (k, self.type_text(vt), name, number, self.opt_text(opts)))
                return
        t = self.pick_type()
        # proto2 groups
        if syn == "proto2" and cfg.groups and not is_ext and rng.chance(1, 10):
            gname = "G%d" % self.uid()
            label = "" if in_oneof else rng.choice(["optional", "repeated", "required"]) + " "
            self.emit(ind, "%sgroup %s = %d {" % (label, gname, number))
            self.emit(ind + 1, "optional int32 gf%d = 1;" % self.uid())
            self.emit(ind, "}")
            return
        opts = []
        feats = {}
        label = ""
        has_presence = True
        if syn == "proto2":
            if in_oneof:
                label = ""
            elif card == "repeated":
                label = "repeated "
            else:
                label = rng.choice(["optional ", "optional ", "required "]) if not is_ext else "optional "
            if card == "repeated" and t[0] != "msg" and (t[0] == "enum" or t[1] in PACKABLE) and rng.chance(1, 2):
                opts.append("packed = %s" % rng.choice(["true", "false"]))
        elif syn == "proto3":
            if in_oneof:
                label = ""
            elif card == "repeated":
                label = "repeated "
                if t[0] != "msg" and (t[0] == "enum" or t[1] in PACKABLE) and rng.chance(1, 2):
                    opts.append("packed = %s" % rng.choice(["true", "false"]))
            else:
                if rng.chance(1, 3):
                    label = "optional "
                else:
                    has_presence = t[0] == "msg"
            if t[0] == "enum" and t[2]:
                # a proto3 file may not use a closed (proto2) enum at all
                t = ("scalar", "int32")
                opts = [o for o in opts if not o.startswith("packed")]
        else:  # editions
            if card == "repeated":
                label = "repeated "
            fp = self.file_feature("field_presence")
            if cfg.features:
                if card == "single" and not in_oneof and not is_ext and rng.chance(1, 3):
                    allowed = ["EXPLICIT", "LEGACY_REQUIRED", "FIELD_PRESENCE_UNKNOWN"] if t[0] == "msg" else None
                    feats["field_presence"] = _pick_feature(rng, cfg, "field_presence", allowed)
                    if t[0] == "msg" and feats["field_presence"] == "FIELD_PRESENCE_UNKNOWN" and not cfg.unknown_values:
                        del feats["field_presence"]
                if card == "repeated" and rng.chance(1, 3):
                    packable = t[0] == "enum" or (t[0] == "scalar" and t[1] in PACKABLE)
                    allowed = None if packable else ["EXPANDED", "REPEATED_FIELD_ENCODING_UNKNOWN"]
                    v = _pick_feature(rng, cfg, "repeated_field_encoding", allowed)
                    feats["repeated_field_encoding"] = v
                if t == ("scalar", "string") and rng.chance(1, 4):
                    feats["utf8_validation"] = _pick_feature(rng, cfg, "utf8_validation")
                if t[0] == "msg" and rng.chance(1, 3):
                    feats["message_encoding"] = _pick_feature(rng, cfg, "message_encoding")
            fp = feats.get("field_presence", fp)
            if card == "single" and not in_oneof and not is_ext and t[0] != "msg":
                has_presence = fp in ("EXPLICIT", "LEGACY_REQUIRED")
            if t[0] == "enum" and t[2] and card == "single" and not has_presence:
                # implicit presence may not use a closed enum
                t = ("scalar", "int32")
        if card == "repeated":
            has_presence = False
        # default values need presence and a non-message singular field
        if has_presence and card == "single" and t[0] != "msg" and syn != "proto3" and rng.chance(1, 4):
            opts.append("default = %s" % self.default_for(t))
        if rng.chance(1, 10) and not is_ext:
            opts.append('json_name = "j%d"' % self.uid())
        if rng.chance(1, 12):
            opts.append("deprecated = true")
        if self.field_opt and rng.chance(1, 6):
            opts.append("(%s) = %d" % (self.field_opt, rng.range(-5, 500)))
        opts += self.feat_opts(feats)
        # editions: a field that looks like a group (name = lower(message name), sibling message)
        self.emit(ind, "%s%s %s = %d%s;" % (label, self.type_text(t), name, number, self.opt_text(opts)))

    def opt_text(self, opts):
        return " [%s]" % ", ".join(opts) if opts else ""

    # ---- group-like fields (Cfg.grouplike)
    def gl_field_name(self, tname, same_scope):
        """A field name by its spelling relation to the simple name of its message type. In the scope of the type
        itself the very same spelling would be a duplicate symbol, so it is only used for types declared elsewhere."""
        rng = self.rng
        low = tname.lower()
        rel = rng.choice(["lower", "lower", "case", "case", "case", "exact", "near", "other"])
        if rel == "lower" and not (same_scope and low == tname):
            return low
        if rel == "exact" and not same_scope:
            return tname
        if rel == "near":
            return rng.choice([low + "_", low + "x", "x" + low, low + "_" + low])
        if rel == "other":
            return "f%d" % self.uid()
        cands = []
        for c in (tname.upper(), tname.swapcase(), tname[0].lower() + tname[1:], tname[0].upper() + tname[1:].lower(),
                  low[:-1] + low[-1].upper(), low[0].upper() + low[1:]):
            if c != low and c.lower() == low and not (same_scope and c == tname) and c not in cands:
                cands.append(c)
        if cands:
            return rng.choice(cands)
        return "f%d" % self.uid()

    def gl_make(self, number, here, outer, in_oneof=False, is_ext=False):
        """One message-typed field of an editions file and, where needed, the declaration of its type.
        here = full name of the scope the field is declared in (the containing message; for an extension the scope of
        the extend block), outer = full name of the scope around `here` (None: unknown / not usable).
        Returns {"here": declarations for the scope of the field, "outer": declarations for the enclosing scope
        (to be put after the containing message), "field": the field line}."""
        rng, cfg = self.rng, self.cfg
        k = self.uid()
        tname = rng.choice(["Grp%d", "Grp%d", "MyGroup%d", "GRP%d", "grp%d", "gRp%d", "My_Grp%d", "G%d"]) % k
        body = "{ int32 x%d = 1; }" % k
        locs = ["sibling"] * 4 + ["inner"]
        if outer is not None:
            locs.append("outer")
        if not is_ext and here:
            locs.append("self")
        imported = [m for g in self.visible for m in g.msgs]
        if imported:
            locs.append("imported")
        loc = rng.choice(locs)
        out = {"here": [], "outer": []}
        same_scope = False
        if loc == "sibling":
            fqn = (here + "." if here else "") + tname
            out["here"].append("message %s %s" % (tname, body))
            same_scope = True
        elif loc == "inner":
            fqn = (here + "." if here else "") + "Hold%d." % k + tname
            out["here"].append("message Hold%d { message %s %s }" % (k, tname, body))
        elif loc == "outer":
            fqn = (outer + "." if outer else "") + tname
            out["outer"].append("message %s %s" % (tname, body))
        elif loc == "self":
            fqn = here
            tname = here.rsplit(".", 1)[-1]
        else:
            fqn = rng.choice(imported)[0]
            tname = fqn.rsplit(".", 1)[-1]
            # a file-level extension and a top-level message of an imported file of the same package have the same
            # parent NAME without being declared in the same scope
        name = self.gl_field_name(tname, same_scope)
        used = self.__dict__.setdefault("gl_used", set())
        if (here, name) in used:
            name = "f%d" % self.uid()
        used.add((here, name))
        opts = []
        r = rng.below(8)
        if r < 4:
            opts.append("features.message_encoding = DELIMITED")
        elif r == 4:
            opts.append("features.message_encoding = LENGTH_PREFIXED")
        elif r == 5 and cfg.unknown_values:
            opts.append("features.message_encoding = MESSAGE_ENCODING_UNKNOWN")
        # else: inherited from the file (DELIMITED there in some files)
        if rng.chance(1, 6) and not is_ext:
            opts.append('json_name = "%s"' % rng.choice(["j%d" % k, tname, tname.lower(), name]))
        if rng.chance(1, 10):
            opts.append("deprecated = true")
        label = "repeated " if (not in_oneof and rng.chance(1, 4)) else ""
        out["field"] = "%s%s %s = %d%s;" % (label, self.spell(fqn), name, number, self.opt_text(opts))
        return out

    # ---- messages
    def gen_message(self, ind, scope, depth):
        rng, f, cfg = self.rng, self.f, self.cfg
        name = "M%d" % self.uid()
        fqn = scope + "." + name if scope else name
        extendable = f.syntax != "proto3" and cfg.extensions and rng.chance(1, 3)
        # register before the body so that fields can be self-recursive
        f.msgs.append((fqn, extendable, f.syntax))
        self.scope_stack.append(fqn)
        self.emit(ind, "message %s {" % name)
        if f.syntax == "editions" and cfg.features and rng.chance(1, 5):
            self.emit(ind + 1, "option features.json_format = %s;" % _pick_feature(rng, cfg, "json_format"))
        if self.msg_opt and rng.chance(1, 4):
            if rng.chance(1, 2):
                self.emit(ind + 1, "option (%s) = { a: %d b: \"s%d\" };" % (self.msg_opt, rng.range(0, 99), rng.range(0, 9)))
            else:
                self.emit(ind + 1, "option (%s).a = %d;" % (self.msg_opt, rng.range(0, 99)))
        if rng.chance(1, 10):
            self.emit(ind + 1, "option deprecated = true;")
        # nested enums first so that fields can use them
        for _ in range(rng.below(2) if depth < cfg.max_depth else 0):
            self.gen_enum(ind + 1, fqn)
        if rng.chance(1, 3):
            self.gen_enum(ind + 1, fqn)
        # nested messages
        if depth < cfg.max_depth:
            nn = rng.below(3) if rng.chance(2, 3) else 0
            for _ in range(nn):
                self.gen_message(ind + 1, fqn, depth + 1)
        number = 0
        nfields = rng.range(0, cfg.size + 1)
        adv = cfg.adversarial_order
        chunks, mark = [], len(f.lines)

        def grab():
            # adversarial order only: take the statement(s) just emitted out of the body; they are put back shuffled
            if adv:
                chunks.append(f.lines[mark:])
                del f.lines[mark:]
        for _ in range(nfields):
            number += rng.range(1, 3)
            self.gen_field(ind + 1, number)
            grab()
        # oneofs
        for _ in range(1 if rng.chance(1, 3) else 0):
            self.emit(ind + 1, "oneof o%d {" % self.uid())
            for _ in range(rng.range(1, 3)):
                number += 1
                self.gen_field(ind + 2, number, in_oneof=True)
            self.emit(ind + 1, "}")
            grab()
        deferred = []
        if cfg.grouplike and f.syntax == "editions":
            for _ in range(rng.range(0, 2)):
                number += 1
                g = self.gl_make(number, fqn, scope)
                for ln in g["here"] + [g["field"]]:
                    self.emit(ind + 1, ln)
                deferred += g["outer"]
                grab()
            if rng.chance(1, 3):
                members, decls = [], []
                for _ in range(rng.range(1, 2)):
                    number += 1
                    g = self.gl_make(number, fqn, scope, in_oneof=True)
                    members.append(g["field"])
                    decls += g["here"]
                    deferred += g["outer"]
                for ln in decls:
                    self.emit(ind + 1, ln)
                self.emit(ind + 1, "oneof og%d {" % self.uid())
                for ln in members:
                    self.emit(ind + 2, ln)
                if rng.chance(1, 2):
                    number += 1
                    self.emit(ind + 2, "int32 f%d = %d;" % (self.uid(), number))
                self.emit(ind + 1, "}")
                grab()
        if adv:
            for stmt in self.adv_msg_ranges(extendable, number):
                self.emit(ind + 1, stmt)
                grab()
        else:
            if extendable:
                self.emit(ind + 1, "extensions 1000 to 1999;")
            if rng.chance(1, 6):
                self.emit(ind + 1, "reserved %d, %d to %d;" % (500, 510, 510 + rng.range(0, 9)))
        for _ in range(rng.range(1, 3) if adv and rng.chance(1, 4) else 1):
            if rng.chance(1, 8) or (adv and rng.chance(1, 3)):
                if f.syntax == "editions":
                    self.emit(ind + 1, "reserved old_%d;" % self.uid())
                else:
                    self.emit(ind + 1, 'reserved "old_%d";' % self.uid())
                grab()
        if adv:
            for ch in rng.shuffle(chunks):
                f.lines.extend(ch)
        # nested extend block
        if cfg.extensions and f.syntax != "proto3" and rng.chance(1, 5):
            self.gen_extend(ind + 1)
        self.emit(ind, "}")
        self.scope_stack.pop()
        for ln in deferred:
            self.emit(ind, ln)
        return fqn

    # ---- adversarial declaration orders (Cfg.adversarial_order)
    @staticmethod
    def _range_text(s, e, top):
        if s == e:
            return "%d" % s
        return "%d to %s" % (s, "max" if e == top else "%d" % e)

    def _unsorted(self, segs):
        """A permutation of segs that is not ascending (whenever there are two or more)."""
        segs = self.rng.shuffle(segs)
        if len(segs) > 1 and segs == sorted(segs):
            k = self.rng.below(len(segs) - 1)
            segs[k], segs[k + 1] = segs[k + 1], segs[k]
        return segs

    def _statements(self, kw, segs, top):
        """segs as one, two or three `kw ...;` statements (declaration order = descriptor order)."""
        out = []
        segs = list(segs)
        while segs:
            k = self.rng.range(1, len(segs))
            out.append("%s %s;" % (kw, ", ".join(self._range_text(s, e, top) for s, e in segs[:k])))
            segs = segs[k:]
        return out

    def adv_msg_ranges(self, extendable, last_number):
        """Disjoint number ranges above the message's field numbers: lengths 1 / 2 / 10 / 100 / ..., gaps 0 (adjacent)
        and up, one of them 1000-1999 when the message is extendable (extensions are numbered from 1000), sometimes
        one reaching `max`; each is an extension range (extendable messages) or a reserved range; both lists are
        declared in a non-ascending order."""
        rng = self.rng
        top = 536870911
        segs, cur = [], last_number + rng.range(1, 4)
        for _ in range(rng.range(1, 4)):
            ln = rng.choice([1, 1, 2, 3, 10, 100])
            if cur + ln - 1 >= 1000:
                break
            segs.append((cur, cur + ln - 1))
            cur += ln + rng.choice([0, 0, 1, 2, 7, 100])
        fixed = (1000, 1999)
        segs.append(fixed)
        cur = 2000 + rng.choice([0, 0, 1, 16999, 17001, 100000])
        for _ in range(rng.range(0, 3)):
            ln = rng.choice([1, 1, 2, 1000, 1000000])
            segs.append((cur, cur + ln - 1))
            cur += ln + rng.choice([0, 0, 1, 5, 1000, 10000000])
        if rng.chance(1, 3):
            segs.append((cur, top))
        ext, rsv = [], []
        for sg in segs:
            if sg == fixed:
                (ext if extendable else rsv).append(sg) if (extendable or rng.chance(1, 2)) else None
            elif extendable and rng.chance(1, 2):
                ext.append(sg)
            elif rng.chance(3, 4):
                rsv.append(sg)
        out = []
        if ext:
            out += self._statements("extensions", self._unsorted(ext), top)
        if rsv:
            out += self._statements("reserved", self._unsorted(rsv), top)
        return out

    def adv_enum_ranges(self, ind):
        """Reserved ranges of an enum outside the value numbers (-3 .. 12): negative and positive, adjacent, single
        numbers, the int32 extremes, declared in a non-ascending order."""
        rng = self.rng
        top = 2147483647
        segs = []
        if rng.chance(1, 2):
            cur = -rng.choice([2147483648, 100000, 500, 60])
            for _ in range(rng.range(1, 3)):
                ln = rng.choice([1, 1, 2, 10])
                if cur + ln - 1 >= -4:
                    break
                segs.append((cur, cur + ln - 1))
                cur += ln + rng.choice([0, 0, 1, 3, 20])
        cur = rng.choice([13, 14, 100, 1000])
        for _ in range(rng.range(1, 4)):
            ln = rng.choice([1, 1, 2, 6, 1000])
            segs.append((cur, cur + ln - 1))
            cur += ln + rng.choice([0, 0, 1, 3, 1000000])
        if rng.chance(1, 3):
            segs.append((cur, top))
        for st in self._statements("reserved", self._unsorted(segs), top):
            self.emit(ind, st)

    def gen_extend(self, ind):
        rng = self.rng
        cands = [m for g, m in self.all_msgs() if m[1] and m[2] != "proto3"]
        if not cands:
            return
        ext = rng.choice(cands)
        nums = self.prog.__dict__.setdefault("ext_numbers", {})
        self.emit(ind, "extend %s {" % self.spell(ext[0]))
        for _ in range(rng.range(1, 3)):
            n = nums.get(ext[0], 1000)
            nums[ext[0]] = n + 1
            self.gen_field(ind + 1, n, is_ext=True)
        after = []
        if self.cfg.grouplike and rng.chance(1, 2):
            n = nums.get(ext[0], 1000)
            nums[ext[0]] = n + 1
            here = self.scope_stack[-1] if self.scope_stack else self.f.package
            if self.f.syntax == "editions":
                g = self.gl_make(n, here, None, is_ext=True)
                self.emit(ind + 1, g["field"])
                after = g["here"]
            elif self.f.syntax == "proto2":
                self.emit(ind + 1, "%s group ExtG%d = %d { optional int32 gx%d = 1; }" % (rng.choice(["optional", "repeated"]), self.uid(), n, self.uid()))
        self.emit(ind, "}")
        for ln in after:
            self.emit(ind, ln)

    def gen_service(self):
        rng = self.rng
        ms = self.all_msgs()
        if not ms:
            return
        self.emit(0, "service S%d {" % self.uid())
        for _ in range(rng.range(1, 3)):
            a = rng.choice(ms)[1][0]
            b = rng.choice(ms)[1][0]
            self.emit(1, "rpc R%d(%s%s) returns (%s%s)%s" % (
                self.uid(), "stream " if rng.chance(1, 4) else "", self.spell(a), "stream " if rng.chance(1, 4) else "", self.spell(b),
                " { option deprecated = true; }" if rng.chance(1, 5) else ";"))
        self.emit(0, "}")


def gen_program(rng, cfg=None, nfiles=None, syntax=None):
    """Returns a Program: files (name -> text), order (dependencies first)."""
    cfg = cfg or Cfg()
    prog = Program()
    n = nfiles if nfiles is not None else rng.range(1, cfg.max_files)
    done = []
    for i in range(n):
        syn = syntax or rng.choice(cfg.syntaxes)
        fname = "f%d.proto" % i
        pkg = rng.choice(["", "p%d" % i, "p%d.q" % i, "shared"])
        f = _File(fname, syn, pkg)
        # imports: any subset of earlier files
        visible = []
        for g in done:
            if rng.chance(1, 2):
                mod = "public " if rng.chance(1, 6) else ""
                f.imports.append((g.name, mod))
                visible.append(g)
        g = _Gen(rng, cfg, prog, f, visible)
        g.counter = i * 1000
        if syn == "editions" and cfg.features:
            for name in FEATURE_ORDER:
                if rng.chance(1, 4):
                    allowed = None
                    if name == "field_presence":
                        allowed = ["EXPLICIT", "IMPLICIT", "FIELD_PRESENCE_UNKNOWN"]
                    f.features[name] = _pick_feature(rng, cfg, name, allowed)
        body_start = len(f.lines)
        # a message named like the first package component, mirroring the package path inside: then a fully
        # qualified name WITHOUT the leading dot would be captured by it, so such files (and their importers)
        # spell every reference with the leading dot
        f.shadow = bool(pkg) and cfg.rel_names and rng.chance(1, 6)
        # custom options
        if cfg.custom_options and rng.chance(1, 3):
            f.uses_descriptor = True
            lab = "" if syn == "editions" else "optional "
            k = g.uid()
            pfx = (pkg + ".") if pkg else ""
            g.emit(0, "extend google.protobuf.FieldOptions { %sint32 fo%d = %d; }" % (lab, k, 50000 + i * 10 + 1))
            g.field_opt = pfx + "fo%d" % k
            g.emit(0, "message Opt%d { %sint32 a = 1; %sstring b = 2; }" % (k, lab, lab))
            f.msgs.append(((pfx + "Opt%d" % k), False, syn))
            g.emit(0, "extend google.protobuf.MessageOptions { %sOpt%d mo%d = %d; }" % (lab, k, k, 50000 + i * 10 + 2))
            g.msg_opt = pfx + "mo%d" % k
        for _ in range(rng.range(0, 2)):
            g.gen_enum(0, pkg)
        for _ in range(rng.range(1, cfg.size)):
            g.gen_message(0, pkg, 0)
        if cfg.extensions and syn != "proto3" and rng.chance(1, 3):
            g.gen_extend(0)
        if cfg.services and rng.chance(1, 3):
            g.gen_service()
        if f.shadow:
            tops = [m[0] for m in f.msgs if m[0].rsplit(".", 1)[0] == pkg]
            if tops:
                comps = pkg.split(".")
                target = rng.choice(tops).rsplit(".", 1)[1]
                lab = "" if syn != "proto2" else "optional "
                opening = "".join("message %s { " % c for c in comps)
                g.emit(0, "%smessage %s { %sint32 shadow_marker = 1; } %s" % (opening, target, lab, "} " * len(comps)))
        head = []
        if syn == "editions":
            head.append('edition = "2023";')
        else:
            head.append('syntax = "%s";' % syn)
        if pkg:
            head.append("package %s;" % pkg)
        for nm, mod in f.imports:
            head.append('import %s"%s";' % (mod, nm))
        if f.uses_descriptor:
            head.append('import "google/protobuf/descriptor.proto";')
        for k, v in f.features.items():
            head.append("option features.%s = %s;" % (k, v))
        if rng.chance(1, 6):
            head.append('option java_package = "com.example.p%d";' % i)
        if rng.chance(1, 8):
            head.append("option optimize_for = SPEED;")
        text = "\n".join(head + f.lines) + "\n"
        prog.files[fname] = text
        prog.order.append(fname)
        prog.meta[fname] = f
        done.append(f)
    return prog


# hand-written corpus: the repository's own editions fixture and the edge cases found while building C04
CORPUS_C04 = [
    # LEGACY_REQUIRED on an editions field (RequiredNumbers)
    'edition = "2023";\nmessage Foo {\n  uint64 id = 1 [features.field_presence = LEGACY_REQUIRED];\n  string s = 2;\n}\n',
    # file-wide delimited encoding with a map field and a group-like field
    'edition = "2023";\noption features.message_encoding = DELIMITED;\nmessage M {\n  map<string, M> m = 1;\n  M self = 2;\n  Grp grp = 3;\n  message Grp { int32 x = 1; }\n  repeated M rep = 4;\n  oneof o { M in_oneof = 5; int32 i = 6; }\n}\n',
    # ENUM_TYPE_UNKNOWN
    'edition = "2023";\nenum E { option features.enum_type = ENUM_TYPE_UNKNOWN; A = 0; }\n',
    # proto3 optional, packed true/false, extension with optional in proto3
    'syntax = "proto3";\nimport "google/protobuf/descriptor.proto";\nextend google.protobuf.FieldOptions { optional int32 fo = 50001; }\nmessage M {\n  optional int32 a = 1;\n  repeated int32 b = 2 [packed = false];\n  repeated int32 c = 3;\n  int32 d = 4 [(fo) = 3];\n  oneof o { int32 e = 5; }\n  map<int32, M> f = 6;\n  E g = 7;\n  repeated E h = 8;\n}\nenum E { Z = 0; }\n',
    # proto2 groups, required, packed, defaults, extensions in a message scope
    'syntax = "proto2";\nmessage M {\n  required int32 a = 1;\n  optional group G = 2 { optional int32 x = 1; }\n  repeated group H = 3 { required M m = 1; }\n  repeated int32 p = 4 [packed = true];\n  repeated string q = 5;\n  optional bytes d = 6 [default = "\\x00\\xff"];\n  optional E e = 7 [default = B];\n  oneof o { int32 oi = 8; group OG = 9 { optional int32 y = 1; } }\n  extensions 100 to 200;\n  extend M { optional int32 ext1 = 100; repeated sint64 ext2 = 101 [packed = true]; optional M ext3 = 102; }\n}\nenum E { A = 1; B = 2; }\nextend M { repeated E ext4 = 103; }\n',
    # boundary defaults of every scalar kind, in decimal, hexadecimal and octal spellings
    'syntax = "proto2";\nenum E { option allow_alias = true; A = 1; B = 2; B2 = 2; }\nmessage D {\n'
    '  optional int32 a1 = 1 [default = 2147483647];\n  optional int32 a2 = 2 [default = -2147483648];\n  optional sint32 a3 = 3 [default = -0x80000000];\n'
    '  optional sfixed32 a4 = 4 [default = 017777777777];\n  optional int64 b1 = 5 [default = 9223372036854775807];\n'
    '  optional int64 b2 = 6 [default = -9223372036854775808];\n  optional sint64 b3 = 7 [default = -0x8000000000000000];\n'
    '  optional sfixed64 b4 = 8 [default = 0777777777777777777777];\n  optional uint32 c1 = 9 [default = 4294967295];\n'
    '  optional fixed32 c2 = 10 [default = 0xFFFFFFFF];\n  optional uint64 d1 = 11 [default = 18446744073709551615];\n'
    '  optional uint64 d2 = 12 [default = 9223372036854775808];\n  optional fixed64 d3 = 13 [default = 0xFFFFFFFFFFFFFFFF];\n'
    '  optional fixed64 d4 = 14 [default = 01777777777777777777777];\n  optional uint64 d5 = 15 [default = 9223372036854775807];\n'
    '  optional float f1 = 16 [default = -0];\n  optional float f2 = 17 [default = 0.1];\n  optional float f3 = 18 [default = 16777217];\n'
    '  optional float f4 = 19 [default = inf];\n  optional float f5 = 20 [default = -inf];\n  optional float f6 = 21 [default = nan];\n'
    '  optional float f7 = 22 [default = 3.4028235e38];\n  optional double g1 = 23 [default = -0.0];\n  optional double g2 = 24 [default = 0.1];\n'
    '  optional double g3 = 25 [default = 1.7976931348623157e308];\n  optional double g4 = 26 [default = nan];\n  optional double g5 = 27 [default = 4.9e-324];\n'
    '  optional bool h1 = 28 [default = true];\n  optional bool h2 = 29 [default = false];\n  optional E e1 = 30 [default = B2];\n  optional E e2 = 31;\n'
    '  optional string s1 = 32 [default = "a\\n\\x41\\101\\"q\\\\"];\n  optional bytes y1 = 33 [default = "\\x00\\377z"];\n'
    '  optional int32 n1 = 34;\n  optional uint64 n2 = 35;\n  optional string n3 = 36;\n  required uint64 r1 = 37 [default = 0x8000000000000000];\n'
    '  oneof o { uint64 o1 = 38 [default = 18446744073709551615]; int32 o2 = 39 [default = -1]; }\n}\n',
    # the same in an editions file
    'edition = "2023";\nmessage D {\n  uint64 d1 = 1 [default = 18446744073709551615];\n  fixed64 d2 = 2 [default = 0x8000000000000000];\n'
    '  sint64 d3 = 3 [default = -9223372036854775808];\n  float f = 4 [default = -0];\n  uint32 u = 5 [default = 4294967295];\n}\n',
    # an enum that does not start at zero as a map value: must be rejected (protoc and the Go runtime reject it)
    'syntax = "proto2";\nenum E { A = 1; }\nmessage M { map<int32, E> m = 1; }\n',
    # overrides at every legal level, four levels deep
    'edition = "2023";\noption features.field_presence = IMPLICIT;\noption features.repeated_field_encoding = EXPANDED;\noption features.enum_type = CLOSED;\noption features.json_format = LEGACY_BEST_EFFORT;\nmessage A {\n  option features.json_format = ALLOW;\n  message B {\n    message C {\n      option features.json_format = LEGACY_BEST_EFFORT;\n      message D {\n        int32 x = 1;\n        int32 y = 2 [features.field_presence = EXPLICIT];\n        repeated int32 z = 3;\n        repeated int32 w = 4 [features.repeated_field_encoding = PACKED];\n        enum E { option features.enum_type = OPEN; Z = 0; }\n        enum F { F1 = 1; }\n        E e = 5;\n        F f = 6 [features.field_presence = LEGACY_REQUIRED];\n        D d = 7 [features.message_encoding = DELIMITED];\n        string s = 8 [features.utf8_validation = NONE];\n      }\n    }\n  }\n}\n',
]


# hand-written corpus for C04 only: lookup methods of the list / range views on adversarial declaration orders
CORPUS_C04_LOOKUPS = [
    # extension and reserved ranges out of ascending order, adjacent ranges, single numbers, `max`
    'syntax = "proto2";\npackage lk;\nmessage Ext {\n  optional int32 a = 1;\n  extensions 1000 to 1999, 100 to 199, 500 to 599;\n'
    '  reserved 50 to 59, 10 to 19, 30;\n  extensions 2000, 200 to 299, 20000 to max;\n  reserved 60, 20 to 29, 9;\n  reserved "zz", "aa", "mm";\n}\n'
    'message Sorted { extensions 100 to 199, 500 to 599, 1000 to 1999; reserved 10 to 19, 30, 50 to 59; }\n'
    'message Rev { extensions 7 to 8, 5 to 6, 3 to 4, 1 to 2; }\nmessage Rev2 { reserved 9, 8, 7, 6, 5, 4, 3, 2, 1; }\n'
    'extend Ext { optional int32 x1999 = 1999; optional int32 x100 = 100; optional int32 x20000 = 20000; optional int32 x536870911 = 536870911; }\n',
    # fields declared with descending numbers and names, oneof members in between, groups, explicit JSON names
    'syntax = "proto2";\npackage lk;\nmessage F {\n  optional int32 zeta = 9;\n  oneof o2 { int32 y_y = 8; string x_x = 7 [json_name = "XX"]; }\n'
    '  optional group Grp = 6 { optional int32 g1 = 1; }\n  repeated int32 beta_gamma = 5;\n  oneof o1 { group OGrp = 4 { optional int32 g2 = 2; } bool b = 3; }\n'
    '  required string alpha = 1;\n  optional F f = 2 [json_name = "zeta2"];\n  message N2 {} message N1 {} enum E2 { E2_A = 1; } enum E1 { E1_A = 1; }\n'
    '  extensions 100 to 199;\n  extend F { optional int32 e2 = 150; optional int32 e1 = 100; }\n}\n',
    # enums: descending and negative values, aliases (ByNumber = first declared), reserved ranges out of order
    'syntax = "proto2";\npackage lk;\nenum E {\n  option allow_alias = true;\n  C = 5;\n  B = -1;\n  B_ALIAS = -1;\n  A = 0;\n  C_ALIAS = 5;\n'
    '  reserved 100 to 110, -20 to -10, 50, 2000 to max, -2147483648 to -100, 51 to 52;\n  reserved "ZZ", "AA";\n}\n'
    'message M { optional E e = 1 [default = B_ALIAS]; optional E e2 = 2 [default = C_ALIAS]; }\n',
    # proto3 and editions: the same shapes where they are allowed
    'syntax = "proto3";\npackage lk;\nmessage P3 {\n  reserved 900 to 999, 100, 10 to 20, 536870911;\n  reserved "b", "a";\n  int32 z = 3;\n  oneof o { int32 y = 2; string x = 1; }\n'
    '  map<string, P3> m = 5;\n  optional int32 opt = 4;\n  enum E { Z = 0; N = -5; reserved 7, 5 to 6, -9 to -8; }\n}\n'
    'service S2 { rpc B(P3) returns (P3); rpc A(P3) returns (stream P3); }\nservice S1 { rpc A(stream P3) returns (P3); }\n',
    'edition = "2023";\npackage lk;\nmessage Ed {\n  extensions 1000 to max, 100 to 199;\n  reserved 50 to 59, 10 to 19, 30;\n  reserved b, a;\n'
    '  Grp grp = 3 [features.message_encoding = DELIMITED];\n  message Grp { int32 x = 1; }\n  int32 c = 2;\n  int32 a_b = 1 [json_name = "AB"];\n'
    '  enum E { option features.enum_type = CLOSED; V2 = 2; V1 = 1; reserved 9 to 10, 5, -3 to -1; reserved OLD2, OLD1; }\n}\n'
    'extend Ed { int32 e2 = 150; int32 e1 = 100; Ed e3 = 1000 [features.message_encoding = DELIMITED]; }\n',
]


# hand-written corpus for C10 / C09: names that shadow each other, so that how a reference is spelled matters
CORPUS_SHADOW = [
    # a message named like the package: .a.M is a.M, but a.M (no dot) from inside the package is a.a.M
    'syntax = "proto2";\npackage a;\nmessage a { message M { optional int32 inner = 1; } }\nmessage M { optional int32 outer = 1; }\n'
    'message X { optional .a.M abs = 1; optional a.M rel = 2; optional M simple = 3; optional .a.a.M abs_inner = 4; }\n',
    # a field named like a type: an unqualified reference skips the non-type and finds the outer type
    'syntax = "proto2";\npackage p;\nmessage T { optional int32 x = 1; }\nmessage M { optional T T = 1; optional T u = 2; optional .p.T v = 3; '
    'message N { optional T w = 1; optional M.N self = 2; optional p.M up = 3; } }\n',
    # the same simple name at three depths
    'syntax = "proto3";\npackage q.r;\nmessage A { message A { message A { A a0 = 1; .q.r.A a1 = 2; q.r.A.A a2 = 3; r.A a3 = 4; } A b0 = 1; } A c0 = 1; A.A c1 = 2; }\n',
    # enums and messages, extension scopes, service scope
    'syntax = "proto2";\npackage s;\nenum K { K0 = 0; }\nmessage H { enum K { K1 = 1; } optional K k = 1; optional .s.K gk = 2; extensions 100 to 200; '
    'extend H { optional K ek = 100; optional s.K egk = 101; } }\nextend s.H { optional H.K tk = 102; }\nservice Svc { rpc Do(H) returns (s.H); rpc Re(.s.H) returns (H); }\n',
]
