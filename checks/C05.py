"""C05 - Output is independent of parallelism, order and scheduling."""
import glob, os
from execlib import *

ID = "C05"
COQ_FILES = COQ_EXEC + ["Props/C05.v"]
PROPS = "Props/C05.v"
THEOREMS = ["C05_verdict_confluent", "C05_success_outputs_all_reachable"]
AXIOMS_OK = []
TRUSTED = TRUSTED_EXEC
ASSUMPTIONS = ["P-core: the theorems cover the executor (verdict and set of compiled files independent of permits, request order, "
               "schedule); determinism of linking one file (linker, options interpreter, source info) is not modelled: it is "
               "explored by comparing deterministic-marshal bytes across repeated / re-ordered / re-parallelised runs",
               "shared linker.Symbols across runs is covered by C16"]


def run(ctx):
    rng = ctx.rng
    groups = []   # each group: list of json inputs that must all give the same outcome
    gmeta = []
    for k in range(ctx.budget(160, 4000)):
        n = rng.range(2, 8)
        imports = random_graph(rng, n, rng.range(15, 50), rng.chance(1, 4))
        base_req = [d for d in range(n) if rng.chance(1, 2)] or [0]
        faults = {}
        if rng.chance(1, 6):
            faults[rng.below(n)] = rng.choice(["missing", "link"])
        variants = []
        for v in range(6):
            req = rng.shuffle(base_req)
            variants.append(json_case(n, imports, req, rng.choice([1, 2, 3, 4, 8, 16]), faults,
                                      rng.range(1, 1 << 30) if v % 2 else 0, timeout_ms=8000))
        groups.append(variants)
        gmeta.append((n, imports, base_req, faults))
    # files that share a package (the package node of the symbol table is created concurrently) and, in half of
    # the groups, two of them declare the same symbol: the collision must be found under every schedule
    for k in range(ctx.budget(60, 1500)):
        n = rng.range(2, 7)
        imports = random_graph(rng, n, rng.range(0, 30), False)
        shared = [d for d in range(n) if rng.chance(2, 3)]
        if len(shared) < 2:
            shared = [0, 1]
        dup = rng.shuffle(shared)[:2] if k % 2 == 0 else []
        base_req = list(range(n))
        faults = {dup[0]: "link"} if dup else {}      # for the model: one of the two cannot be linked
        variants = []
        for v in range(8):
            variants.append(json_case(n, imports, rng.shuffle(base_req), rng.choice([2, 4, 8, 16]), None,
                                      rng.range(1, 1 << 30) if v % 2 else 0, timeout_ms=8000, shared_pkg=shared, dup=dup))
        groups.append(variants)
        gmeta.append((n, imports, base_req, faults))
    # stress: the race for creating a package node of the shared symbol table is rare, so three tiny workspaces whose
    # files all live in one new package and declare the same symbol are compiled thousands of times; the collision must
    # be reported every single time
    stress_groups = []
    for n, reps in ((2, ctx.budget(5000, 60000)), (3, ctx.budget(3000, 40000)), (8, ctx.budget(1500, 20000))):
        shared = list(range(n))
        variants = [json_case(n, [[] for _ in range(n)], shared, 16 if k % 2 else 8, None, 0, timeout_ms=8000, shared_pkg=shared, dup=shared)
                    for k in range(reps)]
        stress_groups.append(variants)
    # real files of the repository's own test data, compiled repeatedly with different settings
    td = os.path.join(REPO, "internal", "testdata")
    real_sets = [
        (["desc_test1.proto", "desc_test2.proto", "desc_test_complex.proto", "desc_test_options.proto",
          "desc_test_defaults.proto", "desc_test_field_types.proto", "desc_test_wellknowntypes.proto",
          "desc_test_proto3.proto", "desc_test_comments.proto", "desc_test_proto3_optional.proto"], [td]),
        (["test.proto", "options.proto"], [os.path.join(td, "options")]),
        (["test_proto3.proto", "options.proto"], [os.path.join(td, "options")]),
        (["test_editions.proto", "options.proto"], [os.path.join(td, "options")]),
        (["editions/all_default_features.proto", "editions/features_with_overrides.proto", "editions/file_default_delimited.proto"], [td]),
    ]
    real_sets = [(fs, paths) for fs, paths in real_sets if all(os.path.exists(os.path.join(paths[0], f)) for f in fs)]
    real_groups = []
    for fs, paths in real_sets:
        variants = []
        for v in range(ctx.budget(6, 40)):
            order = rng.shuffle(fs)
            variants.append({"mode": "real", "paths": paths, "files": order, "par": rng.choice([1, 2, 4, 16]),
                             "yield": rng.range(1, 1 << 30) if v % 2 else 0, "srcinfo": rng.choice([0, 1])})
        # keep srcinfo constant within a group: it legitimately changes the bytes
        si = variants[0]["srcinfo"]
        for v in variants:
            v["srcinfo"] = si
        real_groups.append(variants)
    ctx.rule = ("groups of 6 runs of the same generated import graph (2..8 files, optional missing-file or link fault) with the request "
                "permuted, MaxParallelism in {1,2,3,4,8,16}, yields on/off; plus the repository's own testdata file sets compiled "
                "repeatedly with permuted request, parallelism and yields; distinct = distinct (graph, request order, parallelism, "
                "yield seed); non-trivial = graph has an import edge or a real file set")
    flat = [v for g in groups for v in g]
    outs = ctx.impl("graphs", flat)
    terms, meta = [], []
    pos = 0
    for g, (n, imports, base_req, faults) in zip(groups, gmeta):
        os_ = outs[pos:pos + len(g)]
        pos += len(g)
        bad = [o for o in os_ if "crash" in o or "panic" in o or o.get("hang")]
        for v in g:
            ctx.count((n, imports, v["req"], v["par"], v["yield"]), any(imports), "generated")
        if bad:
            ctx.violation("hang-or-crash", "a run did not return", {"inputs": g, "observed": bad[0]})
            continue
        # direct oracle: all runs agree on success and on the bytes of each requested file
        oks = {o["ok"] for o in os_}
        if len(oks) != 1:
            ctx.violation("verdict-depends-on-schedule", "same graph, different success/failure across parallelism / order / schedule",
                          {"inputs": g, "observed": os_})
            continue
        if os_[0]["ok"]:
            per_file = {}
            for v, o in zip(g, os_):
                for r, h in zip(v["req"], o["descs"]):
                    per_file.setdefault(r, set()).add(h)
            diff = [r for r, hs in per_file.items() if len(hs) > 1]
            if diff:
                ctx.violation("bytes-depend-on-schedule", "descriptor bytes of a file differ between runs of the same input",
                              {"inputs": g, "file": diff[0]})
        sp = spec(n, imports, base_req, faults)
        for v, o in zip(g[:2], os_[:2]):
            terms.append(coq_case(n, imports, faults, v["req"], v["par"], o["ok"], None))
            meta.append((v, o, sp))
    for g in stress_groups:
        os_ = ctx.impl("graphs", g, shards=NCPU)
        ctx.count(("stress", g[0]["n"]), True, "stress-same-package")
        ctx.evaluations += len(g) - 1
        bad = [o for o in os_ if "crash" in o or "panic" in o or o.get("hang")]
        if bad:
            ctx.violation("hang-or-crash", "a run did not return", {"input": g[0], "observed": bad[0]})
        elif any(o["ok"] for o in os_):
            ctx.violation("verdict-depends-on-schedule", "files of one new package declaring the same symbol: the collision was missed in %d of %d "
                          "identical compilations" % (sum(1 for o in os_ if o["ok"]), len(os_)), {"input": g[0], "repeats": len(g)})
    flat_r = [v for g in real_groups for v in g]
    routs = ctx.impl("graphs", flat_r, shards=min(NCPU, max(1, len(flat_r))))
    pos = 0
    for g in real_groups:
        os_ = routs[pos:pos + len(g)]
        pos += len(g)
        for v in g:
            ctx.count(("real", tuple(v["files"]), v["par"], v["yield"]), True, "real-files")
        if any("crash" in o or "panic" in o for o in os_):
            ctx.violation("hang-or-crash", "a run crashed", {"inputs": g[0], "observed": os_[0]})
            continue
        if len({o["ok"] for o in os_}) != 1:
            ctx.violation("verdict-depends-on-schedule", "real files: success differs between runs", {"inputs": g, "observed": [o.get("err") for o in os_]})
            continue
        if not os_[0]["ok"]:
            ctx.notes.append("real file set does not compile: %s: %s" % (g[0]["files"], os_[0].get("err")))
            continue
        per_file = {}
        for v, o in zip(g, os_):
            for f, h in zip(v["files"], o["descs"]):
                per_file.setdefault(f, {}).setdefault(h, v)
        for f, hs in per_file.items():
            if len(hs) > 1:
                vs = list(hs.values())
                ctx.violation("real-bytes-differ:" + f, "descriptor bytes of %s differ between two compilations of the same sources" % f,
                              {"file": f, "run_a": vs[0], "run_b": vs[1],
                               "first_difference_at_byte": next((k for k, (a, b) in enumerate(zip(*list(hs.keys())[:2])) if a != b), -1) // 2})
    ctx.sample(flat[0]); ctx.sample(flat[-1]); 
    if flat_r:
        ctx.sample(flat_r[0])
    mism, err = coq_eval_mismatches("cases_C05", HEADER, terms, "exec_chk", shard_size=400)
    if err:
        raise RuntimeError(err)
    for k in mism:
        v, o, sp = meta[k]
        ctx.corr_break("compile-executor verdict", v, {"observed": {"ok": o["ok"], "err": o.get("err")}, "spec": sp})
