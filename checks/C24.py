"""C24 - Cloned parse results are independent deep copies."""
import os
from vlib import *
from termlib import clist, intern_numbers

ID = "C24"
# set to True (or VERIF_CLONE_REPAIRED=1) once parser.Clone keeps results without AST as such
REPAIRED = os.environ.get("VERIF_CLONE_REPAIRED", "1") == "1"
COQ_FILES = ["Common/Corr.v", "Model/Clone.v", "Proofs/Clone.v", "Props/C24.v", "Props/C24_repaired.v"]
PROPS = "Props/C24_repaired.v" if REPAIRED else "Props/C24.v"
THEOREMS_ASIS = ["C24_clone_index_complete_refuted", "C24_clone_index_complete_partial", "C24_clone_proto_equal",
                 "C24_clone_independent", "C24_clone_heap_independent", "C24_clone_index_fresh"]
THEOREMS_REPAIRED = ["C24r_clone_index_complete", "C24r_clone_proto_equal", "C24r_clone_independent",
                     "C24r_clone_heap_independent", "C24r_clone_index_fresh"]
THEOREMS = THEOREMS_REPAIRED if REPAIRED else THEOREMS_ASIS
AXIOMS_OK = []
TRUSTED = ["hand-written Gallina model of parser/clone.go and of the node index of parser/result.go (Model/Clone.v): one element type, "
           "the child collections walked per kind as a table, the index as a function from message objects (and the asExtsNode wrapper) to nodes",
           "proto.Clone is modelled by its contract: equal content, a distinct new object for every position",
           "correspondence harness (harness/cmd/clone): generic reflective walk over every message of both descriptors; Go pointers and AST "
           "nodes named by first-seen order"]
ASSUMPTIONS = ["proto.Clone (protobuf-go) returns a deep copy: same content, no object shared with the original or between positions",
               "AST nodes are immutable and shared between original and clone by design (Clone documents it); only proto messages and the index are mutable state",
               "Go map semantics: clone.nodes[k] = v overrides, lookups of absent keys give nil; the model's index is a function with pointwise update",
               "indexing cloneList[i] cannot go out of range because the clone has the shape of the original (the model stops at the shorter list)",
               "the foreign-Result path of Clone (no Clone method, not *result) rebuilds the result from the AST; it is exercised, not modelled: there "
               "synthetic nodes (map entry fields, proto3-optional oneofs) are re-created, and are accepted when type and token span agree"]

KEY_NOAST = "noast-clone-loses-placeholder-node"

# descriptor.proto field numbers -> (slot of the model, kind) per message type
SLOTS = {
    "FileDescriptorProto": {4: 0, 5: 1, 7: 2, 6: 3},
    "DescriptorProto": {2: 0, 8: 1, 5: 2, 9: 3, 3: 4, 4: 5, 6: 6},
    "EnumDescriptorProto": {2: 0, 4: 1},
    "ServiceDescriptorProto": {2: 0},
}
NSLOTS = {"FileDescriptorProto": 4, "DescriptorProto": 7, "EnumDescriptorProto": 2, "ServiceDescriptorProto": 1}
OPTS_FIELD = {"FileDescriptorProto": 8, "DescriptorProto": 7, "FieldDescriptorProto": 8, "OneofDescriptorProto": 2,
              "ExtensionRange": 3, "EnumDescriptorProto": 3, "EnumValueDescriptorProto": 3, "ServiceDescriptorProto": 3,
              "MethodDescriptorProto": 4}
CKIND = {"FileDescriptorProto": "CFile", "DescriptorProto": "CMsg", "FieldDescriptorProto": "CField", "OneofDescriptorProto": "COneof",
         "ExtensionRange": "CExtRange", "ReservedRange": "CMsgRR", "EnumDescriptorProto": "CEnum", "EnumValueDescriptorProto": "CEnumVal",
         "EnumReservedRange": "CEnumRR", "ServiceDescriptorProto": "CSvc", "MethodDescriptorProto": "CMethod"}


# ---------------------------------------------------------------- generation of .proto sources (parse level)
class Gen:
    def __init__(self, rng, syntax):
        self.rng, self.syntax, self.n = rng, syntax, 0

    def name(self, p):
        self.n += 1
        return "%s%d" % (p, self.n)

    def optname(self):
        rng = self.rng
        parts = []
        for _ in range(rng.range(1, 3)):
            if rng.chance(1, 2):
                parts.append("(%s%s)" % ("." if rng.chance(1, 5) else "", ".".join(self.rng.choice(["a", "b", "c.d"]) for _ in range(rng.range(1, 2)))))
            else:
                parts.append(rng.choice(["x", "y", "zz"]))
        if not parts[0].startswith("("):
            parts[0] = "(q)"
        return ".".join(parts)

    def optval(self):
        rng = self.rng
        return rng.choice(["1", "-2", "true", '"s"', "FOO", "1.5", "{ a: 1 b { c: 2 } }", "inf"])

    def stmts(self, ind, p=35, std=None):
        rng = self.rng
        s = ""
        if std and rng.chance(1, 4):
            s += "%soption %s;\n" % (ind, std)
        while rng.chance(p, 100):
            s += "%soption %s = %s;\n" % (ind, self.optname(), self.optval())
        return s

    def bracket(self, p=30, std=None):
        rng = self.rng
        o = []
        if std and rng.chance(1, 5):
            o.append(std)
        while rng.chance(p, 100):
            o.append("%s = %s" % (self.optname(), self.optval()))
        return " [%s]" % ", ".join(o) if o else ""

    def enum(self, ind):
        rng = self.rng
        n = self.name("E")
        s = "%senum %s {\n" % (ind, n) + self.stmts(ind + "  ", 25, "deprecated = true")
        for i in range(rng.range(1, 3)):
            s += "%s  %s_V%d = %d%s;\n" % (ind, n.upper(), i, i, self.bracket(25, "deprecated = true"))
        if rng.chance(1, 3):
            s += "%s  reserved %s;\n" % (ind, ", ".join(rng.shuffle(["10", "20 to 30", "40 to max", "-5 to -1"])[:rng.range(1, 3)]))
        if rng.chance(1, 5):
            s += '%s  reserved %s;\n' % (ind, '"OLD"' if self.syntax != "editions" else "OLD")
        return s + ind + "}\n"

    def field(self, ind, num, in_oneof=False):
        rng = self.rng
        t = rng.choice(["int32", "string", "bytes", "bool", "Other", ".pkg.Other", "double"])
        n = self.name("f")
        if in_oneof:
            label = ""
        elif self.syntax == "proto2":
            label = rng.choice(["optional ", "required ", "repeated "])
        elif self.syntax == "proto3":
            label = rng.choice(["", "", "optional ", "repeated "])
        else:
            label = rng.choice(["", "repeated "])
        std = rng.choice(["deprecated = true", 'json_name = "J%d"' % num, "lazy = true"])
        return "%s%s%s %s = %d%s;\n" % (ind, label, t, n, num, self.bracket(30, std))

    def msg(self, ind, depth):
        rng = self.rng
        n = self.name("M")
        s = "%smessage %s {\n" % (ind, n) + self.stmts(ind + "  ", 30, "deprecated = true")
        num = 1
        for _ in range(rng.range(0, 3)):
            s += self.field(ind + "  ", num)
            num += 1
        if rng.chance(1, 3):
            s += "%s  map<%s, %s> %s = %d%s;\n" % (ind, rng.choice(["string", "int32"]), rng.choice(["int32", "Other", "bytes"]),
                                                     self.name("mp"), num, self.bracket(25))
            num += 1
        if self.syntax == "proto2" and rng.chance(1, 3):
            s += "%s  optional group %s = %d%s {\n%s%s  }\n" % (ind, self.name("Grp"), num, self.bracket(20),
                                                                  self.field(ind + "    ", 1), ind)
            num += 1
        for _ in range(rng.choice([0, 0, 1, 2])):
            s += "%s  oneof %s {\n" % (ind, self.name("oo")) + self.stmts(ind + "    ", 30)
            for _ in range(rng.range(1, 3)):
                s += self.field(ind + "    ", num, True)
                num += 1
            if self.syntax == "proto2" and rng.chance(1, 4):
                s += "%s    group %s = %d { }\n" % (ind, self.name("OG"), num)
                num += 1
            s += ind + "  }\n"
        if self.syntax != "proto3":
            lo = 1000
            for _ in range(rng.choice([0, 0, 1, 2])):
                rs = []
                for _ in range(rng.range(1, 3)):
                    rs.append(rng.choice(["%d" % lo, "%d to %d" % (lo, lo + 5), "%d to max" % lo]) if False else
                              ("%d" % lo if rng.chance(1, 2) else "%d to %d" % (lo, lo + 5)))
                    lo += 10
                s += "%s  extensions %s%s;\n" % (ind, ", ".join(rs), self.bracket(45))
        lo = 100
        for _ in range(rng.choice([0, 0, 1, 2])):
            rs = []
            for _ in range(rng.range(1, 3)):
                rs.append("%d" % lo if rng.chance(1, 2) else "%d to %d" % (lo, lo + 3))
                lo += 10
            s += "%s  reserved %s;\n" % (ind, ", ".join(rs))
        if rng.chance(1, 5):
            s += '%s  reserved %s;\n' % (ind, '"old_name"' if self.syntax != "editions" else "old_name")
        if depth < 2:
            for _ in range(rng.choice([0, 0, 1, 2])):
                s += self.msg(ind + "  ", depth + 1)
        for _ in range(rng.choice([0, 0, 1])):
            s += self.enum(ind + "  ")
        if rng.chance(1, 4):
            s += self.extend(ind + "  ")
        return s + ind + "}\n"

    def extend(self, ind):
        rng = self.rng
        s = "%sextend %s {\n" % (ind, rng.choice(["Ext", ".pkg.Ext", "google.protobuf.FieldOptions"]))
        for _ in range(rng.range(1, 2)):
            num = 5000 + self.n
            label = "optional " if self.syntax == "proto2" else ("" if self.syntax == "editions" else "optional ")
            s += "%s  %s%s %s = %d%s;\n" % (ind, label, rng.choice(["int32", "Other"]), self.name("x"), num, self.bracket(30))
            self.n += 1
        if self.syntax == "proto2" and rng.chance(1, 4):
            s += "%s  optional group %s = %d { optional int32 gg = 1; }\n" % (ind, self.name("XG"), 5000 + self.n)
            self.n += 1
        return s + ind + "}\n"

    def service(self):
        rng = self.rng
        s = "service %s {\n" % self.name("S") + self.stmts("  ", 30, "deprecated = true")
        for _ in range(rng.range(0, 3)):
            a = ("stream " if rng.chance(1, 4) else "") + rng.choice(["Other", ".pkg.Other"])
            b = ("stream " if rng.chance(1, 4) else "") + "Other"
            body = self.stmts("    ", 35, "deprecated = true")
            s += "  rpc %s(%s) returns (%s)%s\n" % (self.name("R"), a, b, " {\n" + body + "  }" if body or rng.chance(1, 4) else ";")
        return s + "}\n"

    def file(self):
        rng = self.rng
        if self.syntax == "editions":
            s = 'edition = "2023";\n'
        else:
            s = 'syntax = "%s";\n' % self.syntax
        if rng.chance(3, 4):
            s += "package pkg;\n"
        if rng.chance(1, 3):
            s += 'import "other.proto";\n'
        s += self.stmts("", 40, 'java_package = "j"')
        decls = []
        for _ in range(rng.range(0, 3)):
            decls.append(self.msg("", 0))
        for _ in range(rng.choice([0, 1, 1, 2])):
            decls.append(self.enum(""))
        for _ in range(rng.choice([0, 0, 1])):
            decls.append(self.extend(""))
        for _ in range(rng.choice([0, 0, 1, 2])):
            decls.append(self.service())
        return s + "".join(rng.shuffle(decls))


CORPUS = [
    # every element kind once
    '''syntax = "proto2";
package p;
option java_package = "x";
option (fo).a.b = 1;
message M {
  option deprecated = true;
  optional int32 f = 1 [deprecated = true, (fx) = 2];
  map<string, int32> mp = 2;
  optional group G = 3 { optional int32 gi = 1; }
  oneof oo { option (oo_opt) = 1; int32 a = 4; string b = 5; }
  extensions 100 to 200, 300 [(xr) = 1, (xr2).y = {a: 1}];
  extensions 400;
  reserved 10 to 20, 30;
  reserved "zz";
  message N { enum E { option allow_alias = true; A = 0 [(ev) = 1]; B = 0; reserved 5 to 7; reserved "Q"; } }
  enum E2 { Z = 0; }
  extend M { optional int32 xm = 100 [(fx) = 3]; }
}
enum TE { option deprecated = true; T0 = 0; }
extend M { optional int32 top = 101; optional group TG = 102 { optional int32 q = 1; } }
service S { option deprecated = true; rpc R(M) returns (M) { option deprecated = true; option (mo).x = 1; } rpc R2(stream M) returns (stream M); }
''',
    # proto3: synthetic oneofs for optional fields, map with message value
    '''syntax = "proto3";
message M3 { optional int32 a = 1; optional string b = 2; int32 c = 3; oneof real { int32 d = 4; } map<int32, M3> m = 5; }
''',
    # smallest files
    'syntax = "proto3";\n',
    'syntax = "proto2";\nmessage A { extensions 1 to 5, 7, 9 to max [(o) = 1]; }\n',
    'edition = "2023";\nmessage A { int32 a = 1 [features.field_presence = IMPLICIT]; reserved old; }\nenum E { option features.enum_type = CLOSED; A = 1; }\n',
]


# ---------------------------------------------------------------- observations -> model terms
def parse_path(p):
    segs = []
    for s in p.split("/")[1:]:
        if "." in s:
            a, b = s.split(".")
            segs.append((int(a), int(b)))
        else:
            segs.append((int(s), None))
    return segs


def addr_term(a):
    return "(ad %d)" % a


def build_case(o, mode):
    """the observations of one run as a clone_case term, or None when the walk holds something the model has no place for"""
    elems = {e[0]: e for e in o["elems"]}
    kids = {}
    for e in o["elems"]:
        p = e[0]
        if p == "":
            continue
        parent = p.rsplit("/", 1)[0]
        kids.setdefault(parent, []).append(e)
    index, lookups = [], []

    def nopt(x):
        return "nn" if x < 0 else "(sn %d%%N)" % x

    def wrap(prefix, w):
        t = "PHere %s" % w
        for s, i in reversed(prefix):
            t = "PChild %d %d (%s)" % (s, i, t)
        return "(%s)" % t

    def elem(e, prefix):
        path, kind, oa, ca, on, cn, oe, ce = e
        if kind not in CKIND:
            raise KeyError(kind)
        if on >= 0:
            index.append("(ie (KMsg %s) %d%%N)" % (addr_term(oa), on))
        lookups.append("(lk %s %s)" % (wrap(prefix, "WSelf"), nopt(cn)))
        if kind == "ExtensionRange":
            if oe >= 0:
                index.append("(ie (KExts %s) %d%%N)" % (addr_term(oa), oe))
            lookups.append("(lk %s %s)" % (wrap(prefix, "WExts"), nopt(ce)))
        slots = [[] for _ in range(NSLOTS.get(kind, 0))]
        opts = "on"
        for k in kids.get(path, []):
            (num, idx) = parse_path(k[0])[-1]
            if num == OPTS_FIELD.get(kind) and idx is None:
                us = []
                if mode != "noast" and (k[4] >= 0 or k[5] >= 0):
                    raise KeyError("options message is indexed")
                for u in kids.get(k[0], []):
                    (n2, j) = parse_path(u[0])[-1]
                    if n2 != 999:
                        raise KeyError("message inside options: %s" % u[1])
                    if u[4] >= 0:
                        index.append("(ie (KMsg %s) %d%%N)" % (addr_term(u[2]), u[4]))
                    lookups.append("(lk %s %s)" % (wrap(prefix, "(WOpt %d)" % j), nopt(u[5])))
                    parts = []
                    for q in kids.get(u[0], []):
                        (n3, kk) = parse_path(q[0])[-1]
                        if n3 != 2:
                            raise KeyError("message inside uninterpreted option")
                        if q[4] >= 0:
                            index.append("(ie (KMsg %s) %d%%N)" % (addr_term(q[2]), q[4]))
                        lookups.append("(lk %s %s)" % (wrap(prefix, "(WPart %d %d)" % (j, kk)), nopt(q[5])))
                        parts.append("(pt %s)" % addr_term(q[2]))
                    us.append("(uo %s %s)" % (addr_term(u[2]), clist("PC", "PN", parts)))
                opts = "(os %s %s)" % (addr_term(k[2]), clist("UC", "UN", us))
            elif kind in SLOTS and num in SLOTS[kind] and idx is not None:
                s = SLOTS[kind][num]
                slots[s].append(elem(k, prefix + [(s, idx)]))
            elif kind == "FileDescriptorProto" and num == 9:
                continue   # source code info: no index entries, checked by the oracle only
            else:
                raise KeyError("unexpected child %s of %s" % (k[0], kind))
        return "(el %s %s %s %s)" % (CKIND[kind], addr_term(oa), opts, clist("SC", "SN", [clist("EC", "EN", sl) for sl in slots]))

    tree = elem(elems[""], [])
    if mode == "noast":
        placeholder = elems[""][4]
        return "CC %s false IN %s %s %s" % (coq_bool(REPAIRED), nopt(placeholder), tree, clist("LC", "LN", lookups))
    return "CC %s true %s nn %s %s" % (coq_bool(REPAIRED), clist("IC", "IN", index), tree, clist("LC", "LN", lookups))


HEADER = ("From Coq Require Import List NArith Bool.\nImport ListNotations.\n"
          "From PV Require Import Common.Corr Model.Clone.\n"
          "Definition ad (n : nat) : addr := (0%N, cons (SOpt n) nil).\n"
          "Definition sn (n : N) : option node := Some n. Definition nn : option node := None.\n"
          "Definition ie (k : key) (n : N) : key * node := (k, n).\n"
          "Definition IN : list (key * node) := nil. Definition IC (x : key * node) (l : list (key * node)) := cons x l.\n"
          "Definition lk (p : pos) (n : option node) : pos * option node := (p, n).\n"
          "Definition LN : list (pos * option node) := nil. Definition LC (x : pos * option node) (l : list (pos * option node)) := cons x l.\n"
          "Definition pt (a : addr) : addr * N := (a, 0%N).\n"
          "Definition PN : list (addr * N) := nil. Definition PC (x : addr * N) (l : list (addr * N)) := cons x l.\n"
          "Definition uo (a : addr) (ps : list (addr * N)) : uopt := UOpt a 0%N ps.\n"
          "Definition UN : list uopt := nil. Definition UC (x : uopt) (l : list uopt) := cons x l.\n"
          "Definition os (a : addr) (us : list uopt) : option opts := Some (a, 0%N, us). Definition on : option opts := None.\n"
          "Definition EN : list elem := nil. Definition EC (x : elem) (l : list elem) := cons x l.\n"
          "Definition SN : list (list elem) := nil. Definition SC (x : list elem) (l : list (list elem)) := cons x l.\n"
          "Definition el (k : ckind) (a : addr) (o : option opts) (ss : list (list elem)) : elem := Elem k a o 0%N ss.\n")

SYNTHETIC = ("*ast.SyntheticMapField", "*ast.SyntheticOneof", "*ast.SyntheticMapEntryNode", "*ast.SyntheticGroupMessageNode")


def oracle(ctx, case, o):
    mode = case["mode"]
    small = {"name": case["name"], "text": case["text"], "mode": mode}
    kinds = o["node_kinds"]
    for path, kind, oa, ca, on, cn, oe, ce in o["elems"]:
        if kind == "MISSING-IN-CLONE":
            ctx.violation("clone-proto-not-equal", "the clone's descriptor lacks the message at %s" % path, small)
            continue
        for what, a, b in (("Node", on, cn), ("ExtensionsNode", oe, ce)):
            if a == b:
                continue
            if mode == "noast":
                ctx.violation(KEY_NOAST, "the clone of a result without AST answers %s(%s at %s) with %s, the original with its placeholder %s"
                              % (what, kind, path or "/", "nil" if b < 0 else kinds[b], kinds[a]), dict(small, element=path, accessor=what))
            elif mode == "wrapped" and a >= 0 and b >= 0 and kinds[a] == kinds[b] and kinds[a].split(":")[0] in SYNTHETIC:
                continue   # re-created synthetic node of the same type over the same tokens
            else:
                ctx.violation("clone-lookup-differs:" + kind, "%s on the clone's %s at %s returns %s, on the original %s"
                              % (what, kind, path or "/", "nil" if b < 0 else kinds[b], "nil" if a < 0 else kinds[a]),
                              dict(small, element=path, accessor=what))
    for path, acc, msg in o["typed"]:
        key = KEY_NOAST if mode == "noast" else "clone-typed-lookup-panics:" + acc
        ctx.violation(key, "%s on the clone's message at %s panics: %s" % (acc, path or "/", msg), dict(small, element=path, accessor=acc))
    if not o["equal"] or not o["bytes_equal"]:
        ctx.violation("clone-proto-not-equal", "the clone's descriptor proto differs from the original's", small)
    if o["shared_ptrs"]:
        ctx.violation("clone-shares-proto-messages", "%d message objects are reachable from both descriptors" % o["shared_ptrs"], small)
    if not o["orig_after_mutation"]:
        ctx.violation("clone-shares-mutable-state", "mutating every field of the clone's descriptor changed the original's bytes", small)
    if not o["clone_after_mutation"]:
        ctx.violation("clone-shares-mutable-state", "mutating every field of the original's descriptor changed a clone's bytes", small)
    if o["cross_orig"]:
        ctx.violation("original-index-modified-by-clone", "the original's index answers for %d messages of the clone" % o["cross_orig"], small)
    if o["cross_clone"]:
        ctx.violation("clone-index-holds-original-messages", "the clone's index answers for %d messages of the original" % o["cross_clone"], small)
    if o["same_result"]:
        ctx.violation("clone-is-the-original", "Clone returned its argument", small)


def run(ctx):
    rng = ctx.rng
    cases = []
    for t in CORPUS:
        for mode in ("ast", "wrapped", "noast"):
            cases.append({"name": "c.proto", "text": t, "mode": mode})
    n = ctx.budget(230, 4000)
    for i in range(n):
        syntax = rng.choice(["proto2", "proto2", "proto3", "editions"])
        text = Gen(rng, syntax).file()
        mode = rng.choice(["ast"] * 7 + ["wrapped", "wrapped", "noast"])
        cases.append({"name": "g%d.proto" % i, "text": text, "mode": mode})
    e2e = [{"name": "e.proto", "text": 'syntax = "proto3";\n', "mode": "compile_noast"},
           {"name": "e.proto", "text": 'syntax = "proto3";\nmessage M { int32 a = 1; }\n', "mode": "compile_noast"}]
    ctx.rule = ("5 hand-written files (every element kind, proto3 optional, empty file, shared extension-range options, editions) x 3 modes + "
                "random files over proto2 / proto3 / editions 2023 with messages (fields, maps, groups, oneofs, extension ranges with options "
                "shared by several ranges, reserved ranges and names, nested messages and enums, extend blocks), enums (values, reserved ranges), "
                "extend blocks, services (methods, streams), options with multi-part names on every kind; mode ast (ResultFromAST, 70%), wrapped "
                "(foreign Result implementation, 20%), noast (ResultWithoutAST, 10%); distinct = distinct (text, mode); non-trivial = the file has "
                "at least one element besides the file itself")
    outs = ctx.impl("clone", cases + e2e)
    e2e_outs = outs[len(cases):]
    outs = outs[:len(cases)]
    terms, meta = [], []
    kinds_seen = {}
    for c, o in zip(cases, outs):
        if "parse_errors" in o:
            raise RuntimeError("generated file does not parse: %s\n%s" % (o["parse_errors"][:2], c["text"]))
        if "crash" in o or "panic" in o:
            ctx.corr_break("clone", c, o)
            ctx.violation("clone-panics", "parser.Clone (or a lookup on the original) panicked", {"case": c, "observed": o})
            continue
        ctx.count((c["text"], c["mode"]), len(o["elems"]) > 1, c["mode"])
        for e in o["elems"]:
            kinds_seen[e[1]] = kinds_seen.get(e[1], 0) + 1
        oracle(ctx, c, o)
        if c["mode"] in ("ast", "noast"):
            try:
                terms.append(build_case(o, c["mode"]))
                meta.append((c, o))
            except KeyError as ex:
                ctx.corr_break("clone:shape", {"text": c["text"], "mode": c["mode"]}, {"unmodelled": str(ex)})
    for c, o in zip(e2e, e2e_outs):
        ctx.count((c["text"], c["mode"]), True, "compile_noast")
        if o.get("compile") != "ok":
            ctx.violation(KEY_NOAST, "protocompile.Compiler given SearchResult{ParseResult: parser.ResultWithoutAST(fd)} fails: %s: %s"
                          % (o.get("compile"), o.get("message") or o), {"name": c["name"], "text": c["text"], "mode": c["mode"]})
    ctx.extra["element_kinds_walked"] = kinds_seen
    ctx.sample({"mode": "ast", "text": CORPUS[0]})
    ctx.sample({"mode": cases[-1]["mode"], "text": cases[-1]["text"][:1500]})
    # the model is evaluated inside coqc on the cases, in generation order (corpus first), that fit a budget of term
    # text (reading the terms is what costs time); every case was already judged by the direct oracle above
    budget = ctx.budget(1200000, 40000000)
    picked, used = [], 0
    for k, t in enumerate(terms):
        if used + len(t) <= budget:
            picked.append(k)
            used += len(t)
    ctx.extra["model_evaluated_in_coq"] = {"cases": len(picked), "of": len(terms), "term_bytes": used}
    header, pterms = intern_numbers(HEADER, [terms[k] for k in picked], "nat")
    size = max(1, (len(pterms) + NCPU - 1) // NCPU)
    mism, err = coq_eval_mismatches("cases_C24", header, pterms, "clone_chk", shard_size=size)
    if err:
        raise RuntimeError(err)
    for k in mism:
        c, o = meta[picked[k]]
        ctx.corr_break("clone:index", {"text": c["text"], "mode": c["mode"]}, {"elems": len(o["elems"])})
