"""C04 helper: transcribes the edition-default tables the code and the Go runtime use into Coq.

Sources (both inside the google.golang.org/protobuf module version pinned by the repository's go.mod):
  * types/descriptorpb/descriptor.pb.go -- the embedded raw descriptor of descriptor.proto. The linker reads
    the `edition_defaults` option of the FeatureSet fields from it (internal/editions.GetFeatureDefault).
  * internal/editiondefaults/editions_defaults.binpb -- the FeatureSetDefaults the runtime (protodesc /
    filedesc) resolves features with.
Python stdlib only; contains a minimal protobuf wire-format reader.
"""
import os, re, subprocess

FEATURES = ["field_presence", "enum_type", "repeated_field_encoding", "utf8_validation", "message_encoding", "json_format"]
FEATURE_ENUMS = {"field_presence": "FieldPresence", "enum_type": "EnumType", "repeated_field_encoding": "RepeatedFieldEncoding",
                 "utf8_validation": "Utf8Validation", "message_encoding": "MessageEncoding", "json_format": "JsonFormat"}
# the enum constants the Go code mentions: (Coq name, enum, value name)
CONSTS = [("FP_EXPLICIT", "FieldPresence", "EXPLICIT"), ("FP_IMPLICIT", "FieldPresence", "IMPLICIT"),
          ("FP_LEGACY_REQUIRED", "FieldPresence", "LEGACY_REQUIRED"),
          ("ET_OPEN", "EnumType", "OPEN"), ("ET_CLOSED", "EnumType", "CLOSED"),
          ("RFE_PACKED", "RepeatedFieldEncoding", "PACKED"), ("RFE_EXPANDED", "RepeatedFieldEncoding", "EXPANDED"),
          ("UTF8_VERIFY", "Utf8Validation", "VERIFY"), ("UTF8_NONE", "Utf8Validation", "NONE"),
          ("ME_LENGTH_PREFIXED", "MessageEncoding", "LENGTH_PREFIXED"), ("ME_DELIMITED", "MessageEncoding", "DELIMITED"),
          ("JF_ALLOW", "JsonFormat", "ALLOW"), ("JF_LEGACY_BEST_EFFORT", "JsonFormat", "LEGACY_BEST_EFFORT")]
EDITION_CONSTS = [("ED_PROTO2", "EDITION_PROTO2"), ("ED_PROTO3", "EDITION_PROTO3"), ("ED_2023", "EDITION_2023")]


# ------------------------------------------------------------------ wire format
def _varint(b, i):
    r, s = 0, 0
    while True:
        c = b[i]
        i += 1
        r |= (c & 0x7F) << s
        s += 7
        if c < 0x80:
            return r, i


def fields(b):
    """Yields (number, wiretype, value) of one message; value is int or bytes."""
    i = 0
    while i < len(b):
        tag, i = _varint(b, i)
        num, wt = tag >> 3, tag & 7
        if wt == 0:
            v, i = _varint(b, i)
        elif wt == 2:
            n, i = _varint(b, i)
            v = b[i:i + n]
            i += n
        elif wt == 1:
            v = b[i:i + 8]
            i += 8
        elif wt == 5:
            v = b[i:i + 4]
            i += 4
        else:
            raise RuntimeError("unsupported wire type %d" % wt)
        yield num, wt, v


def _all(b, num):
    return [v for n, _, v in fields(b) if n == num]


def _one(b, num, default=None):
    xs = _all(b, num)
    return xs[-1] if xs else default


def _i32(v):
    v &= (1 << 64) - 1
    return v - (1 << 64) if v >= (1 << 63) else v


# ------------------------------------------------------------------ Go string literal decoding
_SIMPLE = {"a": 7, "b": 8, "f": 12, "n": 10, "r": 13, "t": 9, "v": 11, "\\": 92, "'": 39, '"': 34}


def go_unquote(s):
    out = bytearray()
    i = 0
    while i < len(s):
        c = s[i]
        if c != "\\":
            out += c.encode("utf-8")
            i += 1
            continue
        e = s[i + 1]
        if e in _SIMPLE:
            out.append(_SIMPLE[e])
            i += 2
        elif e == "x":
            out.append(int(s[i + 2:i + 4], 16))
            i += 4
        elif e in "01234567":
            out.append(int(s[i + 1:i + 4], 8))
            i += 4
        elif e == "u":
            out += chr(int(s[i + 2:i + 6], 16)).encode("utf-8")
            i += 6
        elif e == "U":
            out += chr(int(s[i + 2:i + 10], 16)).encode("utf-8")
            i += 10
        else:
            raise RuntimeError("unknown Go escape \\%s" % e)
    return bytes(out)


def protobuf_module_dir(repo):
    gm = open(os.path.join(repo, "go.mod")).read()
    m = re.search(r"^\s*google\.golang\.org/protobuf\s+(v\S+)", gm, re.M)
    if not m:
        raise RuntimeError("go.mod does not name a google.golang.org/protobuf version")
    ver = m.group(1)
    cache = os.environ.get("GOMODCACHE")
    if not cache:
        try:
            cache = subprocess.run(["go", "env", "GOMODCACHE"], capture_output=True, text=True, timeout=60).stdout.strip()
        except Exception:
            cache = ""
    if not cache:
        cache = os.path.expanduser("~/go/pkg/mod")
    d = os.path.join(cache, "google.golang.org", "protobuf@" + ver)
    if not os.path.isdir(d):
        raise RuntimeError("module directory %s not found" % d)
    return d, ver


def raw_descriptor(moddir):
    src = open(os.path.join(moddir, "types", "descriptorpb", "descriptor.pb.go"), encoding="utf-8").read()
    m = re.search(r"const file_google_protobuf_descriptor_proto_rawDesc = \"\" \+\n((?:\t\".*\"(?: \+)?\n)+)", src)
    if not m:
        raise RuntimeError("raw descriptor literal not found in descriptor.pb.go")
    out = bytearray()
    for line in m.group(1).split("\n"):
        line = line.strip()
        if not line:
            continue
        if line.endswith(" +"):
            line = line[:-2]
        if not (line.startswith('"') and line.endswith('"')):
            raise RuntimeError("unexpected line in raw descriptor literal: %r" % line[:40])
        out += go_unquote(line[1:-1])
    return bytes(out)


def read_tables(repo):
    """Returns dict(version, editions{name:number}, enums{Enum:{VALUE:number}}, code{feature:[(edition,value)]},
    runtime[(edition,[six values or None])], rt_min, rt_max)."""
    moddir, ver = protobuf_module_dir(repo)
    fdp = raw_descriptor(moddir)
    # FileDescriptorProto: message_type = 4, enum_type = 5
    editions = None
    for e in _all(fdp, 5):
        if _one(e, 1).decode() == "Edition":
            editions = {_one(v, 1).decode(): _i32(_one(v, 2, 0)) for v in _all(e, 2)}
    fs = None
    for m in _all(fdp, 4):
        if _one(m, 1).decode() == "FeatureSet":
            fs = m
    if editions is None or fs is None:
        raise RuntimeError("Edition enum or FeatureSet message not found in the embedded descriptor")
    enums = {}
    for e in _all(fs, 4):  # DescriptorProto.enum_type = 4
        enums[_one(e, 1).decode()] = {_one(v, 1).decode(): _i32(_one(v, 2, 0)) for v in _all(e, 2)}
    code = {}
    numbers = {}
    for f in _all(fs, 2):  # DescriptorProto.field = 2
        name = _one(f, 1).decode()
        if name not in FEATURES:
            continue
        numbers[name] = _one(f, 3)
        opts = _one(f, 8, b"")  # FieldDescriptorProto.options = 8
        ents = []
        for d in _all(opts, 20):  # FieldOptions.edition_defaults = 20
            ed = _i32(_one(d, 3, 0))  # EditionDefault.edition = 3
            val = _one(d, 2, b"").decode()  # EditionDefault.value = 2
            en = enums[FEATURE_ENUMS[name]]
            if val not in en:
                raise RuntimeError("edition default %r of %s is not a value of %s" % (val, name, FEATURE_ENUMS[name]))
            ents.append((ed, en[val]))
        code[name] = ents
    for n in FEATURES:
        if n not in code:
            raise RuntimeError("feature %s not found in FeatureSet" % n)
    # runtime table
    binpb = open(os.path.join(moddir, "internal", "editiondefaults", "editions_defaults.binpb"), "rb").read()
    runtime = []
    for d in _all(binpb, 1):  # FeatureSetDefaults.defaults = 1
        ed = _i32(_one(d, 3, 0))  # FeatureSetEditionDefault.edition = 3
        vals = [None] * 6
        for part in (_one(d, 5, b""), _one(d, 4, b"")):  # fixed_features = 5, then overridable_features = 4
            for num, wt, v in fields(part):
                for k, n in enumerate(FEATURES):
                    if numbers[n] == num and wt == 0:
                        vals[k] = v
        runtime.append((ed, vals))
    return {"version": ver, "editions": editions, "enums": enums, "code": code, "runtime": runtime,
            "rt_min": _i32(_one(binpb, 4, 0)), "rt_max": _i32(_one(binpb, 5, 0))}


def tables_v(t):
    L = ["(* GENERATED on every run of bin/check C04 by checks/C04.py pregen (checks/featgen.py) from the",
         "   google.golang.org/protobuf module version named in the repository's go.mod (%s):" % t["version"],
         "   types/descriptorpb/descriptor.pb.go (embedded descriptor.proto: the edition_defaults options the linker reads) and",
         "   internal/editiondefaults/editions_defaults.binpb (the table the runtime reads). Do not edit. *)",
         "From Coq Require Import NArith List.", "Import ListNotations.", "Open Scope N_scope.", ""]
    for cn, en in EDITION_CONSTS:
        L.append("Definition %s : N := %d." % (cn, t["editions"][en]))
    known = sorted(v for v in t["editions"].values() if v >= 0)
    L.append("(* the numbers of descriptorpb.Edition_name: GetEditionDefaults computes defaults for these only *)")
    L.append("Definition known_editions : list N := [%s]." % "; ".join(str(v) for v in known))
    L.append("")
    for cn, en, vn in CONSTS:
        L.append("Definition %s : N := %d." % (cn, t["enums"][en][vn]))
    L.append("")
    L.append("(* per feature, the edition_defaults option of the FeatureSet field: (edition, value) in declaration order *)")
    for n in FEATURES:
        L.append("Definition code_defaults_%s : list (N * N) := [%s]." % (
            n, "; ".join("(%d, %d)" % (e, v) for e, v in t["code"][n])))
    L.append("")
    L.append("(* the runtime's FeatureSetDefaults: (edition, six values in the order field_presence, enum_type,")
    L.append("   repeated_field_encoding, utf8_validation, message_encoding, json_format; fixed merged with overridable) *)")
    rows = []
    for ed, vals in t["runtime"]:
        rows.append("  (%d, [%s])" % (ed, "; ".join("None" if v is None else "Some %d" % v for v in vals)))
    L.append("Definition rt_defaults_src : list (N * list (option N)) :=\n [\n" + ";\n".join(rows) + "\n ].")
    L.append("Definition rt_minimum_edition : N := %d." % t["rt_min"])
    L.append("Definition rt_maximum_edition : N := %d." % t["rt_max"])
    L.append("")
    return "\n".join(L)
