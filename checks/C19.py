"""C19 - Unused-import warnings are exact."""
import os
from vlib import *

ID = "C19"
# which marking rule the working tree is expected to follow: the code as it is (default), or the
# code after fixes/C19-exact-unused-imports.diff (VERIF_C19_MODEL=repaired)
REPAIRED = os.environ.get("VERIF_C19_MODEL", "as-is") == "repaired"
COQ_FILES = ["Common/Corr.v", "Model/Visibility.v", "Proofs/Visibility.v", "Model/Resolve.v",
             "Model/UnusedImports.v", "Proofs/UnusedImports.v", "Model/ExplicitFlag.v", "Proofs/ExplicitFlag.v", "Props/C19.v"]
if REPAIRED:
    # additional material, not part of the default check: the rule after the (not applied) repair
    COQ_FILES += ["Model/UnusedImportsFixed.v", "Proofs/UnusedImportsFixed.v", "Props/C19_repaired.v"]
PROPS = "Props/C19_repaired.v" if REPAIRED else "Props/C19.v"
THEOREMS = ["C19_repaired_unused_warning_iff_removable", "C19_repaired_needed_never_warned",
            "C19_repaired_same_answers"] if REPAIRED else ["C19_resolution_independent_of_unmarked_imports", "C19_unused_warning_sound", "C19_needed_never_warned",
            "C19_unused_warning_iff_removable_refuted", "C19_unused_warning_iff_removable_partial",
            "C19_warned_iff_never_first", "C19_mark_is_first_provider", "C19_marking_traversal_is_resolveInFile",
            "C19_reference_programs_are_go_resolve", "C19_checked_iff_requested", "C19_checked_independent_of_order_and_schedule",
            "C19_request_loop_needs_lock"]
AXIOMS_OK = []
TRUSTED = ["hand-written Gallina mirror of the usedImports marking in linker/resolve.go resolveInFile and of CheckForUnusedImports, "
           "on top of the C18 traversal model (Model/Visibility.v) and the C15 scoping model (Model/Resolve.v)",
           "the list of lookups a file makes (checks/C19.py renders each reference and states its channel: field type, extendee, "
           "rpc types, option extension name, extension name in a message literal, fileResolver lookups of the option interpreter)",
           "correspondence harness harness/cmd/unusedimports (compiles the file set, collects linker.ErrorUnusedImport warnings, "
           "recompiles the root without each import and compares deterministic-marshal bytes of the descriptors; mode multi: one Compile "
           "call for a list of requested files with filler files, MaxParallelism and yield-hook perturbation, against compiling each "
           "requested file alone)",
           "hand-written Gallina model of the explicitFile bookkeeping of compiler.go (Model/ExplicitFlag.v: compileLocked keeps an "
           "existing result; the request loop of Compile is one block under the executor lock)"]
ASSUMPTIONS = ["the symbols and packages of the compiled files are read from the compiled descriptors (harness facts); the import lists "
               "come from the generator and are cross-checked against the compiled Imports()",
               "removable in the theorems means: every lookup of every reference is answered by the same file with the same element; "
               "that the descriptors are then equal is exercised by the direct oracle (real recompilation), not proved",
               "the model is given, of every file, the package and those symbols whose full name ends (at a dot) with a reference as "
               "written or with its first component: no lookup the file makes can name any other symbol",
               "option-interpreter lookups that cannot mark anything new are not modelled (cloneInto re-decoding, lookups through descriptors)",
               "which files are checked at all: the schedule enters the model only as the order in which tasks ask for their imports; the "
               "interleavings actually explored on the implementation are those the Go scheduler produces under filler load, "
               "MaxParallelism 1/2/8/default and yield-hook perturbation (not exhaustive)"]

DESC = "google/protobuf/descriptor.proto"
ANYP = "google/protobuf/any.proto"
PKGS = ["", "p", "p.q", "p.q.r", "s", "p.t", "s.p"]
KIND = {"message": "KMessage", "enum": "KEnum", "service": "KService", "field": "KField", "extension": "KExtension",
        "enumvalue": "KEnumValue", "oneof": "KOneof", "method": "KMethod"}


def q(parent, n):
    return n if parent == "" else parent + "." + n


class Lib:
    def __init__(self, i, path, pkg):
        self.i, self.path, self.pkg = i, path, pkg
        self.imports = []      # (path, flag) flag in "", "public"
        self.lines = []
        self.msgs = []         # full names of messages usable as field/rpc types
        self.extendable = []   # full names of messages with an extension range
        self.enums = []        # (full name, a value name)
        self.opts = {}         # target kind -> [(extension full name, "int" | "msg" | "any")]
        self.optmsgs = []      # option value messages (extendable 100-199)
        self.inner = []        # extensions of option value messages: (full name)


def closure(paths, libs_by_path):
    """paths reachable from the given import list: the imports themselves and their public closure"""
    out = []
    todo = list(paths)
    while todo:
        p = todo.pop()
        if p in out or p not in libs_by_path:
            if p not in out and p in (DESC, ANYP):
                out.append(p)
            continue
        out.append(p)
        todo += [d for d, fl in libs_by_path[p].imports if fl == "public"]
    return out


def gen_libs(rng, n):
    libs = []
    for i in range(n):
        path = ("d/g%d.proto" % i) if rng.chance(1, 4) else ("g%d.proto" % i)
        libs.append(Lib(i, path, rng.choice(PKGS)))
    by_path = {l.path: l for l in libs}
    # library i may import libraries with a larger index
    for i in range(n - 1, -1, -1):
        l = libs[i]
        cand = [libs[j] for j in range(i + 1, n)]
        for c in cand:
            if rng.chance(1, 3):
                l.imports.append((c.path, "public" if rng.chance(1, 2) else ""))
        l.imports = rng.shuffle(l.imports)
        role = rng.choice(["plain", "plain", "opts", "opts", "inner", "empty"])
        vis = closure([p for p, _ in l.imports], by_path)
        optmsg_vis = [m for p in vis if p in by_path for m in by_path[p].optmsgs]
        if role == "inner" and not optmsg_vis:
            role = "plain"
        L = l.lines
        L.append('syntax = "proto2";')
        if l.pkg:
            L.append("package %s;" % l.pkg)
        if role == "opts":
            l.imports.append((DESC, "public" if rng.chance(1, 5) else ""))
            if rng.chance(1, 3):
                l.imports.append((ANYP, ""))
        for p, fl in l.imports:
            L.append('import %s"%s";' % (fl + " " if fl else "", p))
        if role == "empty":
            continue
        for k in range(rng.range(1, 2)):
            m = "M%d_%d" % (i, k)
            fq = q(l.pkg, m)
            L.append("message %s { optional int32 a = 1; message In { optional int32 b = 1; } enum K { KV%d_%d = 0; } extensions 100 to 199; }" % (m, i, k))
            l.msgs += [fq, fq + ".In"]
            l.extendable.append(fq)
            l.enums.append((fq + ".K", "KV%d_%d" % (i, k)))
        if rng.chance(1, 2):
            L.append("enum E%d { EV%d_0 = 0; EV%d_1 = 1; }" % (i, i, i))
            l.enums.append((q(l.pkg, "E%d" % i), "EV%d_1" % i))
        if role == "opts":
            tag = 50000 + 20 * i
            om = "OM%d" % i
            L.append("message %s { optional int32 a = 1; optional string s = 2; extensions 100 to 199; }" % om)
            l.optmsgs.append(q(l.pkg, om))
            L.append("extend google.protobuf.FieldOptions { optional int32 fo%d = %d; optional %s fm%d = %d; }" % (i, tag, om, i, tag + 1))
            l.opts["field"] = [(q(l.pkg, "fo%d" % i), "int"), (q(l.pkg, "fm%d" % i), "msg")]
            L.append("extend google.protobuf.MessageOptions { optional int32 mo%d = %d; optional %s mm%d = %d; }" % (i, tag, om, i, tag + 1))
            l.opts["message"] = [(q(l.pkg, "mo%d" % i), "int"), (q(l.pkg, "mm%d" % i), "msg")]
            L.append("extend google.protobuf.FileOptions { optional int32 fio%d = %d; }" % (i, tag))
            l.opts["file"] = [(q(l.pkg, "fio%d" % i), "int")]
            L.append("extend google.protobuf.MethodOptions { optional int32 mto%d = %d; }" % (i, tag))
            l.opts["method"] = [(q(l.pkg, "mto%d" % i), "int")]
            L.append("extend google.protobuf.EnumValueOptions { optional int32 evo%d = %d; }" % (i, tag))
            l.opts["enumvalue"] = [(q(l.pkg, "evo%d" % i), "int")]
            if (ANYP, "") in l.imports:
                L.append("extend google.protobuf.FieldOptions { optional google.protobuf.Any fa%d = %d; }" % (i, tag + 2))
                l.opts["field"].append((q(l.pkg, "fa%d" % i), "any"))
        if role == "inner":
            tgt = rng.choice(optmsg_vis)
            L.append("extend .%s { optional int32 in%d = %d; }" % (tgt, i, 100 + i))
            l.inner.append((q(l.pkg, "in%d" % i), tgt))
    return libs, by_path


def spellings(rng, fqn, rootpkg):
    """ways to write the reference: absolute, fully qualified, relative to a prefix of the root package"""
    out = ["." + fqn, fqn]
    rp = rootpkg.split(".") if rootpkg else []
    fc = fqn.split(".")
    k = 0
    while k < len(rp) and k < len(fc) - 1 and rp[k] == fc[k]:
        k += 1
        out.append(".".join(fc[k:]))
    return rng.choice(out)


def b(s):
    """a name as a Coq term: nm applied to the little-endian base-256 number of its bytes"""
    bs = s.encode()
    assert len(bs) <= 80 and 0 not in bs
    return "(nm %d)" % int.from_bytes(bs, "little") if bs else "[]"


class Root:
    def __init__(self):
        self.decls = []
        self.refs = []          # Coq ref terms
        self.channels = {}      # lib path -> set of channels through which something of that file is referenced
        self.fileopts = []
        self.n = 0


def use(root, rng, libs_by_path, vis_paths, rootpkg, self_msgs):
    """adds one declaration to the root that references something visible; returns False if nothing fits"""
    vis = [libs_by_path[p] for p in vis_paths if p in libs_by_path]
    u = root.n
    root.n += 1
    nest = rng.choice([[], [], ["W%d" % u], ["W%d" % u, "X"]])

    def path_term(pth):
        return "[%s]" % "; ".join(b(x) for x in pth)

    def wrap(pth, body):
        for m in reversed(pth):
            body = "message %s { %s }" % (m, body)
        return body

    def note(lib, ch):
        root.channels.setdefault(lib.path, set()).add(ch)

    ch = rng.choice(["type", "type", "enumdefault", "extendee", "rpc", "fopt", "fopt", "fmsg", "fmsgnested", "mopt", "fileopt",
                     "any", "plainopt", "methodopt", "self", "evopt"])
    if ch == "self":
        root.decls.append("message Own%d { optional int32 z = 1; }" % u)
        sp = rng.choice(["Own%d" % u, q(rootpkg, "Own%d" % u), "." + q(rootpkg, "Own%d" % u)])
        pth = nest + ["R%d" % u]
        root.decls.append(wrap(pth, "optional %s f = 1;" % sp))
        root.refs.append("RType %s %s" % (path_term(pth), b(sp)))
        return True
    if ch == "plainopt":
        if rng.chance(1, 2):
            root.fileopts.append('option java_package = "x%d";' % u)
            root.refs.append("RDesc %s" % b("google.protobuf.FileOptions"))
        else:
            pth = nest + ["R%d" % u]
            root.decls.append(wrap(pth, "optional int32 f = 1 [deprecated = true];"))
            root.refs.append("RDesc %s" % b("google.protobuf.FieldOptions"))
        return True
    if ch in ("type", "enumdefault"):
        cands = [(l, m, None) for l in vis for m in l.msgs] if ch == "type" else []
        cands += [(l, e, v) for l in vis for e, v in l.enums]
        if not cands:
            return False
        l, fq, val = rng.choice(cands)
        sp = spellings(rng, fq, rootpkg)
        pth = nest + ["R%d" % u]
        opt = ""
        if ch == "enumdefault" and val is not None:
            opt = " [default = %s]" % val
            root.refs.append("RDesc %s" % b("." + fq))
        root.decls.append(wrap(pth, "optional %s f = 1%s;" % (sp, opt)))
        root.refs.append("RType %s %s" % (path_term(pth), b(sp)))
        note(l, "field-type")
        return True
    if ch == "extendee":
        cands = [(l, m) for l in vis for m in l.extendable]
        if not cands:
            return False
        l, fq = rng.choice(cands)
        sp = spellings(rng, fq, rootpkg)
        pth = nest
        root.decls.append(wrap(pth, "extend %s { optional int32 x%d = %d; }" % (sp, u, 120 + u)))
        root.refs.append("RName %s %s" % (path_term(pth), b(sp)))
        note(l, "extendee")
        return True
    if ch in ("rpc", "methodopt"):
        cands = [(l, m) for l in vis for m in l.msgs]
        if not cands:
            return False
        l1, m1 = rng.choice(cands)
        l2, m2 = rng.choice(cands)
        s1, s2 = spellings(rng, m1, rootpkg), spellings(rng, m2, rootpkg)
        body = ";"
        svc = "S%d" % u
        if ch == "methodopt":
            oc = [(l, x) for l in vis for x, _ in l.opts.get("method", [])]
            if not oc:
                return False
            lo, x = rng.choice(oc)
            sx = spellings(rng, x, rootpkg)
            body = " { option (%s) = 1; }" % sx
            root.refs.append("RExt %s %s" % (path_term([svc]), b(sx)))
            root.refs.append("RDesc %s" % b("google.protobuf.MethodOptions"))
            note(lo, "option-name")
        root.decls.append("service %s { rpc Call(%s) returns (%s)%s }" % (svc, s1, s2, body))
        root.refs.append("RName %s %s" % (path_term([svc]), b(s1)))
        root.refs.append("RName %s %s" % (path_term([svc]), b(s2)))
        note(l1, "rpc-type")
        note(l2, "rpc-type")
        return True
    if ch == "evopt":
        oc = [(l, x) for l in vis for x, _ in l.opts.get("enumvalue", [])]
        if not oc:
            return False
        lo, x = rng.choice(oc)
        sx = spellings(rng, x, rootpkg)
        pth = nest
        root.decls.append(wrap(pth, "enum En%d { ENV%d = 0 [(%s) = 2]; }" % (u, u, sx)))
        root.refs.append("RExt %s %s" % (path_term(pth), b(sx)))
        root.refs.append("RDesc %s" % b("google.protobuf.EnumValueOptions"))
        note(lo, "option-name")
        return True
    if ch == "fileopt":
        oc = [(l, x) for l in vis for x, _ in l.opts.get("file", [])]
        if not oc:
            return False
        lo, x = rng.choice(oc)
        sx = spellings(rng, x, rootpkg)
        root.fileopts.append("option (%s) = %d;" % (sx, u))
        root.refs.append("RExt [] %s" % b(sx))
        root.refs.append("RDesc %s" % b("google.protobuf.FileOptions"))
        note(lo, "option-name")
        return True
    if ch == "mopt":
        oc = [(l, x, t) for l in vis for x, t in l.opts.get("message", []) if t == "int"]
        if not oc:
            return False
        lo, x, _ = rng.choice(oc)
        sx = spellings(rng, x, rootpkg)
        pth = nest
        root.decls.append(wrap(pth, "message R%d { option (%s) = 3; optional int32 f = 1; }" % (u, sx)))
        # the options of a message are resolved before its own scope is pushed
        root.refs.append("RExt %s %s" % (path_term(pth), b(sx)))
        root.refs.append("RDesc %s" % b("google.protobuf.MessageOptions"))
        note(lo, "option-name")
        return True
    # field options
    kinds = {"fopt": "int", "fmsg": "msg", "fmsgnested": "msg", "any": "any"}
    oc = [(l, x) for l in vis for x, t in l.opts.get("field", []) if t == kinds[ch]]
    if not oc:
        return False
    lo, x = rng.choice(oc)
    sx = spellings(rng, x, rootpkg)
    pth = nest + ["R%d" % u]
    if ch == "fopt":
        val = "(%s) = 5" % sx
    elif ch in ("fmsg", "fmsgnested"):
        # an extension of the option's message type, if one is visible
        om = lo.optmsgs[0]
        ic = [(l, n) for l in vis for n, tgt in l.inner if tgt == om]
        if ic and rng.chance(3, 4):
            li, n = rng.choice(ic)
            sn = spellings(rng, n, rootpkg)
            if ch == "fmsg":
                val = "(%s) = { a: 1 [%s]: 2 }" % (sx, sn)
                root.refs.append("RExt [] %s" % b(sn))          # message literal: file scope only
                note(li, "literal-extension-name")
            else:
                val = "(%s).(%s) = 2" % (sx, sn)
                root.refs.append("RExt %s %s" % (path_term(pth), b(sn)))
                note(li, "option-name")
        else:
            val = "(%s) = { a: 1 s: \"v\" }" % sx if ch == "fmsg" else "(%s).a = 7" % sx
    else:
        mc = [(l, m) for l in vis for m in l.msgs if not m.endswith(".In")]
        if not mc:
            return False
        lm, m = rng.choice(mc)
        val = "(%s) = { [type.googleapis.com/%s]: { a: 1 } }" % (sx, m)
        root.refs.append("RDesc %s" % b(m))
        note(lm, "any-type-url")
    root.decls.append(wrap(pth, "optional int32 f = 1 [%s];" % val))
    root.refs.append("RExt %s %s" % (path_term(pth), b(sx)))
    root.refs.append("RDesc %s" % b("google.protobuf.FieldOptions"))
    note(lo, "option-name")
    return True


def gen_case(rng, shape=None):
    libs, by_path = gen_libs(rng, rng.range(2, 6))
    rootpkg = rng.choice(PKGS)
    # imports of the root
    cand = [l.path for l in libs]
    k = rng.range(1, min(5, len(cand)))
    imps = rng.shuffle(cand)[:k]
    flags = {}
    for p in imps:
        r = rng.below(10)
        flags[p] = "public" if r < 2 else ("weak" if r == 2 else "")
    if rng.chance(1, 6):
        imps.insert(rng.below(len(imps) + 1), DESC)
        flags[DESC] = ""
    vis_paths = closure(imps, by_path)
    root = Root()
    for _ in range(rng.range(0, 5)):
        use(root, rng, by_path, vis_paths, rootpkg, [])
    return assemble(libs, rootpkg, imps, flags, root)


def assemble(libs, rootpkg, imps, flags, root):
    head = ['syntax = "proto2";']
    if rootpkg:
        head.append("package %s;" % rootpkg)
    imp_lines = ['import %s"%s";' % (flags[p] + " " if flags[p] else "", p) for p in imps]
    tail = root.fileopts + root.decls
    text = "\n".join(head + imp_lines + tail) + "\n"
    variants = {}
    for k, p in enumerate(imps):
        variants[p] = "\n".join(head + imp_lines[:k] + imp_lines[k + 1:] + tail) + "\n"
    files = {l.path: "\n".join(l.lines) + "\n" for l in libs}
    files["root.proto"] = text
    xs = set()
    for r in root.refs:
        # the last (nm N) of the term is the name as written
        n = int(r.rsplit("(nm ", 1)[1].rstrip(")"))
        nm = n.to_bytes((n.bit_length() + 7) // 8, "little").decode().lstrip(".")
        xs.add(nm)
        xs.add(nm.split(".")[0])
    return {"files": files, "root": "root.proto", "variants": variants, "_xs": sorted(xs),
            "_imps": [(p, flags[p]) for p in imps], "_refs": root.refs, "_libs": libs, "_channels": root.channels}


def hand(rootpkg, libs_text, imps, decls, refs, fileopts=()):
    """a hand-written case: libs_text {path: (text, [(import path, flag)])}"""
    class L:
        pass
    libs = []
    for p, (t, im) in libs_text.items():
        l = L()
        l.path, l.lines, l.imports = p, [t], im
        libs.append(l)
    r = Root()
    r.decls, r.refs, r.fileopts = list(decls), list(refs), list(fileopts)
    return assemble(libs, rootpkg, [p for p, _ in imps], dict(imps), r)


def corpus():
    P2 = 'syntax = "proto2";'
    out = []
    X = (P2 + " package p; message X { optional int32 a = 1; extensions 100 to 199; } enum E { E0 = 0; E1 = 1; }", [])
    A = (P2 + ' import public "x.proto";', [("x.proto", "public")])
    B = (P2 + ' import public "x.proto";', [("x.proto", "public")])
    tX = "RType [%s] %s" % (b("R"), b("p.X"))
    # the same element reachable through two imports: the first is marked, the second warned about
    out.append(hand("", {"x.proto": X, "a.proto": A, "b.proto": B}, [("a.proto", ""), ("b.proto", "")],
                    ["message R { optional p.X f = 1; }"], [tX]))
    # an import used only through another import's public re-export
    out.append(hand("", {"x.proto": X, "a.proto": A}, [("a.proto", ""), ("x.proto", "")],
                    ["message R { optional p.X f = 1; }"], [tX]))
    out.append(hand("", {"x.proto": X, "a.proto": A}, [("x.proto", ""), ("a.proto", "")],
                    ["message R { optional p.X f = 1; }"], [tX]))
    # the root's own public import provides it first: the later non-public import is unused
    out.append(hand("", {"x.proto": X, "a.proto": A}, [("a.proto", "public"), ("x.proto", "")],
                    ["message R { optional p.X f = 1; }"], [tX]))
    # unused public and weak imports
    out.append(hand("", {"x.proto": X, "a.proto": A}, [("a.proto", "public"), ("x.proto", "weak")],
                    ["message R { optional int32 f = 1; }"], []))
    # element defined in the file itself
    out.append(hand("p2", {"x.proto": X}, [("x.proto", "")], ["message X { }", "message R { optional X f = 1; }"],
                    ["RType [%s] %s" % (b("R"), b("X"))]))
    # package-name prefix: the lookup of the first component p.foo is answered by a.proto (sentinel)
    out.append(hand("p", {"a.proto": (P2 + " package p.foo.bar; message A { }", []),
                          "c.proto": (P2 + " package p.foo; message Msg { }", [])},
                    [("a.proto", ""), ("c.proto", "")], ["message R { optional foo.Msg f = 1; }"],
                    ["RType [%s] %s" % (b("R"), b("foo.Msg"))]))
    # descriptor.proto imported, only a plain option present
    out.append(hand("", {}, [(DESC, "")], ["message R { optional int32 f = 1; }"],
                    ["RDesc %s" % b("google.protobuf.FileOptions")], ['option java_package = "x";']))
    out.append(hand("", {}, [(DESC, "")], ["message R { optional int32 f = 1; }"], []))
    # duplicate-looking paths
    out.append(hand("", {"g1.proto": (P2 + " package p; message A { }", []), "d/g1.proto": (P2 + " package p; message B { }", [])},
                    [("g1.proto", ""), ("d/g1.proto", "")], ["message R { optional p.B f = 1; }"],
                    ["RType [%s] %s" % (b("R"), b("p.B"))]))
    # import used only inside an option value
    O = (P2 + ' package o; import "' + DESC + '"; message OM { optional int32 a = 1; extensions 100 to 199; } '
         "extend google.protobuf.FieldOptions { optional OM fm = 50001; }", [(DESC, "")])
    I = (P2 + ' package i; import "o.proto"; extend o.OM { optional int32 inner = 100; }', [("o.proto", "")])
    out.append(hand("", {"o.proto": O, "i.proto": I, "x.proto": X}, [("x.proto", ""), ("i.proto", ""), ("o.proto", "")],
                    ["message R { optional int32 f = 1 [(o.fm) = { [i.inner]: 2 }]; }"],
                    ["RExt [%s] %s" % (b("R"), b("o.fm")), "RExt [] %s" % b("i.inner"), "RDesc %s" % b("google.protobuf.FieldOptions")]))
    return out


# ---------------------------------------------------------------- several requested files in one Compile call
def gen_multi(rng, shape=None):
    """an import graph of real files m<i>.proto (i imports j only if i < j), most with an unused import of unused.proto, a
    request list (subset, any order, sometimes with repeats) with filler files somewhere in it"""
    n = rng.range(2, 7)
    mods = ["", "", "", "public", "public", "weak"]
    imports = {i: [] for i in range(n)}
    for i in range(n):
        for j in range(i + 1, n):
            if rng.chance(2, 5) or (j == i + 1 and rng.chance(1, 2)):
                imports[i].append((j, rng.choice(mods)))
    files = {"unused.proto": 'syntax = "proto3";\npackage unused;\nmessage U { string s = 1; }\n'}
    for i in range(n):
        L = ['syntax = "proto3";', "package m%d;" % i]
        il = ['import %s"m%d.proto";' % (fl + " " if fl else "", j) for j, fl in rng.shuffle(imports[i])]
        if rng.chance(5, 6):
            il.insert(rng.below(len(il) + 1), 'import "unused.proto";')
        L += il
        body = ["string s = 1;"]
        k = 2
        for j, fl in imports[i]:
            if rng.chance(3, 4):
                body.append("m%d.M%d f%d = %d;" % (j, j, k, k))
                k += 1
        L.append("message M%d { %s }" % (i, " ".join(body)))
        files["m%d.proto" % i] = "\n".join(L) + "\n"
    k = rng.range(2, n) if n > 2 else 2
    req_ids = sorted(rng.shuffle(list(range(n)))[:k])
    order = rng.choice(["importers-first", "importers-first", "random", "importees-first"])
    if order == "random":
        req_ids = rng.shuffle(req_ids)
    elif order == "importees-first":
        req_ids = req_ids[::-1]
    req = ["m%d.proto" % i for i in req_ids]
    if rng.chance(1, 8):
        req.insert(rng.below(len(req) + 1), rng.choice(req))            # the same file requested twice
    if rng.chance(1, 8):
        req.insert(rng.below(len(req) + 1), "unused.proto")
    fillers = rng.choice(shape or [0, 60, 300, 900, 2000])
    # the fillers go after the first requested file more often than anywhere else
    pos = 1 if rng.chance(1, 2) else rng.below(len(req) + 1)
    req.insert(pos, "@fill")
    return {"mode": "multi", "files": files, "req": req, "fillers": fillers, "par": rng.choice([0, 0, 1, 2, 8]),
            "yield": rng.range(1, 1 << 30) if rng.chance(1, 2) else 0, "rounds": 3,
            "_n": n, "_imports": imports, "_order": order}


def multi_corpus():
    U = 'syntax = "proto3";\npackage unused;\nmessage U { string s = 1; }\n'
    A = 'syntax = "proto3";\npackage m0;\nimport "m1.proto";\nimport "unused.proto";\nmessage M0 { m1.M1 f = 1; }\n'
    B = 'syntax = "proto3";\npackage m1;\nimport "unused.proto";\nmessage M1 { string s = 1; }\n'
    C = 'syntax = "proto3";\npackage m2;\nimport public "m1.proto";\nimport "m0.proto";\nimport "unused.proto";\nmessage M2 { m1.M1 f = 1; }\n'
    files = {"unused.proto": U, "m0.proto": A, "m1.proto": B, "m2.proto": C}
    out = []
    for req, fillers, par in ((["m0.proto", "@fill", "m1.proto"], 2500, 0), (["m0.proto", "@fill", "m1.proto"], 800, 2),
                              (["m1.proto", "@fill", "m0.proto"], 800, 0), (["m2.proto", "m0.proto", "@fill", "m1.proto", "m0.proto"], 1500, 8),
                              (["@fill", "m2.proto"], 40, 1), (["m0.proto", "m1.proto", "@fill"], 0, 1)):
        out.append({"mode": "multi", "files": files, "req": req, "fillers": fillers, "par": par, "yield": 0, "rounds": 3,
                    "_n": 3, "_imports": {0: [(1, "")], 1: [], 2: [(1, "public"), (0, "")]}, "_order": "hand"})
    return out


EF_HEADER = ("From Coq Require Import List NArith Bool.\nImport ListNotations.\n"
             "From PV Require Import Common.Corr Model.ExplicitFlag.\nOpen Scope N_scope.\n")


def run_multi(ctx):
    """which files are checked at all: in one Compile call for several files, every explicitly requested file gets exactly the
    warnings it gets when it is the only requested file, whatever the request order, MaxParallelism and schedule, and no other
    file gets any"""
    rng = ctx.rng
    cases = multi_corpus()
    for _ in range(ctx.budget(30, 600)):
        cases.append(gen_multi(rng))
    ins = [{k: v for k, v in c.items() if not k.startswith("_")} for c in cases]
    outs = ctx.impl("unusedimports", ins, shards=ctx.budget(4, 8))
    terms, meta = [], []
    for c, i, o in zip(cases, ins, outs):
        if "runs" not in o:
            ctx.corr_break("unusedimports:multi-harness", i, o)
            if "panic" in o or "crash" in o:
                ctx.violation("panic", "the compiler panicked or the harness crashed on a request for several files", {"input": i, "observed": o})
            continue
        if o["ref_errs"]:
            ctx.corr_break("unusedimports:multi-reference", i, {"ref_errs": o["ref_errs"]})
            continue
        real = [p for p in i["req"] if p != "@fill"]
        fid = {"m%d.proto" % k: k for k in range(c["_n"])}
        fid["unused.proto"] = c["_n"]
        # every file reached as an import of a requested file, in some order (the theorem says the order is irrelevant)
        reach, todo = [], [fid[p] for p in real if p != "unused.proto"]
        seen = set()
        while todo:
            a = todo.pop()
            if a in seen or a == c["_n"]:
                continue
            seen.add(a)
            for j, _ in c["_imports"][a]:
                reach.append(j)
                todo.append(j)
        for rn, r in enumerate(o["runs"]):
            ctx.count((tuple(sorted(i["files"].items())), tuple(i["req"]), i["fillers"], i["par"], i["yield"], rn), True,
                      "multi: fillers=%d par=%d %s%s" % (i["fillers"], i["par"], c["_order"], " yield" if i["yield"] else ""))
            replay = {"mode": "multi", "files": i["files"], "req": i["req"], "fillers": i["fillers"], "par": i["par"], "yield": i["yield"],
                      "rounds": i["rounds"], "round": rn, "warnings_when_requested_alone": o["ref"], "warnings_in_this_call": r["warned"],
                      "fillers_without_their_warning": r["fill_bad"], "note": "schedule dependent: replay several rounds"}
            if not r["ok"]:
                ctx.corr_break("unusedimports:multi-compile", replay, {"errs": r["errs"][:3]})
                continue
            for p in sorted(set(real)):
                got, want = r["warned"].get(p, []), o["ref"][p]
                if got == want:
                    continue
                if not got:
                    ctx.violation("explicit-file-not-checked", "an explicitly requested file with an unused import gets no unused-import "
                                  "warning when it is requested together with other files", dict(replay, file=p))
                elif len(got) > len(want) and sorted(set(got)) == want:
                    ctx.violation("duplicate-warning", "an explicitly requested file gets its unused-import warnings more than once",
                                  dict(replay, file=p))
                else:
                    ctx.violation("warnings-depend-on-request", "an explicitly requested file gets other unused-import warnings than when "
                                  "it is the only requested file", dict(replay, file=p))
            for p in sorted(r["warned"]):
                if p not in real:
                    ctx.violation("non-requested-file-warned", "a file that was not explicitly requested gets unused-import warnings",
                                  dict(replay, file=p))
            if r["fill_bad_n"]:
                ctx.violation("explicit-file-not-checked", "explicitly requested (filler) files with one unused import do not get exactly "
                              "that warning", dict(replay, file=r["fill_bad"][0], count=r["fill_bad_n"]))
            # correspondence with the explicitFile model: files whose check is observable = requested with a non-empty reference,
            # and every file that was not requested
            uni = sorted(set([fid[p] for p in set(real) if o["ref"][p]] + [k for k in range(c["_n"]) if "m%d.proto" % k not in real]))
            obs = sorted(fid[p] for p in r["warned"] if p in fid)
            terms.append("EC [%s] [%s] [%s] [%s]" % ("; ".join(str(fid[p]) for p in real), "; ".join(map(str, reach)),
                                                     "; ".join(map(str, uni)), "; ".join(map(str, obs))))
            meta.append(replay)
    mm, err = coq_eval_mismatches("cases_C19m", EF_HEADER, terms, "ef_chk", shard_size=400)
    if err:
        raise RuntimeError(err)
    for k in mm:
        ctx.corr_break("unusedimports:explicit-flag", meta[k], {"observed": meta[k]["warnings_in_this_call"]})
    ctx.sample({"req": ins[0]["req"], "fillers": ins[0]["fillers"], "files": ins[0]["files"]})
    return len(cases)


def world_term(case, facts):
    """Coq term of the world: import graph from the generator, symbols from the compiled descriptors"""
    paths = sorted(facts.keys())
    pid = {p: k for k, p in enumerate(paths)}
    imports = {case["root"]: [(p, fl == "public") for p, fl in case["_imps"]]}
    for l in case["_libs"]:
        imports[l.path] = [(p, fl == "public") for p, fl in l.imports]
    mism = None
    vs, tab = [], []
    for p in paths:
        fi = [(a, bool(pb)) for a, pb in facts[p]["imports"]]
        if p in imports:
            if imports[p] != fi:
                mism = (p, imports[p], fi)
            im = imports[p]
        else:
            im = fi           # descriptor.proto, any.proto
        if any(a not in pid for a, _ in im):
            return None, None, ("import missing from facts", p)
        vs.append("mkV %d [%s] [] [] []" % (pid[p], "; ".join("(%d, %s)" % (pid[a], coq_bool(pb)) for a, pb in im)))
        # only symbols a lookup of this file can name: every lookup asks for X or <scope>.X where X is
        # a reference as written (leading dot stripped) or its first component
        syms = [sy for sy in facts[p]["syms"] if any(sy[0] == x or sy[0].endswith("." + x) for x in case["_xs"])]
        tab.append("(%d, mkFile %s [%s])" % (pid[p], b(facts[p]["pkg"]),
                                            "; ".join("(%s, %s)" % (b(n), KIND[k]) for n, k in syms if k in KIND)))
    return "(mkW [%s] [%s])" % ("; ".join(vs), "; ".join(tab)), pid, mism


HEADER = ("From Coq Require Import List NArith ZArith Bool.\nImport ListNotations.\n"
          "From PV Require Import Common.Corr Model.Visibility Model.Resolve Model.UnusedImports%s.\nOpen Scope N_scope.\n"
          % (" Model.UnusedImportsFixed" if REPAIRED else ""))

CLASS = {1: "marked-by-options-type-lookup", 2: "first-of-several-providers", 3: "sole-provider-of-a-lookup"}


def run(ctx):
    rng = ctx.rng
    cases = corpus()
    for _ in range(ctx.budget(500, 12000)):
        cases.append(gen_case(rng))
    ins = [{k: v for k, v in c.items() if not k.startswith("_")} for c in cases]
    outs = ctx.impl("unusedimports", ins)
    terms, meta = [], []
    suspects = []       # (case index, dep) removable, not public, not warned
    for ci, (c, i, o) in enumerate(zip(cases, ins, outs)):
        if "crash" in o or "panic" in o:
            ctx.corr_break("unusedimports:harness", i, o)
            ctx.violation("panic", "the compiler panicked or the harness crashed on a generated file set", {"input": i, "observed": o})
            continue
        key = tuple(sorted(i["files"].items()))
        if not o["ok"]:
            ctx.count(key, False, "rejected")
            continue
        deps = o["deps"]
        flags = dict(c["_imps"])
        warned = o["warned"]
        ctx.count(key, len(deps) > 0, "imports=%d warned=%d" % (min(len(deps), 4), min(len(warned), 3)))
        replay = {"files": i["files"], "root": i["root"], "warned": warned}
        if deps != [p for p, _ in c["_imps"]]:
            ctx.corr_break("unusedimports:deps", replay, {"deps": deps})
            continue
        # ---- direct oracle: the property on the implementation
        if len(set(warned)) != len(warned):
            ctx.violation("duplicate-warning", "the same import is reported twice", replay)
        for w in warned:
            if w not in deps:
                ctx.violation("warning-names-non-dependency", "a warning names a file the root does not import", dict(replay, import_=w))
        for d in deps:
            v = o["variants"].get(d)
            if v is None:
                continue
            removable = v["ok"] and v["same"]
            public = flags[d] == "public"
            rp = dict(replay, import_=d, flag=flags[d], without_it={"compiles": v["ok"], "same_descriptor": v["same"], "errors": v["errs"][:2]},
                      referenced_through=sorted(c["_channels"].get(d, [])))
            if d in warned and public:
                ctx.violation("public-import-warned", "a public import is reported as unused", rp)
            elif d in warned and not removable:
                chans = sorted(c["_channels"].get(d, [])) or ["other"]
                ctx.violation("needed-import-warned:" + chans[0],
                              "an import is reported as unused although the file does not compile to the same descriptor without it", rp)
            elif d not in warned and not public and removable:
                suspects.append((ci, d, rp))
        # ---- correspondence: warnings of the model
        wt, pid, mism = world_term(c, o["facts"])
        if wt is None or mism is not None:
            ctx.corr_break("unusedimports:imports", replay, {"detail": str(mism)})
            continue
        if any(w not in pid for w in warned):
            continue
        terms.append("UC %s %d [%s] [%s]" % (wt, pid[i["root"]], "; ".join(c["_refs"]), "; ".join(str(pid[w]) for w in warned)))
        meta.append((ci, replay))
        c["_wt"], c["_pid"] = wt, pid
    for c in cases[:3] + cases[-2:]:
        ctx.sample({"root.proto": c["files"]["root.proto"], "imports": c["_imps"]})
    mism, err = coq_eval_mismatches("cases_C19", HEADER, terms, "ui_chk_r" if REPAIRED else "ui_chk", shard_size=ctx.budget(90, 250))
    if err:
        raise RuntimeError(err)
    broken = set()
    for k in mism:
        ci, replay = meta[k]
        broken.add(ci)
        ctx.corr_break("unusedimports:warnings", replay, {"observed_warnings": replay["warned"]})
    # ---- label what the oracle found with the model's reason for not warning
    ex_meta = []
    for ci, d, rp in suspects:
        c = cases[ci]
        if "_wt" not in c or d not in c["_pid"]:
            ctx.violation("removable-import-not-warned:unexplained", "an import that can be removed without changing the descriptor is not reported", rp)
            continue
        ex_meta.append((ci, d, rp))
    todo = list(range(len(ex_meta)))
    for cls in (2, 1, 3):              # most frequent first; what matches no class is class 0
        if not todo:
            break
        ex_terms = []
        for k in todo:
            ci, d, rp = ex_meta[k]
            c = cases[ci]
            ex_terms.append("XC %s %d [%s] %d %d" % (c["_wt"], c["_pid"][c["root"]], "; ".join(c["_refs"]), c["_pid"][d], cls))
        mm, err = coq_eval_mismatches("cases_C19x%d" % cls, HEADER, ex_terms, "ex_chk_r" if REPAIRED else "ex_chk", shard_size=ctx.budget(40, 250))
        if err:
            raise RuntimeError(err)
        mm = set(mm)
        rest = []
        for j, k in enumerate(todo):
            if j in mm:
                rest.append(k)
                continue
            ci, d, rp = ex_meta[k]
            ctx.violation("removable-import-not-warned:" + CLASS[cls],
                          "an import that can be removed without changing the descriptor is not reported (%s)" % CLASS[cls], rp)
        todo = rest
    for k in todo:
        # the model warns about it and the implementation does not
        ci, d, rp = ex_meta[k]
        ctx.violation("removable-import-not-warned:model-warns", "an import that can be removed without changing the descriptor is not "
                      "reported, and the marking rule of the model does report it", rp)
    nmulti = run_multi(ctx)
    ctx.rule = ("file sets: %d hand-picked (element reachable through two imports, import used only through another import's public "
                "re-export, own public import first, unused public/weak import, element defined in the file itself, package-name prefix "
                "lookup, descriptor.proto with and without a plain option, duplicate-looking paths, import used only inside a message "
                "literal) + random: 2-6 library files (packages with shared prefixes, public/non-public imports among them, roles plain / "
                "custom options / extension of an option message / empty) and a root with 1-5 imports in random order (public 20%%, weak "
                "10%%, descriptor.proto 17%%) and 0-5 references, each through one channel (field type, enum default, extendee, rpc types, "
                "option name on field/message/file/method/enum value, extension name in a message literal or nested option name, Any type "
                "URL, plain option, own type) with a random spelling (absolute, qualified, relative); every import of the root is removed "
                "in turn and the root recompiled; distinct = distinct file set; non-trivial = compiles and has an import; "
                "plus %d Compile calls for several files at once (import graphs of 2-7 files, most with an unused import, plain/public/weak "
                "edges; request list = subset in importers-first / random / importees-first order, sometimes a file twice or the unused "
                "leaf itself; 0-2500 filler files, each explicitly requested with one unused import, inserted after the first requested "
                "file or anywhere; MaxParallelism default/1/2/8; yield-hook perturbation in half of them; 3 rounds each), every file "
                "compared with its warnings when requested alone" % (len(corpus()), nmulti))
