"""Shared by C03 and C23 (source code info): gap extraction from the real lexer's item list, the
token-level view of a source (declaration-level tokens, span -> token mapping), a re-trivia generator
(arbitrary comment placement between the tokens of an accepted source), reference implementations in
Python of the two comment algorithms (used only to NAME a disagreement; the comparison that decides is
evaluated in coqc on Model/Comments.v and Model/ProtocComments.v), and Coq term writers."""
import os
from vlib import coq_N_list, coq_list, coq_bool, coq_opt

WS_NO_NL = (9, 11, 12, 13, 32)
# which of the three C03 repairs the tree under test contains.  They are in the repository (fix: commits
# e67d3d01 fix_ws, 574d1b31 fix_empty, 1915eb6c fix_sep), so all three is the default; VERIF_C03_CFG=pinned
# (or a comma separated subset) selects the model instance for a tree without them.
ALL_FIXES = ("fix_ws", "fix_empty", "fix_sep")
CFG = set(x for x in os.environ.get("VERIF_C03_CFG", ",".join(ALL_FIXES)).split(",") if x in ALL_FIXES)


# ---------------------------------------------------------------- token view of a lexed file
class Src:
    """data: bytes as lexed (BOM stripped); items from harness srcinfo: [off,len,isComment,sl,sc,el,ec,nlead,ntrail]."""

    def __init__(self, data, items):
        self.data = data
        self.items = items
        self.toks = [i for i, it in enumerate(items) if not it[2]]     # item indices of the tokens (EOF last)
        self.ttext = [bytes(data[items[i][0]:items[i][0] + items[i][1]]) for i in self.toks]
        self.bad = None
        self.start_at = {}
        self.end_at = {}
        for k, i in enumerate(self.toks):
            it = items[i]
            self.start_at.setdefault((it[3], it[4]), k)
            if it[1] > 0 or (it[5], it[6]) not in self.end_at:   # the empty EOF token never hides a real one
                self.end_at[(it[5], it[6])] = k
        self._decl_levels()
        self._gaps()

    def _decl_levels(self):
        """decl[k]: token k is a ';' '{' or '}' that ends a declaration / opens or closes a declaration
        block (not part of an option value). match[k]: partner brace of a declaration-level brace."""
        n = len(self.toks)
        self.decl = [False] * n
        self.match = {}
        stack = []  # (is_aggregate, token index)
        in_agg = 0
        for k, t in enumerate(self.ttext):
            prev = self.ttext[k - 1] if k > 0 else b""
            if t == b"{":
                agg = in_agg > 0 or prev in (b"=", b":", b",", b"[", b"<")
                stack.append((agg, k))
                if agg:
                    in_agg += 1
                else:
                    self.decl[k] = True
            elif t == b"}":
                if not stack:
                    continue
                agg, o = stack.pop()
                if agg:
                    in_agg -= 1
                else:
                    self.decl[k] = True
                    self.match[k] = o
                    self.match[o] = k
            elif t == b";" and in_agg == 0:
                self.decl[k] = True

    def next_kind(self, k):
        t = self.ttext[k]
        if k == len(self.toks) - 1 and len(t) == 0:
            return "eof"
        if t in (b"}", b"]", b")"):
            return "close"
        if t in (b",", b";"):
            return "sep"
        return "other"

    def _gaps(self):
        """gaps[k] = the gap before token k: dict(prev, items, nxt, cidx) ; items: ('L', text) ('B', text) ('N',)"""
        self.gaps = []
        data, items = self.data, self.items
        for k, i in enumerate(self.toks):
            lo = self.toks[k - 1] if k > 0 else -1
            pos = items[lo][0] + items[lo][1] if lo >= 0 else 0
            gi = []
            cidx = []
            for j in range(lo + 1, i + 1):
                it = items[j]
                for b in data[pos:it[0]]:
                    if b == 10:
                        gi.append(("N",))
                    elif b not in WS_NO_NL:
                        self.bad = "byte %d between items at offset %d is not whitespace" % (b, pos)
                if j < i:
                    raw = bytes(data[it[0]:it[0] + it[1]])
                    if raw[:2] == b"//":
                        gi.append(("L", raw[2:]))
                    elif raw[:2] == b"/*" and raw[-2:] == b"*/" and len(raw) >= 4:
                        gi.append(("B", raw[2:-2]))
                    else:
                        self.bad = "comment item %d has unexpected text %r" % (j, raw[:20])
                    cidx.append(j)
                pos = it[0] + it[1]
            self.gaps.append(dict(prev=(k - 1 if k > 0 else None), items=gi, nxt=self.next_kind(k), cidx=cidx))

    def span_tokens(self, span):
        """(start token, end token) of a location span, None where no token starts / ends there."""
        if len(span) == 3:
            a = (span[0] + 1, span[1] + 1)
            b = (span[0] + 1, span[2] + 1)
        elif len(span) == 4:
            a = (span[0] + 1, span[1] + 1)
            b = (span[2] + 1, span[3] + 1)
        else:
            return None, None
        return self.start_at.get(a), self.end_at.get(b)

    def trail_anchor(self, e):
        """the token whose following gap holds the trailing comment of a declaration ending at token e"""
        if self.ttext[e] == b"}" and self.decl[e] and e in self.match:
            return self.match[e]
        return e

    def nwc_gap(self, k):
        """protoc reads the gap before token k with NextWithComments (file start, or after a declaration-level ; { })"""
        return k == 0 or self.decl[k - 1]


def locs_by_anchor(src, locs):
    """standard-mode locations -> (lead[k] = [(d, l, loc index)] for locations starting at token k with a leading or
    detached comment, trail[k] = [(t, loc index)] for locations whose trailing anchor is token k and t is set,
    unmapped = indices of locations whose span does not start and end at token boundaries)"""
    lead, trail, unmapped = {}, {}, []
    for i, loc in enumerate(locs):
        if not loc["p"] and not loc["l"] and not loc["t"] and not loc["d"]:
            continue
        s, e = src.span_tokens(loc["s"])
        if s is None or e is None:
            unmapped.append(i)
            continue
        if loc["l"] is not None or loc["d"]:
            lead.setdefault(s, []).append((tuple(loc["d"]), loc["l"], i))
        if loc["t"] is not None:
            trail.setdefault(src.trail_anchor(e), []).append((loc["t"], i))
    return lead, trail, unmapped


# ---------------------------------------------------------------- reference implementations (diagnosis only)
def _units(items, nxt):
    """comment units with the newline that ends their line absorbed, and the remaining (blank) newlines"""
    out = []
    i = 0
    while i < len(items):
        it = items[i]
        if it[0] == "N":
            out.append(("N",))
            i += 1
            continue
        nl = i + 1 < len(items) and items[i + 1][0] == "N"
        out.append((it[0], it[1], nl))
        i += 2 if nl else 1
    return out


def go_ctext(kind, text, nl):
    if kind == "L":
        return text + (b"\n" if nl else b"")
    lines = text.split(b"\n")
    out = [lines[0]]
    for l in lines[1:]:
        j = 0
        while j < len(l) and l[j] in (WS_NO_NL if "fix_ws" in CFG else (32, 9)):
            j += 1
        if j == len(l):
            l = b""
        elif l[j] == 42:
            l = l[j + 1:]
        elif j > 0:
            l = l[j:]
        out.append(l)
    return b"\n".join(out)


def spec_ctext(kind, text, nl):
    if kind == "L":
        return text + (b"\n" if nl else b"")
    lines = text.split(b"\n")
    out = [lines[0]]
    for idx, l in enumerate(lines[1:]):
        j = 0
        while j < len(l) and l[j] in WS_NO_NL:
            j += 1
        if j < len(l) and l[j] == 42:
            j += 1
        out.append(l[j:])
    return b"\n".join(out)


def go_attr(has_prev, items, nxt, extra=False):
    """(trailing group, detached groups, leading group); a group is a list of (kind, text, nl)"""
    us = _units(items, nxt)
    cur = 0
    md = 0
    cms = []
    for u in us:
        if u[0] == "N":
            cur += 1
            if cms and cms[0]["blk"] and md > 0:
                md += 1
            continue
        blk = u[0] == "B"
        start = cur
        if blk:
            for _ in range(u[1].count(b"\n")):
                cur += 1
                if cms and cms[0]["blk"] and md > 0:
                    md += 1
        if not cms and start == 0:
            md += 1
        cms.append(dict(blk=blk, s=start, e=cur, u=u))
        if u[2]:
            cur += 1
            if cms[0]["blk"] and md > 0:
                md += 1
    trail, lead_lex = [], cms
    if has_prev and cms:
        c = cur
        if c == 0 and nxt == "eof":
            c += 1
        if c > 0 and md > 0 and ((not cms[0]["blk"]) or len(cms) > 1 or md > 1):
            trail, lead_lex = cms[:1], cms[1:]
    nstart = cur

    def group(cs):
        if not cs:
            return []
        gs, single, line, start = [], not cs[0]["blk"], cs[0]["e"], 0
        for i in range(1, len(cs)):
            c = cs[i]
            prevs, single = single, not c["blk"]
            if (not single) or prevs != single or c["s"] > line + 1:
                gs.append(cs[start:i])
                start = i
            line = c["e"]
        gs.append(cs[start:])
        return gs

    det = group(lead_lex)
    if has_prev and not trail and det:
        first, last = det[0][0], det[0][-1]
        if first["s"] > 1:
            pass
        elif len(det) > 1:
            trail, det = det[0], det[1:]
        elif last["e"] < nstart - 1:
            trail, det = det[0], []
        elif nxt in ("eof", "close") or (nxt == "sep" and (extra or "fix_sep" not in CFG)):
            if (not extra) and nxt != "eof" and first["s"] == 0 and last["e"] == nstart:
                pass
            else:
                trail, det = det[0], []
    lead = []
    if det:
        amb = False
        if len(det) == 1 and not trail and has_prev:
            if det[0][0]["s"] == 0 and det[0][-1]["e"] == nstart:
                amb = True
        if not amb and det[-1][-1]["e"] >= nstart - 1:
            det, lead = det[:-1], det[-1]
    f = lambda g: [c["u"] for c in g]
    return f(trail), [f(g) for g in det], f(lead)


def spec_attr(has_prev, items, nxt):
    us = _units(items, nxt)
    st = dict(buf=[], has=False, isline=False, can=True, num=0, ht=False, trailing=[], det=[])

    def flush():
        if st["has"]:
            if st["can"]:
                st["trailing"] = st["trailing"] + st["buf"]
                st["ht"], st["can"] = True, False
            else:
                st["det"].append(st["buf"])
            st["buf"], st["has"] = [], False
            st["num"] += 1

    def take(u):
        if u[0] == "L":
            if st["has"] and not st["isline"]:
                flush()
            st["has"], st["isline"] = True, True
        else:
            if st["has"]:
                flush()
            st["has"], st["isline"] = True, False
        st["buf"] = st["buf"] + [u]

    line, prev_line, tce = 0, 0, -1
    i = 0
    if not has_prev:
        st["can"], prev_line = False, -1
    else:
        if not us:
            return [], [], []
        u = us[0]
        i = 1
        if u[0] == "N":
            line += 1
        else:
            if u[0] == "L":
                tce = line
            take(u)
            if u[0] == "B":
                line += u[1].count(b"\n")
                tce = line
            if u[2]:
                line += 1
            flush()
    for u in us[i:]:
        if u[0] == "N":
            line += 1
            flush()
            st["can"] = False
        else:
            take(u)
            if u[0] == "B":
                line += u[1].count(b"\n")
            if u[2]:
                line += 1
    result = nxt != "eof"
    if (not result) or nxt == "close":
        flush()
    if result and (prev_line == line or tce == line):
        if st["num"] + (1 if st["has"] else 0) == 1:
            if st["ht"]:
                st["det"].insert(0, st["trailing"])
                st["trailing"] = []
            flush()
    return st["trailing"], st["det"], (st["buf"] if st["has"] else [])


def render(group, ctext):
    return b"".join(ctext(*u) for u in group)


def go_out(has_prev, items, nxt, extra=False):
    t, d, l = go_attr(has_prev, items, nxt, extra)
    f = lambda g: (render(g, go_ctext) or (None if "fix_empty" in CFG else b"")) if g else None
    return f(t), [render(g, go_ctext) for g in d], f(l)


def spec_out(has_prev, items, nxt):
    t, d, l = spec_attr(has_prev, items, nxt)
    f = lambda g: (render(g, spec_ctext) or None) if g else None
    return f(t), [render(g, spec_ctext) for g in d], f(l)


def classify(has_prev, items, nxt):
    """names the known classes in which the Go code and protoc (as specified) give a different result on a gap"""
    keys = set()
    us = [u for u in _units(items, nxt) if u[0] != "N"]
    ga, sa = go_attr(has_prev, items, nxt), spec_attr(has_prev, items, nxt)
    closer = nxt in ("eof", "close")
    if (ga[0] != sa[0]) or (not closer and ga != sa):
        keys.add("comment-before-separator-donated-to-previous-token" if nxt == "sep" else "attribution-differs")
    for u in us:
        if go_ctext(*u) != spec_ctext(*u):
            keys.add("block-comment-line-starts-with-cr-vt-ff")
        if spec_ctext(*u) == b"":
            keys.add("empty-comment-sets-field")
    return keys


# ---------------------------------------------------------------- Coq terms
def coq_gitem(it):
    if it[0] == "N":
        return "GNl"
    return "(%s %s)" % ("GLine" if it[0] == "L" else "GBlock", coq_N_list(it[1]))


def coq_nextk(k):
    return {"eof": "NEof", "close": "NCloser", "sep": "NSep", "other": "NOther"}[k]


def coq_gap(has_prev, items, nxt):
    return "(mkgap %s %s %s)" % (coq_bool(has_prev), coq_list(items, coq_gitem), coq_nextk(nxt))


def coq_text(b):
    return coq_N_list(b)


def coq_otext(b):
    return coq_opt(b, coq_text)


# ---------------------------------------------------------------- re-trivia generator
WORDS = [b"foo", b"bar", b"comment", b"x", b"the field", b"TODO(bob): fix", b"a-b", b"1 + 2", b"\xc3\xa9t\xc3\xa9", b"\xe4\xb8\xad\xe6\x96\x87",
         b"\xf0\x9f\x98\x80", b"tab\there", b"* star", b"**", b"/ slash", b"// inner", b"it's", b"\"q\"", b"{ } ; ]", b"@param"]


def _text(rng, n):
    return b" ".join(rng.choice(WORDS) for _ in range(n))


def gen_line_comment(rng):
    r = rng.below(20)
    if r == 0:
        return b"//"
    if r == 1:
        return b"///" + _text(rng, 1)
    if r == 2:
        return b"// /* not a block */"
    if r == 3:
        return b"//\t" + _text(rng, 2) + b"  "
    return b"//" + (b" " if rng.chance(4, 5) else b"") + _text(rng, rng.range(1, 4))


def gen_block_comment(rng, nl, allow_cr_lines):
    r = rng.below(24)
    if r == 0:
        return b"/**/"
    if r == 1:
        return b"/***/"
    if r == 2:
        return b"/* " + _text(rng, 2) + b" **/"
    if r < 12:
        return b"/*" + (b" " if rng.chance(3, 4) else b"") + _text(rng, rng.range(1, 3)) + (b" " if rng.chance(3, 4) else b"") + b"*/"
    # multi-line
    lines = [rng.choice([b"", b"*", b" " + _text(rng, 2)])]
    for _ in range(rng.range(1, 4)):
        k = rng.below(12)
        if k == 0:
            lines.append(b"")
        elif k == 1:
            lines.append(b"   ")
        elif k == 2:
            lines.append(b"\t* " + _text(rng, 2))
        elif k == 3:
            lines.append(b" *")
        elif k == 4:
            lines.append(b"  " + _text(rng, 2))
        elif k == 5:
            lines.append(_text(rng, 1))
        elif k == 6 and allow_cr_lines:
            lines.append(rng.choice([b"\x0b", b" \x0c x", b"\r"]) + _text(rng, 1))
        elif k == 7:
            lines.append(b" ** " + _text(rng, 1))
        else:
            lines.append(b" * " + _text(rng, rng.range(1, 3)))
    last = rng.choice([b" ", b"", b" *", b"\t", b"  " + _text(rng, 1) + b" "])
    lines.append(last)
    body = nl.join(lines)
    if body.endswith(b"/") or b"*/" in body or b"/*" in body:
        body = body.replace(b"*/", b"* /").replace(b"/*", b"/ *")
        if body.endswith(b"/"):
            body += b" "
    return b"/*" + body + b"*/"


def gen_trivia(rng, nl, rich, need_sep, last_gap, allow_cr_lines=True):
    """bytes to put between two tokens. rich: a declaration-level gap (comments likely)."""
    sp = lambda: rng.choice([b" ", b" ", b"  ", b"\t", b"    ", b" \t ", b" ", b"\x0c", b" \x0b"])
    p = rng.below(100)
    if not rich:
        if p < 55:
            return sp() if need_sep or rng.chance(1, 2) else b""
        if p < 75:
            return nl + sp()
        if p < 85:
            return sp() + gen_block_comment(rng, nl, allow_cr_lines) + sp()
        if p < 92:
            return sp() + gen_line_comment(rng) + nl + sp()
        if p < 96:
            return nl + nl + sp()
        return sp() + gen_block_comment(rng, nl, allow_cr_lines) + (b"" if not need_sep else b" ")
    if p < 8:
        return sp() if need_sep or rng.chance(1, 2) else b""
    if p < 18:
        return nl * rng.range(1, 3) + (sp() if rng.chance(1, 2) else b"")
    out = b""
    # what follows the previous token on its own line
    q = rng.below(10)
    if q < 3:
        out += nl * rng.range(1, 3)
    elif q < 5:
        out += sp()
    n = rng.range(1, 5) if rng.chance(3, 4) else rng.range(1, 2)
    for i in range(n):
        if rng.chance(1, 2):
            out += (sp() if rng.chance(1, 2) else b"") + gen_line_comment(rng)
            if last_gap and i == n - 1 and rng.chance(1, 3):
                return out           # line comment that ends the file without a newline
            out += nl
            if rng.chance(1, 4):
                out += nl * rng.range(1, 2)
        else:
            out += (sp() if rng.chance(1, 2) else b"") + gen_block_comment(rng, nl, allow_cr_lines)
            r = rng.below(10)
            if r < 5:
                out += (sp() if rng.chance(1, 3) else b"") + nl
                if rng.chance(1, 4):
                    out += nl * rng.range(1, 2)
            elif r < 8:
                out += sp()
    if need_sep and out[-1:] not in (b" ", b"\t", b"\n", b"/") and not out.endswith(b"*/"):
        out += b" "
    if rng.chance(1, 3):
        out += sp()
    return out


def needs_sep(a, b):
    """two token texts that would lex differently when written without anything between them"""
    if not a or not b:
        return False
    x, y = a[-1:], b[:1]
    word = lambda c: c.isalnum() or c in b"_.+-" or c >= b"\x80"
    if word(x) and word(y):
        return True
    if x == b"/" and y in (b"/", b"*"):
        return True
    return False


def retrivia(rng, src, crlf=None, bom=None, rich_all=False, cr_lines=True):
    """new source text with the same tokens as src and freshly generated whitespace and comments"""
    if crlf is None:
        crlf = rng.chance(1, 6)
    nl = b"\r\n" if crlf else b"\n"
    out = b""
    n = len(src.toks)
    for k in range(n):
        prev = src.ttext[k - 1] if k > 0 else b""
        t = src.ttext[k]
        last = k == n - 1
        rich = rich_all or src.nwc_gap(k) or rng.chance(1, 12)
        if k == 0:
            tr = gen_trivia(rng, nl, True, False, last, cr_lines) if rng.chance(2, 3) else b""
        else:
            tr = gen_trivia(rng, nl, rich, needs_sep(prev, t), last, cr_lines)
            if last and rng.chance(1, 2):
                tr = tr.rstrip(b" \t") if rng.chance(1, 2) else tr
        out += tr + t
    if bom if bom is not None else rng.chance(1, 25):
        out = b"\xef\xbb\xbf" + out
    return out


# ---------------------------------------------------------------- base sources
HAND = [
    b"""syntax = "proto2";
package a.b;
import "google/protobuf/descriptor.proto";
option java_package = "x.y";
extend google.protobuf.MessageOptions { optional Lit mo = 50001; repeated int32 ri = 50002; optional string so = 50003; }
extend google.protobuf.FieldOptions { optional Lit fo = 50001; }
message Lit { optional int32 a = 1; repeated string s = 2; optional Lit n = 3; repeated Lit rn = 4; map<string, int32> m = 5; }
message M { ;
  option (mo) = { a: 1 s: "x" s: "y" n { a: 2 rn: [{a: 3}, {a: 4 s: ["p", "q"]}] } m { key: "k" value: 7 } };
  option (ri) = 1; option (ri) = 2;
  option (so) = "abc" "def";
  option deprecated = true;
  optional int32 f1 = 1 [default = 7, json_name = "F", (fo) = { a: 9 }, deprecated = false];
  repeated string f2 = 2;
  required bytes f3 = 3 [default = "\\001x"];
  optional group G = 4 { optional int32 g1 = 1; }
  oneof o { string o1 = 5; group OG = 6 { optional bool og1 = 1; } int64 o2 = 7 [deprecated = true]; }
  map<int32, Lit> mp = 8;
  extensions 100 to 199, 300 to max [(eo) = 1];
  extensions 200;
  reserved 20, 30 to 40, 50 to 60;
  reserved "r1", "r2";
  message N { enum E { option allow_alias = true; Z = 0; Y = 0 [deprecated = true]; X = -1; reserved 5 to 9; reserved "Q"; } optional E e = 1 [default = X]; }
  extend M { optional N xn = 150; optional group XG = 151 { optional int32 q = 1; } }
}
extend google.protobuf.ExtensionRangeOptions { optional int32 eo = 50001; }
enum Top { T0 = 0; ; T1 = 1; }
;
service S {
  option deprecated = true;
  rpc A (M) returns (M.N);
  rpc B (stream M) returns (stream .a.b.M) { option deprecated = false; option idempotency_level = IDEMPOTENT; }
  rpc C (M) returns (M) {}
}
""",
    b"""syntax = "proto3";
import public "google/protobuf/empty.proto";
import weak "google/protobuf/any.proto";
import "google/protobuf/timestamp.proto";
message P3 { int32 a = 1; optional string b = 2; repeated P3 c = 3 [packed = false]; google.protobuf.Timestamp t = 4; google.protobuf.Empty e = 5;
  oneof k { int32 k1 = 6; P3 k2 = 7; } map<string, P3> m = 8; enum In { I0 = 0; } In i = 9; reserved 100; google.protobuf.Any y = 10; }
service Q { rpc R (google.protobuf.Empty) returns (P3); }
""",
    b"""edition = "2023";
package ed;
option features.field_presence = IMPLICIT;
message E1 { int32 a = 1 [features.field_presence = EXPLICIT]; string b = 2; reserved foo, bar; reserved 9; E1 d = 3 [features.message_encoding = DELIMITED];
  extensions 10 to 20; }
extend E1 { int32 x = 10; }
enum En { option features.enum_type = CLOSED; A = 1; B = 2; }
""",
    b"""message NoSyntax { optional int32 a = 1; }
""",
    # every index counter of the walk, with the other counters at different values at the same time
    b"""edition = "2023";
package idx.ed;
message A {
  reserved 1 to 5, 8;
  reserved foo, bar;
  int32 f1 = 10;
  reserved 20;
  reserved baz;
  message N1 { reserved n1a; reserved 1, 2, 3; reserved n1b, n1c; int32 x = 4; }
  enum E1 { reserved 5 to 9, 11; reserved EA, EB; E1_ZERO = 0; reserved 12; reserved EC; E1_ONE = 1; }
  map<string, int32> m1 = 11;
  message N2 { int32 y = 1; }
  oneof o1 { int32 a1 = 12; string a2 = 13; }
  extensions 100 to 110;
  int32 f2 = 14;
  oneof o2 { bool b1 = 15; }
  extensions 120, 130 to 140;
  enum E2 { E2_ZERO = 0; }
  map<int32, N2> m2 = 16;
  message N3 { reserved q; }
  extend A { int32 xa = 100; }
  extend A { int32 xb = 101; string xc = 102; }
}
message B { reserved b1; reserved 1; reserved b2, b3; reserved 2 to 3, 5; reserved b4; }
enum TopE { reserved T_A; reserved 10 to 20; TOP_ZERO = 0; reserved T_B, T_C; reserved 30; }
extend A { int32 t1 = 103; }
message C { int32 c = 1; reserved 7, 8, 9; reserved only; }
extend A { C t2 = 104; int32 t3 = 105; }
service S1 { rpc M1 (A) returns (B); option deprecated = true; rpc M2 (stream A) returns (C) { option deprecated = true; } rpc M3 (C) returns (C); }
service S2 { rpc M1 (B) returns (B); }
""",
    b"""syntax = "proto2";
package idx.p2;
import public "google/protobuf/empty.proto";
import "google/protobuf/any.proto";
import weak "google/protobuf/duration.proto";
import public "google/protobuf/timestamp.proto";
message A {
  reserved "foo", "bar";
  reserved 1 to 5, 8;
  optional int32 f1 = 10;
  reserved "baz";
  reserved 20;
  optional group G1 = 11 { optional int32 g = 1; reserved 5; reserved "gg"; }
  message N1 { reserved 1; reserved "a", "b"; reserved 2, 3; }
  map<string, int32> m1 = 12;
  oneof o1 { int32 a1 = 13; group G2 = 14 { optional int32 h = 1; } string a2 = 15; }
  enum E1 { reserved "EA"; reserved 5 to 9; E1_ZERO = 0; reserved "EB", "EC"; reserved 11, 12; }
  message N2 { optional int32 y = 1; }
  extensions 100 to 110;
  repeated group G3 = 16 { optional N2 n = 1; }
  extensions 120;
  extend A { optional int32 xa = 100; optional group XG = 101 { optional int32 q = 1; } }
  message N3 { }
  extend A { optional string xb = 102; }
  oneof o2 { bool b1 = 17; }
}
extend A { optional int32 t1 = 103; optional group TG = 104 { optional int32 r = 1; } }
message B { optional google.protobuf.Empty e = 1; optional google.protobuf.Any a = 2; optional google.protobuf.Timestamp t = 3; }
extend A { optional B t2 = 105; }
enum TopE { reserved 10 to 20; reserved "T_A"; TOP_ZERO = 0; reserved 30; reserved "T_B", "T_C"; }
service S1 { rpc M1 (A) returns (B); rpc M2 (A) returns (B) {} }
""",
    b"""syntax = "proto3";
package idx.p3;
message A {
  reserved 1, 2;
  reserved "x", "y", "z";
  optional int32 f1 = 10;
  oneof o1 { int32 a = 11; }
  optional string f2 = 12;
  map<int32, string> m = 13;
  message N { reserved "n"; reserved 1 to 3; }
  reserved 4 to 6;
  reserved "w";
  enum E { reserved 1; reserved "EA"; E_ZERO = 0; reserved 2 to 4; reserved "EB"; }
  oneof o2 { N b = 14; }
  N last = 15;
}
""",
    b"""syntax = "proto2";
message One { optional int32 a = 1; }""",
    # files whose last token is the semicolon of a top-level statement: only there is a comment before the end of
    # the file observable (as the trailing comment of that statement)
    b"""syntax = "proto3";
package tail.a;
message T1 { int32 a = 1; }
option java_package = "t";""",
    b"""syntax = "proto2";
message T2 { optional int32 a = 1; }
package tail.b;""",
    b"""edition = "2023";""",
    b"""syntax = "proto3";
message T3 { google.protobuf.Empty e = 1; }
import "google/protobuf/empty.proto";""",
]


def testdata_sources(repo):
    """single-file sources from the repository's testdata that compile on their own with the standard imports"""
    td = os.path.join(repo, "internal", "testdata")
    out = []
    for f in ("desc_test_defaults.proto", "desc_test_proto3_optional.proto", "desc_test_options.proto",
              "desc_test_field_types.proto", "desc_test_wellknowntypes.proto"):
        p = os.path.join(td, f)
        if os.path.exists(p):
            out.append((f, open(p, "rb").read()))
    return out


# ---------------------------------------------------------------- C23: well-formedness oracles on the implementation
def line_widths(data, lines):
    """display width (columns, 0-based exclusive end) of every line per ast.FileInfo.SourcePos: tab stops of 8,
    one column per UTF-8 start byte; lines = the lexer's line table"""
    out = []
    for i, st in enumerate(lines):
        en = lines[i + 1] if i + 1 < len(lines) else len(data)
        col = 0
        for b in data[st:en]:
            if b == 9:
                col += 8 - col % 8
            elif (b & 0xC0) != 0x80:
                col += 1
        out.append(col)
    return out


def span_problem(span, widths):
    if len(span) not in (3, 4):
        return "span has %d elements" % len(span)
    if any(x < 0 for x in span):
        return "negative span element"
    sl, sc = span[0], span[1]
    el, ec = (span[0], span[2]) if len(span) == 3 else (span[2], span[3])
    if (el, ec) < (sl, sc):
        return "span end (%d,%d) before start (%d,%d)" % (el, ec, sl, sc)
    if sl >= len(widths) or el >= len(widths):
        return "span line outside the file (%d lines)" % len(widths)
    if sc > widths[sl] or ec > widths[el]:
        return "span column outside its line"
    return None


def derivable_comments(src, ctext=go_ctext):
    """every text that combineComments can produce from a run of consecutive comments inside one gap"""
    out = set()
    for g in src.gaps:
        us = [u for u in _units(g["items"], g["nxt"]) if u[0] != "N"]
        for i in range(len(us)):
            acc = b""
            for j in range(i, len(us)):
                acc += ctext(*us[j])
                out.add(acc)
    return out


def is_prefix(p, q):
    return len(p) <= len(q) and q[:len(p)] == p


def span_key(s):
    return (s[0], s[1], s[0], s[2]) if len(s) == 3 else tuple(s)


def span_within(inner, outer):
    a, b = span_key(inner), span_key(outer)
    return (b[0], b[1]) <= (a[0], a[1]) and (a[2], a[3]) <= (b[2], b[3])


def c23_oracle(src, out, lines):
    """-> list of (key, what, detail) property failures on one compiled source (all four modes)"""
    fails = []
    widths = line_widths(src.data, lines)
    deriv = derivable_comments(src)
    locs = out["locs"]
    for mode in ("1", "2", "4", "6"):
        for i, loc in enumerate(locs[mode]):
            why = span_problem(loc["s"], widths)
            if why:
                fails.append(("span-malformed", why, dict(mode=mode, index=i, loc=loc)))
            for fld in ("l", "t"):
                if loc[fld] is not None and bytes.fromhex(loc[fld]) not in deriv:
                    fails.append(("comment-not-source-text", "%s comment is not a combination of source comments" % fld,
                                  dict(mode=mode, index=i, loc=loc)))
            for d in loc["d"]:
                if bytes.fromhex(d) not in deriv:
                    fails.append(("comment-not-source-text", "detached comment is not a combination of source comments",
                                  dict(mode=mode, index=i, loc=loc)))
            # the element the path names is the one the span shows: names and numbers (single-token spans)
            if "vn" in loc or "vi" in loc:
                st, en = src.span_tokens(loc["s"])
                if st is not None and st == en:
                    text = src.ttext[st]
                    if "vn" in loc:
                        want = bytes.fromhex(loc["vn"])
                        shown = text
                        if text[:1] in (b'"', b"'") and text[-1:] == text[:1] and b"\\" not in text:
                            shown = text[1:-1]
                        if shown != want and shown.lower() != want:      # a group's field is named in lower case
                            fails.append(("path-names-different-element", "the path leads to the name %r but the span shows %r" % (want, text),
                                          dict(mode=mode, index=i, loc=loc)))
                    else:
                        try:
                            t = text.decode()
                            num = int(t, 16) if t[:2].lower() == "0x" else int(t, 8) if (len(t) > 1 and t[0] == "0") else int(t)
                        except ValueError:
                            num = None
                        if num is not None and num != loc["vi"]:
                            fails.append(("path-names-different-element", "the path leads to the number %d but the span shows %r" % (loc["vi"], text),
                                          dict(mode=mode, index=i, loc=loc)))
        for i, why in out["badpaths"][mode]:
            fails.append(("path-names-no-element", why, dict(mode=mode, index=i, loc=locs[mode][i])))
    # extra comments: same locations, comments only added
    for std, ext in (("1", "2"), ("4", "6")):
        a, b = locs[std], locs[ext]
        if [(l["p"], l["s"]) for l in a] != [(l["p"], l["s"]) for l in b]:
            k = next((i for i in range(min(len(a), len(b))) if (a[i]["p"], a[i]["s"]) != (b[i]["p"], b[i]["s"])), min(len(a), len(b)))
            fails.append(("extra-comments-changes-locations", "modes %s and %s differ in paths/spans at index %d (%d vs %d locations)" % (std, ext, k, len(a), len(b)),
                          dict(std=a[k] if k < len(a) else None, ext=b[k] if k < len(b) else None)))
            continue
        for i, (x, y) in enumerate(zip(a, b)):
            for fld in ("l", "t"):
                if x[fld] is not None and y[fld] != x[fld]:
                    fails.append(("extra-comments-drops-comment", "%s comment of mode %s missing or changed in mode %s" % (fld, std, ext),
                                  dict(index=i, std=x, ext=y)))
            if x["d"] and y["d"] != x["d"]:
                fails.append(("extra-comments-drops-comment", "detached comments of mode %s missing or changed in mode %s" % (std, ext),
                              dict(index=i, std=x, ext=y)))
    # extra option locations: only adds, and only inside option values
    for std, ext in (("1", "4"), ("2", "6")):
        a, b = locs[std], locs[ext]
        j = 0
        added = []
        for y in b:
            if j < len(a) and all(a[j][f] == y[f] for f in ("p", "s", "l", "t", "d")):
                j += 1
            else:
                added.append(y)
        if j < len(a):
            fails.append(("extra-option-locations-loses-location", "location %d of mode %s is not in mode %s (in order)" % (j, std, ext),
                          dict(std=a[j])))
            continue
        for y in added:
            o = y.get("o", -1)
            ok = o >= 0 and len(y["p"]) >= o + 3
            if ok:
                ok = any(is_prefix(x["p"], y["p"]) and len(x["p"]) >= o + 2 and len(x["p"]) < len(y["p"]) + (1 if x["p"][:-1] == y["p"][:-1] else 0)
                         and span_within(y["s"], x["s"]) for x in a if x.get("o", -1) == o) or \
                     any(x["p"][:-1] == y["p"][:-1] and len(x["p"]) >= o + 2 and span_within(y["s"], x["s"]) for x in a if x.get("o", -1) == o)
            if not ok:
                fails.append(("extra-option-location-outside-option-value", "added location is not inside an option value", dict(ext=y)))
    return fails


# ---------------------------------------------------------------- exhaustive small domain
def small_gap_shapes(maxlen):
    """every sequence of at most maxlen items over: newline, line comment (with its newline), one-line block
    comment, two-line block comment"""
    import itertools
    out = []
    for n in range(maxlen + 1):
        out += list(itertools.product("NLBM", repeat=n))
    return out


def render_shape(shape, tag):
    out = b""
    for i, it in enumerate(shape):
        if it == "N":
            out += b"\n"
        elif it == "L":
            out += b" // l%d%s\n" % (i, tag)
        elif it == "B":
            out += b" /* b%d%s */" % (i, tag)
        else:
            out += b" /* m%d%s\n  * more */" % (i, tag)
    return out + b" "


def exhaustive_sources(maxlen, per_file=50):
    """files in which every small gap shape occurs between two declarations, before a closing brace, and before
    an empty statement; and once each at the end of the file"""
    shapes = small_gap_shapes(maxlen)
    files = []
    for lo in range(0, len(shapes), per_file):
        chunk = shapes[lo:lo + per_file]
        src = b"syntax = \"proto2\";\nmessage M {\n  optional int32 f0 = 1;"
        n = 1
        for k, sh in enumerate(chunk):
            n += 1
            src += render_shape(sh, b"a%d" % k) + b"optional int32 f%d = %d;" % (n, n)
        src += b"\n}\n"
        for k, sh in enumerate(chunk):
            src += b"message C%d { optional int32 x = 1;" % k + render_shape(sh, b"c%d" % k) + b"}\n"
            src += b"message S%d { optional int32 x = 1;" % k + render_shape(sh, b"s%d" % k) + b"; }\n"
        files.append(src)
    for sh in shapes[:: max(1, len(shapes) // 40)]:
        files.append(b"syntax = \"proto2\";\nmessage E { optional int32 x = 1; }" + render_shape(sh, b"e").rstrip(b" "))
    return files


# ---------------------------------------------------------------- the two ends of the file
# top-level statements that end with ';' : the gap between the last one and the end of the file is the only place
# where a comment before the end of the file is observable (the trailing comment of that statement; protoc drops
# what follows a closing brace)
EOF_PREFIXES = [
    b"syntax = \"proto2\";",
    b"syntax = \"proto2\";\npackage eof.pkg;",
    b"syntax = \"proto3\";\nimport \"google/protobuf/empty.proto\";",
    b"syntax = \"proto2\";\noption java_package = \"x.y\";",
    b"edition = \"2023\";",
    b"syntax = \"proto2\";\nmessage M { optional int32 x = 1; }\noption deprecated = true;",
    b"message NoSyntax { optional int32 x = 1; }\npackage eof.nosyntax;",
]
# first declarations of a file: the gap before them has no previous token
FILE_HEADS = [
    b"syntax = \"proto2\";\nmessage M {}\n",
    b"package p.q;\n",
    b"import \"google/protobuf/empty.proto\";\n",
    b"option java_package = \"x\";\n",
    b"message M { optional int32 a = 1; }\n",
    b"enum E { A = 0; }\n",
    b"service S {}\n",
    b"edition = \"2023\";\npackage p;\n",
    b"extend M { optional int32 e = 100; } message M { extensions 100; }\n",
]
BOM = b"\xef\xbb\xbf"


def eof_tails(body):
    """the ways a file can end after the comments and newlines of its last gap: as rendered (a final newline if the
    last item is a line comment or a newline), the final newline missing (a line comment ended by the end of the
    file), only blanks / a lone carriage return after that, and the CRLF forms"""
    nonl = body[:-1] if body.endswith(b"\n") else body
    crlf = lambda b: b.replace(b"\n", b"\r\n")
    out = []
    for t in (body, nonl, nonl + b" \t ", nonl + b"\r", crlf(body), crlf(nonl), nonl + b"\n \t", crlf(nonl) + b"\r\n\r\n"):
        if t not in out:
            out.append(t)
    return out


def edge_sources(maxlen):
    """every small gap shape (small_gap_shapes) at the two ends of a file:
       - between the last top-level statement that ends with a semicolon (syntax, edition, package, import, option)
         and the end of the file, with every way of ending the file (eof_tails), with and without byte order mark;
       - before the first declaration of the file (no previous token), LF and CRLF, with and without byte order mark;
       - as the whole file (no token at all);
       - the in-body arrangements of exhaustive_sources for shapes of at most two items, in a CRLF file."""
    shapes = small_gap_shapes(maxlen)
    files = []
    n = 0
    for si, sh in enumerate(shapes):
        body = render_shape(sh, b"e").rstrip(b" ")
        for ti, tail in enumerate(eof_tails(body)):
            # short shapes: every statement kind; longer ones: the kinds in rotation
            kinds = range(len(EOF_PREFIXES)) if len(sh) <= 1 else [n % len(EOF_PREFIXES)]
            for pi in kinds:
                n += 1
                f = EOF_PREFIXES[pi] + tail
                if b"\r\n" in tail:
                    f = f.replace(b"\n", b"\r\n").replace(b"\r\r\n", b"\r\n")
                files.append(BOM + f if n % 5 == 0 else f)
    for si, sh in enumerate(shapes):
        body = render_shape(sh, b"h")
        head = FILE_HEADS[si % len(FILE_HEADS)]
        files.append(body + head)
        files.append(BOM + body + head)
        files.append((body + head).replace(b"\n", b"\r\n"))
        if len(sh) <= 1:
            for h in FILE_HEADS:
                files.append(BOM + body + h)
                files.append((body + h).replace(b"\n", b"\r\n"))
        if len(sh) <= 2:
            whole = body.rstrip(b" ")
            for t in eof_tails(whole):
                files.append(t)
            files.append(BOM + whole)
    for f in exhaustive_sources(min(maxlen, 2)):
        files.append(f.replace(b"\n", b"\r\n"))
    seen, out = set(), []
    for f in files:
        if f not in seen:
            seen.add(f)
            out.append(f)
    return out
