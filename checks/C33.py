"""C33 - The incremental executor memoizes and invalidates exactly."""
import os
from inclib import *

ID = "C33"
COQ_FILES = ["Model/IncExec.v", "Proofs/IncExec1.v", "Proofs/IncExec2.v", "Proofs/IncExec3.v", "Proofs/IncExec4.v",
             "Common/Corr.v", "Props/C33.v"]
PROPS = "Props/C33.v"
THEOREMS = ["C33_at_most_once_between_evictions", "C33_run_returns_fresh_values", "C33_memoized_values_fresh",
            "C33_execute_sees_fresh_values", "C33_evict_closure_exact", "C33_changed_flag_consistent",
            "C33_changed_iff_computed_this_run", "C33_result_stamped_by_its_run", "C33_memoized_result_stable"]
AXIOMS_OK = []
TRUSTED = TRUSTED_INC
ASSUMPTIONS = ["queries are deterministic functions of their own input and of what Resolve returned, and the sequence of their "
               "Resolve calls is a function of their own input (Model/IncExec.v world); an input only changes together with "
               "an Evict of its key (event EEdit)",
               "C33 is about queries that do not panic (hypothesis wpanic = None in every theorem); panics and cancellation are C34",
               "Evict / Edit happen while no goroutine of an earlier Run is still executing (the dirty lock plus: a cancelled Run "
               "has no stragglers; without panics a Run never returns before its goroutines)",
               "the values theorems need an acyclic dependency function (a rank that every dependency decreases); cyclic graphs are C34"]

ALPH_CACHE = {}
# histories in which the key given to EvictWithCleanup has no task yet when the call starts and the in-flight Run creates it:
# the pinned tree looked the tasks up BEFORE taking the dirty lock and lost such an eviction (repaired by /repo commit d302b87a;
# fixes/C33-evict-lookup-under-lock.diff); the stratum is on by default, VERIF_C33_PRELOCK=0 turns it off
PRELOCK_LOOKUP_CASES = os.environ.get("VERIF_C33_PRELOCK", "1") == "1"


def alphabet(n):
    if n not in ALPH_CACHE:
        ops = [{"op": "run", "keys": [k]} for k in range(n)] + [{"op": "run", "keys": list(range(n))}]
        if n >= 2:
            ops.append({"op": "par", "runs": [[0], [n - 1]], "delays_us": [0, 0]})
            ops.append({"op": "par", "runs": [list(range(n)), list(range(n))], "delays_us": [0, 30]})
        ops += [{"op": "evict", "keys": [k]} for k in range(n)]
        ops += [{"op": "edit", "keys": [k], "vals": [100 + 7 * k]} for k in range(n)]
        ALPH_CACHE[n] = ops
    return ALPH_CACHE[n]


def run(ctx):
    rng = ctx.rng
    cases = []
    # corpus: the shape of the repository's own test (diamond over a shared root, evict a leaf), a chain, a wide fan-out
    corpus = [
        mk_case(4, [[[1, 2]], [[3]], [[3]], []], [{"op": "run", "keys": [0]}, {"op": "evict", "keys": [2]},
                                                  {"op": "run", "keys": [0]}, {"op": "edit", "keys": [3], "vals": [5]},
                                                  {"op": "run", "keys": [1]}, {"op": "run", "keys": [0]}], 4),
        mk_case(5, [[[1]], [[2]], [[3]], [[4]], []], [{"op": "run", "keys": [0]}, {"op": "edit", "keys": [2], "vals": [9]},
                                                      {"op": "run", "keys": [3]}, {"op": "run", "keys": [0]}], 1),
        mk_case(6, [[[1, 2, 3, 4, 5]], [], [], [], [], []],
                [{"op": "par", "runs": [[0], [0], [3]], "delays_us": [0, 0, 0]}, {"op": "evict", "keys": [4]},
                 {"op": "run", "keys": [0]}], 2),
        mk_case(4, [[[1], [2], [3]], [[3]], [[3], [1]], []],
                [{"op": "run", "keys": [2, 0]}, {"op": "edit", "keys": [1], "vals": [77]}, {"op": "run", "keys": [0, 1, 2, 3]}], 1),
    ]
    cases += corpus
    # exhaustive: every DAG on <= 3 keys x every history of <= L operations over the alphabet x parallelism, then Run of everything
    L = ctx.budget(2, 3)
    for n in (1, 2, 3):
        alph = alphabet(n)
        for deps in all_dags(n):
            for ln in range(1, L + 1):
                for hist in itertools.product(alph, repeat=ln):
                    if hist[0]["op"] in ("evict", "edit"):
                        continue
                    for par in ((1, 2) if ctx.tier == "quick" else (1, 2, 3)):
                        cases.append(mk_case(n, deps, list(hist) + [{"op": "run", "keys": list(range(n))}], par))
    nexh = len(cases)
    # DAGs on 4 keys x a few history shapes
    for deps in all_dags(4):
        for par in (1, 3):
            cases.append(mk_case(4, deps, [{"op": "run", "keys": [0]}, {"op": "edit", "keys": [3], "vals": [9]},
                                           {"op": "par", "runs": [[0], [1]], "delays_us": [0, 0]},
                                           {"op": "evict", "keys": [2]}, {"op": "run", "keys": [0, 1, 2, 3]}], par))
    # Evict / Edit issued WHILE a Run is in flight (it has to wait for the dirty lock; the input changes inside the cleanup of
    # EvictWithCleanup): a gated query of the Run is parked inside Execute, before or after the Resolve call that makes it a
    # dependent of the evicted key; afterwards everything is run again and must be fresh
    nev0 = len(cases)
    cases.append(mk_case(2, [[[1]], []], [{"op": "run", "keys": [1]},
                                          {"op": "evrun", "keys": [0], "evict": [1], "vals": [2], "gate": 0, "gate_group": 0},
                                          {"op": "run", "keys": [0, 1]}], 2, inputs=[0, 1]))
    ev_graphs = [(n, deps) for n in (2, 3) for deps in all_dags(n)]
    for _ in range(ctx.budget(20, 2000)):
        n = rng.range(3, 6)
        ev_graphs.append((n, random_dag(rng, n, rng.range(30, 80))))
    for n, deps in ev_graphs:
        for g in range(n):
            for gi, grp in enumerate(deps[g]):
                for k in grp:
                    # k (and what it needs) is memoized first; g is not: it executes during the gated Run
                    targets = [k] + ([d for d in sorted(reach(deps, [k]) - {k})][:1])
                    for ek in targets:
                        for gate_group in (gi, len(deps[g])):
                            pre = [k] if PRELOCK_LOOKUP_CASES and rng.chance(1, 2) and ek != k else sorted(set([k, ek]))
                            ops = [{"op": "run", "keys": pre},
                                   {"op": "evrun", "keys": rng.choice([[g], list(range(n))]), "evict": [ek], "vals": [500 + 3 * ek],
                                    "gate": g, "gate_group": gate_group},
                                   {"op": "run", "keys": list(range(n))}]
                            if rng.chance(1, 4):
                                ops[1].pop("vals")
                            cases.append(mk_case(n, deps, ops, rng.range(1, 3)))
    if PRELOCK_LOOKUP_CASES:
        # the evicted key has no task yet when EvictWithCleanup is called; the in-flight Run creates and computes it afterwards
        cases.append(mk_case(2, [[[1]], []], [{"op": "evrun", "keys": [0], "evict": [1], "vals": [2], "gate": 0, "gate_group": 0},
                                              {"op": "run", "keys": [0, 1]}], 2, inputs=[0, 1]))
    nev1 = len(cases)
    # random larger DAGs with several Resolve calls per query, jitter inside the queries and at the yield hooks
    for _ in range(ctx.budget(300, 40000)):
        n = rng.range(3, 8)
        deps = random_dag(rng, n, rng.range(15, 70))
        cases.append(mk_case(n, deps, random_history(rng, n, rng.range(2, 6)), rng.range(1, 4),
                             inputs=[rng.below(1000) for _ in range(n)], jitter=rng.range(1, 1 << 30) if rng.chance(3, 4) else 0))
    ctx.rule = ("dependency DAGs of counting queries x histories of Run / two overlapping Runs / Evict / Edit(input change + Evict): "
                "every DAG on <= 3 keys x every history of <= %d operations over the alphabet {Run k, Run all, 2 overlapping Runs, "
                "Evict k, Edit k} x parallelism {1,2%s} followed by Run of every key; every DAG on 4 keys x one mixed history; random "
                "DAGs on 3..8 keys with 1..3 Resolve calls per query, random histories, schedule jitter; for every dependency edge g -> k "
                "of every DAG on <= 3 keys and of random DAGs on 3..6 keys: Run of k, then Evict/Edit of k (or of a key k needs) issued "
                "while a Run is in flight whose query g is parked before / after the Resolve call that reaches k, then Run of every key; "
                "distinct = distinct "
                "(graph, inputs, history, parallelism); non-trivial = at least one dependency edge and at least two operations; "
                "the specification oracle runs on every history, the model (in coqc) on %s"
                % (L, "" if ctx.tier == "quick" else ",3", "every 4th" if ctx.tier == "quick" else "every one"))
    import time as _t
    t0 = _t.time()
    outs = ctx.impl("incremental", cases)
    t1 = _t.time()
    terms, meta = [], []
    stride = ctx.budget(4, 1)     # quick: the model is evaluated in coqc on the corpus and on every 4th history
    for ci, (c, o) in enumerate(zip(cases, outs)):
        ctx.count((c["n"], c["deps"], c["inputs"], c["ops"], c["par"]), any(c["deps"]) and len(c["ops"]) >= 2,
                  "n=%d" % c["n"])
        if "crash" in o or "panic" in o:
            ctx.violation("harness-crash", "the harness process crashed", {"input": c, "observed": o})
            continue
        for key, what in oracle(c, o):
            ctx.violation(key, what, {"input": c, "observed": o})
        if nev0 <= ci < nev1:
            ctx.hist["evict-during-run"] = ctx.hist.get("evict-during-run", 0) + 1
        t = coq_case(c, o) if (ci < len(corpus) or ci % stride == 0 or ci == nev0) else None
        if t is not None:
            terms.append(t)
            meta.append((c, o))
    ctx.sample(corpus[0]); ctx.sample(cases[nexh // 2]); ctx.sample(cases[-1])
    mism, err = coq_eval_mismatches("cases_C33", HEADER, terms, "inc_chk", shard_size=max(100, len(terms) // 48 + 1))
    ctx.notes.append("timing: implementation runs %.1fs, in-Coq evaluation of %d histories %.1fs" % (t1 - t0, len(terms), _t.time() - t1))
    if err:
        raise RuntimeError(err)
    for k in mism:
        c, o = meta[k]
        ctx.corr_break("incremental executor: values / Changed / execute counts / Keys() after every operation", c, {"observed": o})
    ctx.exhaustive = True
    ctx.extra["exhaustive_part"] = "every DAG on <= 3 keys x every history of <= %d operations x the listed parallelism values" % L
    ctx.extra["model_protocol"] = "repaired (wfix = true)" if REPAIRED else "as is (wfix = false)"
