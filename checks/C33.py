"""C33 - The incremental executor memoizes and invalidates exactly."""
import os
from inclib import *

ID = "C33"
COQ_FILES = ["Model/IncExec.v", "Proofs/IncExec1.v", "Proofs/IncExec2.v", "Proofs/IncExec3.v", "Proofs/IncExec4.v",
             "Common/Corr.v", "Props/C33.v"]
PROPS = "Props/C33.v"
THEOREMS = ["C33_at_most_once_between_evictions", "C33_run_returns_fresh_values", "C33_memoized_values_fresh",
            "C33_execute_sees_fresh_values", "C33_evict_closure_exact", "C33_changed_flag_consistent",
            "C33_changed_iff_computed_this_run", "C33_result_stamped_by_its_run", "C33_memoized_result_stable",
            "C33_result_run_id_valid", "C33_completion_reports_changed"]
AXIOMS_OK = []
TRUSTED = TRUSTED_INC
ASSUMPTIONS = ["queries are deterministic functions of their own input and of what Resolve returned, and the sequence of their "
               "Resolve calls is a function of their own input (Model/IncExec.v world); an input only changes together with "
               "an Evict of its key (event EEdit)",
               "C33 is about queries that do not panic (hypothesis wpanic = None in every theorem); panics and cancellation are C34; "
               "a query that RETURNS a fatal error is covered: the model's result is the pair Value/Fatal as one opaque number",
               "Evict / Edit happen while no goroutine of an earlier Run is still executing (the dirty lock plus: a cancelled Run "
               "has no stragglers; without panics a Run never returns before its goroutines)",
               "the values theorems need an acyclic dependency function (a rank that every dependency decreases); cyclic graphs are C34"]

ALPH_CACHE = {}
# histories in which the key given to EvictWithCleanup has no task yet when the call starts and the in-flight Run creates it:
# the pinned tree looked the tasks up BEFORE taking the dirty lock and lost such an eviction (repaired by /repo commit d302b87a;
# fixes/C33-evict-lookup-under-lock.diff); the stratum is on by default, VERIF_C33_PRELOCK=0 turns it off
PRELOCK_LOOKUP_CASES = os.environ.get("VERIF_C33_PRELOCK", "1") == "1"


def alphabet(n):
    if n not in ALPH_CACHE:
        ops = [{"op": "run", "keys": [k]} for k in range(n)] + [{"op": "run", "keys": list(range(n))}]
        if n >= 2:
            ops.append({"op": "par", "runs": [[0], [n - 1]], "delays_us": [0, 0]})
            ops.append({"op": "par", "runs": [list(range(n)), list(range(n))], "delays_us": [0, 30]})
        ops += [{"op": "evict", "keys": [k]} for k in range(n)]
        ops += [{"op": "edit", "keys": [k], "vals": [100 + 7 * k]} for k in range(n)]
        ALPH_CACHE[n] = ops
    return ALPH_CACHE[n]


FAIL_ODD = [1, 2]     # fail spec: the query returns a fatal error of its own iff its input is odd


def fail_alphabet(n):
    """the alphabet of the failing-query histories: as alphabet(n), with two Edits per key: to a failing and to a succeeding input"""
    key = ("fail", n)
    if key not in ALPH_CACHE:
        ops = [op for op in alphabet(n) if op["op"] != "edit"]
        ops += [{"op": "edit", "keys": [k], "vals": [101 + 2 * k]} for k in range(n)]
        ops += [{"op": "edit", "keys": [k], "vals": [100 + 2 * k]} for k in range(n)]
        ALPH_CACHE[key] = ops
    return ALPH_CACHE[key]


def failing_cases(ctx, rng):
    """queries that return a fatal error (not a panic): at the root of a Run and nested, computed / cached / evicted /
    recomputed, flipping between failing and succeeding with their input"""
    out = []
    allk = lambda n: {k: FAIL_ODD for k in range(n)}
    # corpus: two callers over a failing leaf (first Run, cached Run, Run after evicting the leaf)
    out.append(mk_case(3, [[[2]], [[2]], []], [{"op": "run", "keys": [0, 1, 2]}, {"op": "run", "keys": [2, 1, 0]},
                                               {"op": "evict", "keys": [2]}, {"op": "run", "keys": [2, 0]},
                                               {"op": "run", "keys": [0, 1, 2]}], 2, fail={2: [0, 1]}))
    # a chain whose leaf flips failing -> succeeding -> failing with its input
    out.append(mk_case(3, [[[1]], [[2]], []], [{"op": "run", "keys": [0]}, {"op": "edit", "keys": [2], "vals": [40]},
                                               {"op": "run", "keys": [0]}, {"op": "edit", "keys": [2], "vals": [41]},
                                               {"op": "run", "keys": [1]}, {"op": "run", "keys": [0]}, {"op": "run", "keys": [0, 1, 2]}],
                       1, fail={2: FAIL_ODD}))
    # only the root of the Run fails; its dependencies succeed; two Resolve calls
    out.append(mk_case(3, [[[1], [2]], [], []], [{"op": "run", "keys": [0]}, {"op": "run", "keys": [0]}, {"op": "evict", "keys": [1]},
                                                 {"op": "run", "keys": [0]}, {"op": "run", "keys": [1, 0]}], 2, fail={0: [0, 1]}))
    # overlapping Runs over a failing leaf and its failing caller
    out.append(mk_case(2, [[[1]], []], [{"op": "par", "runs": [[0], [1]], "delays_us": [0, 0]}, {"op": "run", "keys": [0, 1]},
                                        {"op": "evict", "keys": [1]}, {"op": "par", "runs": [[0, 1], [0, 1]], "delays_us": [0, 30]},
                                        {"op": "run", "keys": [1, 0]}], 2, fail={1: [0, 1]}))
    ncorp = len(out)
    # every DAG on <= 3 keys x every non-empty set of keys that fail at first (every key fails iff its input is odd, so an Edit
    # can flip any of them) x histories over the failing alphabet, then Run of everything
    L = ctx.budget(2, 3)
    idx = 0
    for n in (1, 2, 3):
        alph = fail_alphabet(n)
        for deps in all_dags(n):
            for m in range(1, 1 << n):
                inputs = [20 * (k + 1) + (m >> k & 1) for k in range(n)]
                for ln in range(1, L + 1):
                    for hist in itertools.product(alph, repeat=ln):
                        if hist[0]["op"] in ("evict", "edit"):
                            continue
                        if ctx.tier == "quick" and n == 3 and ln == 2 and not rng.chance(1, 8):
                            continue     # quick: a seeded sample of one in eight of the two-operation histories on 3 keys
                        idx += 1
                        pars = (1 + idx % 2,) if ctx.tier == "quick" else (1, 2, 3)
                        for par in pars:
                            out.append(mk_case(n, deps, list(hist) + [{"op": "run", "keys": list(range(n))}], par,
                                               inputs=inputs, fail=allk(n)))
    return out, ncorp


def random_fail(rng, n, p_num, p_den):
    """a random fail spec: each key with chance p fails iff input % m == r, m in 1..4 (m = 1: always)"""
    out = {}
    for k in range(n):
        if rng.chance(p_num, p_den):
            m = rng.range(1, 4)
            out[k] = [rng.below(m), m]
    return out


def run(ctx):
    rng = ctx.rng
    cases = []
    # corpus: the shape of the repository's own test (diamond over a shared root, evict a leaf), a chain, a wide fan-out
    corpus = [
        mk_case(4, [[[1, 2]], [[3]], [[3]], []], [{"op": "run", "keys": [0]}, {"op": "evict", "keys": [2]},
                                                  {"op": "run", "keys": [0]}, {"op": "edit", "keys": [3], "vals": [5]},
                                                  {"op": "run", "keys": [1]}, {"op": "run", "keys": [0]}], 4),
        mk_case(5, [[[1]], [[2]], [[3]], [[4]], []], [{"op": "run", "keys": [0]}, {"op": "edit", "keys": [2], "vals": [9]},
                                                      {"op": "run", "keys": [3]}, {"op": "run", "keys": [0]}], 1),
        mk_case(6, [[[1, 2, 3, 4, 5]], [], [], [], [], []],
                [{"op": "par", "runs": [[0], [0], [3]], "delays_us": [0, 0, 0]}, {"op": "evict", "keys": [4]},
                 {"op": "run", "keys": [0]}], 2),
        mk_case(4, [[[1], [2], [3]], [[3]], [[3], [1]], []],
                [{"op": "run", "keys": [2, 0]}, {"op": "edit", "keys": [1], "vals": [77]}, {"op": "run", "keys": [0, 1, 2, 3]}], 1),
    ]
    cases += corpus
    # exhaustive: every DAG on <= 3 keys x every history of <= L operations over the alphabet x parallelism, then Run of everything
    L = ctx.budget(2, 3)
    for n in (1, 2, 3):
        alph = alphabet(n)
        for deps in all_dags(n):
            for ln in range(1, L + 1):
                for hist in itertools.product(alph, repeat=ln):
                    if hist[0]["op"] in ("evict", "edit"):
                        continue
                    for par in ((1, 2) if ctx.tier == "quick" else (1, 2, 3)):
                        cases.append(mk_case(n, deps, list(hist) + [{"op": "run", "keys": list(range(n))}], par))
    nexh = len(cases)
    # queries that return a fatal error
    nfail0 = len(cases)
    fcases, nfcorp = failing_cases(ctx, rng)
    cases += fcases
    # DAGs on 4 keys x a few history shapes
    for deps in all_dags(4):
        for par in (1, 3):
            # the parallelism-3 copy has one query that returns a fatal error while its input is odd (all inputs are odd at
            # first; the Edit of key 3 to 8 or 9 flips / keeps it when it is key 3)
            fk = rng.below(4)
            cases.append(mk_case(4, deps, [{"op": "run", "keys": [0]}, {"op": "edit", "keys": [3], "vals": [9 if par == 1 else 8 + rng.below(2)]},
                                           {"op": "par", "runs": [[0], [1]], "delays_us": [0, 0]},
                                           {"op": "evict", "keys": [2]}, {"op": "run", "keys": [0, 1, 2, 3]}], par,
                                 fail={fk: FAIL_ODD} if par == 3 else None))
    # Evict / Edit issued WHILE a Run is in flight (it has to wait for the dirty lock; the input changes inside the cleanup of
    # EvictWithCleanup): a gated query of the Run is parked inside Execute, before or after the Resolve call that makes it a
    # dependent of the evicted key; afterwards everything is run again and must be fresh
    nev0 = len(cases)
    cases.append(mk_case(2, [[[1]], []], [{"op": "run", "keys": [1]},
                                          {"op": "evrun", "keys": [0], "evict": [1], "vals": [2], "gate": 0, "gate_group": 0},
                                          {"op": "run", "keys": [0, 1]}], 2, inputs=[0, 1]))
    ev_graphs = [(n, deps) for n in (2, 3) for deps in all_dags(n)]
    for _ in range(ctx.budget(20, 2000)):
        n = rng.range(3, 6)
        ev_graphs.append((n, random_dag(rng, n, rng.range(30, 80))))
    for n, deps in ev_graphs:
        for g in range(n):
            for gi, grp in enumerate(deps[g]):
                for k in grp:
                    # k (and what it needs) is memoized first; g is not: it executes during the gated Run
                    targets = [k] + ([d for d in sorted(reach(deps, [k]) - {k})][:1])
                    for ek in targets:
                        for gate_group in (gi, len(deps[g])):
                            pre = [k] if PRELOCK_LOOKUP_CASES and rng.chance(1, 2) and ek != k else sorted(set([k, ek]))
                            ops = [{"op": "run", "keys": pre},
                                   {"op": "evrun", "keys": rng.choice([[g], list(range(n))]), "evict": [ek], "vals": [500 + 3 * ek],
                                    "gate": g, "gate_group": gate_group},
                                   {"op": "run", "keys": list(range(n))}]
                            if rng.chance(1, 4):
                                ops[1].pop("vals")
                            cases.append(mk_case(n, deps, ops, rng.range(1, 3),
                                                 fail=random_fail(rng, n, 1, 2) if rng.chance(1, 3) else None))
    if PRELOCK_LOOKUP_CASES:
        # the evicted key has no task yet when EvictWithCleanup is called; the in-flight Run creates and computes it afterwards
        cases.append(mk_case(2, [[[1]], []], [{"op": "evrun", "keys": [0], "evict": [1], "vals": [2], "gate": 0, "gate_group": 0},
                                              {"op": "run", "keys": [0, 1]}], 2, inputs=[0, 1]))
    nev1 = len(cases)
    # random larger DAGs with several Resolve calls per query, jitter inside the queries and at the yield hooks
    for _ in range(ctx.budget(300, 40000)):
        n = rng.range(3, 8)
        deps = random_dag(rng, n, rng.range(15, 70))
        cases.append(mk_case(n, deps, random_history(rng, n, rng.range(2, 6)), rng.range(1, 4),
                             inputs=[rng.below(1000) for _ in range(n)], jitter=rng.range(1, 1 << 30) if rng.chance(3, 4) else 0,
                             fail=random_fail(rng, n, 1, 3) if rng.chance(1, 2) else None))
    ctx.rule = ("dependency DAGs of counting queries x histories of Run / two overlapping Runs / Evict / Edit(input change + Evict): "
                "every DAG on <= 3 keys x every history of <= %d operations over the alphabet {Run k, Run all, 2 overlapping Runs, "
                "Evict k, Edit k} x parallelism {1,2%s} followed by Run of every key; every DAG on 4 keys x one mixed history; random "
                "DAGs on 3..8 keys with 1..3 Resolve calls per query, random histories, schedule jitter; for every dependency edge g -> k "
                "of every DAG on <= 3 keys and of random DAGs on 3..6 keys: Run of k, then Evict/Edit of k (or of a key k needs) issued "
                "while a Run is in flight whose query g is parked before / after the Resolve call that reaches k, then Run of every key; "
                "queries that RETURN a fatal error (own error iff input %% m == r; dependents fail with it): every DAG on <= 3 keys x "
                "every non-empty set of initially failing keys x every history of <= %d operations over {Run k, Run all, 2 overlapping "
                "Runs, Evict k, Edit k to a failing input, Edit k to a succeeding input}%s followed by Run of every key, plus a failing "
                "key in half of the 4-key, random and a third of the evict-during-run histories; "
                "distinct = distinct "
                "(graph, inputs, history, parallelism); non-trivial = at least one dependency edge and at least two operations; "
                "the specification oracle runs on every history, the model (in coqc) on %s"
                % (L, "" if ctx.tier == "quick" else ",3", L,
                   " (quick: a seeded sample of 1 in 8 of the two-operation histories on 3 keys)" if ctx.tier == "quick" else "",
                   "every 4th" if ctx.tier == "quick" else "every one"))
    import time as _t
    t0 = _t.time()
    outs = ctx.impl("incremental", cases)
    t1 = _t.time()
    terms, meta = [], []
    stride = ctx.budget(4, 1)     # quick: the model is evaluated in coqc on the corpus and on every 4th history
    for ci, (c, o) in enumerate(zip(cases, outs)):
        ctx.count((c["n"], c["deps"], c["inputs"], c["ops"], c["par"], sorted(c.get("fail", {}).items())),
                  any(c["deps"]) and len(c["ops"]) >= 2, "n=%d%s" % (c["n"], "+fail" if c.get("fail") else ""))
        if "crash" in o or "panic" in o:
            ctx.violation("harness-crash", "the harness process crashed", {"input": c, "observed": o})
            continue
        for key, what in oracle(c, o):
            ctx.violation(key, what, {"input": c, "observed": o})
        if nev0 <= ci < nev1:
            ctx.hist["evict-during-run"] = ctx.hist.get("evict-during-run", 0) + 1
        if c.get("fail"):
            ctx.hist["with-failing-queries"] = ctx.hist.get("with-failing-queries", 0) + 1
        t = coq_case(c, o) if (ci < len(corpus) or ci % stride == 0 or ci == nev0 or nfail0 <= ci < nfail0 + nfcorp) else None
        if t is not None:
            terms.append(t)
            meta.append((c, o))
    ctx.sample(corpus[0]); ctx.sample(cases[nexh // 2]); ctx.sample(cases[-1])
    mism, err = coq_eval_mismatches("cases_C33", HEADER, terms, "inc_chk", shard_size=max(100, len(terms) // 48 + 1))
    ctx.notes.append("timing: implementation runs %.1fs, in-Coq evaluation of %d histories %.1fs" % (t1 - t0, len(terms), _t.time() - t1))
    if err:
        raise RuntimeError(err)
    for k in mism:
        c, o = meta[k]
        ctx.corr_break("incremental executor: values / Changed / execute counts / Keys() after every operation", c, {"observed": o})
    ctx.exhaustive = True
    ctx.extra["exhaustive_part"] = "every DAG on <= 3 keys x every history of <= %d operations x the listed parallelism values" % L
    ctx.extra["model_protocol"] = "repaired (wfix = true)" if REPAIRED else "as is (wfix = false)"
