"""C31 - Formatting preserves meaning and is idempotent."""
import glob, os
from vlib import *
import prnlib

ID = "C31"
COQ_FILES = ["Common/Bytes.v", "Common/Corr.v", "Model/Trivia.v", "Proofs/Trivia.v", "Model/BlockComment.v", "Proofs/BlockComment.v",
             "Props/C31.v"]
PROPS = "Props/C31.v"
THEOREMS = ["C31_format_preserves_token_sequence", "C31_format_preserves_declarations",
            "C31_format_keeps_block_order", "C31_format_rank_sorted",
            "C31_block_comment_verbatim_idempotent", "C31_block_comment_normalised_idempotent"]
AXIOMS_OK = []
TRUSTED = ["hand-written Gallina model of the declaration order of format mode (format.go compareDecl / sortFileDeclsForFormat, "
           "printDecl dropping empty declarations); the sort keys are read from the real code through the hook printer.VerifDeclSort",
           "hand-written Gallina model of printer.emitBlockComment and of dom's rendering of what it pushes (Model/BlockComment.v: "
           "computeVisualIndent, unindent, the verbatim branch, the prefix / plain normalisation, pending line feeds, the indentation "
           "dom.Indent writes after a line feed); the indentation depth of a comment is taken as two spaces per enclosing bracket pair",
           "correspondence harness (harness/cmd/printer): token sequences of source and formatted output, stable compiler "
           "protocompile.Compiler for the descriptor comparison",
           "the canonicaliser that erases what format mode changes on purpose (message-literal separators and colons, angle brackets "
           "spelled as braces, empty declarations): checks/prnlib.py solid_erased"]
ASSUMPTIONS = ["P-core, mostly differential: the theorems cover the declaration order and the text of a block comment (printed again at the "
               "same indentation depth it does not change; Legacy preset: for comments whose last line is not blank and whose other "
               "lines do not begin with the closer, which holds for every comment token); that the formatted file compiles to the same "
               "descriptors and that formatting as a whole is idempotent is decided by running the real code (direct oracle)",
               "dom layout (experimental/dom) is not modelled; idempotence of the layout function was not proved (the second pass goes "
               "through the parser and the trivia index again, there is no layout language to state it on)"]

HEADER = ("From Coq Require Import List NArith Bool.\nImport ListNotations.\n"
          "From PV Require Import Common.Corr Model.Trivia.\nOpen Scope N_scope.\n")
HEADER_BC = ("From Coq Require Import List NArith Bool.\nImport ListNotations.\n"
             "From PV Require Import Common.Corr Model.BlockComment.\nOpen Scope N_scope.\n")

HAND = [
    'syntax = "proto3";\nmessage A {}\n',
    'syntax = "proto3";\nimport "google/protobuf/timestamp.proto";\nimport "google/protobuf/any.proto";\nmessage A { google.protobuf.Any a = 1; google.protobuf.Timestamp t = 2; }\n',
    'syntax = "proto3";\nimport public "google/protobuf/timestamp.proto";\nimport weak "google/protobuf/any.proto";\nimport "google/protobuf/duration.proto";\nmessage A {}\n',
    'syntax = "proto3";\nmessage B {}\nimport "google/protobuf/any.proto";\noption java_package = "x";\npackage p;\nmessage A {}\n',
    'syntax = "proto3";\nmessage M {\n\n}\n',
    'syntax = "proto3";\nmessage M {};\n;\nmessage N { ; }\n',
    'syntax = "proto2";\nmessage Foo {}\nextend // c\nFoo { optional int32 x = 100; }\n',
    'syntax = "proto2";\nmessage Foo { extensions 100 to max; }\nextend // c\nFoo { optional int32 x = 100; }\n',
    'syntax = "proto3";\nmessage M { int32 x = 1 // c\n; }\n',
    'syntax = "proto3";\nmessage M { int32 /* c */ x = 1; }\n',
    'syntax = "proto3";\nmessage M { int32 x = 1; /* c */ int32 y = 2; }\n',
    'syntax = "proto3";\noption java_package = "a" "b"\n  "c";\n',
    'syntax = "proto3";\r\nmessage M {\r\n\tint32 x = 1;\r\n}\r\n',
    'syntax = "proto3";\nmessage M { int32 x = 1; }',
    '',
    # multi-line block comments of irregular shape (interior lines at different depths, white-space-only lines
    # shallower / deeper than the text, tabs, text on the closing line, CRLF) at declaration boundaries
    'syntax = "proto3";\n\n/*\n    about E\n  \n    more about E\n   */\nenum E {\n  E_ZERO = 0;\n}\n',
    'syntax = "proto3";\n\nmessage M {\n  /*\n     first paragraph\n \n     second paragraph\n  */\n  int32 x = 1;\n}\n',
    'syntax = "proto3";\nmessage M {\n  message N {\n\t/*\n\t * a\n\t\n\t *\tb\n\t */\n    int32 x = 1; /* t\n              \n         u */\n  }\n  /* last\n\t\n in body */\n}\n/*\n\n  = eof\n*/',
    'syntax = "proto3";\r\n/**\r\n *  doc\r\n \r\n     * deeper\r\n */\r\nmessage M {\r\n  int32 x = 1;\r\n}\r\n',
    '/* first\n      \n   text */\nsyntax = "proto3";\nmessage M {\n  int32 x = 1;\n\n      /*\n       deep\n   \n       deep\n      */\n\n  int32 y = 2;\n}\n',
]


def nlist(b):
    return "[" + ";".join(str(c) for c in b) + "]"


def fc_term(o, preset):
    """the correspondence case: declarations with the sort keys of the real code and their tokens,
    and the token sequence of the formatted output (both canonicalised by solid_erased)"""
    info = o.get("decl_info") or []
    toks = prnlib.solid_erased(o["tree"])
    per = [[] for _ in info]
    for off, tx in toks:
        for k, d in enumerate(info):
            if d["start"] <= off < d["end"]:
                per[k].append(tx)
                break
        else:
            return None      # a token outside every declaration: not a case for the model
    # the model only compares token texts for equality: each distinct text is written as one number
    code = {}
    enc = lambda t: "[%d]" % code.setdefault(t, len(code))
    ds = []
    for d, ts in zip(info, per):
        ds.append("mkFdecl %d %s %s %s [%s]" % (d["rank"], "true" if d["sub"] else "false", nlist(bytes.fromhex(d["name"])),
                                                 "true" if d["empty"] else "false", ";".join(enc(t) for t in ts)))
    obs = [tx for _, tx in prnlib.solid_erased(o["fmt"][preset]["tree1"])]
    return "FC [%s] [%s]" % ("; ".join(ds), ";".join(enc(t) for t in obs))


def block_comments(tree):
    """texts of the block comments of a token tree (harness dump), stream order"""
    out = []

    def walk(ts):
        for t in ts:
            if t["c"] == 3:
                out.append(bytes.fromhex(t["t"]))
            if t["c"] >= 9:
                walk(t["ch"])
    walk(tree or [])
    return out


def lines_term(b):
    return "[" + ";".join(nlist(l) for l in b.split(b"\n")) + "]"


def run(ctx):
    rng = ctx.rng
    cases = []   # (stratum, bytes, extra harness fields)
    for s in HAND:
        cases.append(("hand", s.encode(), {}))
    tdir = os.path.join(REPO, "internal/testdata")
    for f in sorted(glob.glob(os.path.join(tdir, "**/*.proto"), recursive=True)):
        if os.path.getsize(f) < ctx.budget(12000, 10**7):
            cases.append(("corpus:internal/testdata/" + os.path.relpath(f, tdir), open(f, "rb").read(),
                          {"path": os.path.relpath(f, tdir), "dirs": [tdir]}))
    for f in sorted(glob.glob(os.path.join(REPO, "experimental/ast/printer/testdata/format/*.proto"))
                    + glob.glob(os.path.join(REPO, "experimental/ast/printer/testdata/roundtrip/*.proto"))):
        cases.append(("corpus:" + os.path.relpath(f, REPO), open(f, "rb").read(), {}))
    plan = [("plain", ctx.budget(60, 1200)), ("plain-nocomment", ctx.budget(20, 400)), ("shuffled-plain", ctx.budget(40, 900)),
            ("ws-adversarial", ctx.budget(80, 1800)), ("adversarial", ctx.budget(110, 3600)),
            ("plain-blockcomments", ctx.budget(60, 2000)), ("plain-onecomment", ctx.budget(40, 1500)),
            ("plain-onelinecomment", ctx.budget(80, 3000))]
    # one `//` comment in every gap between two tokens of every declaration form of prnlib.LC_SNIPPETS: all the gaps
    # before a closing token or a separator, and (quick tier) a sixth of the others
    for src, nxt in prnlib.lc_catalogue():
        if nxt in prnlib.CLOSERS or ctx.tier == "thorough" or rng.chance(1, 6):
            cases.append(("lc-position", src.encode(), {}))
    for strat, n in plan:
        for _ in range(n):
            if strat == "ws-adversarial":
                g = prnlib.Gen(rng, size=rng.range(1, 3), shuffle_header=rng.chance(1, 4))
                src = prnlib.render_adversarial(g.file(), rng, intensity=rng.range(1, 8), comment_share=0)
            else:
                src = prnlib.gen_source(rng, strat)[0]
            cases.append((strat, src.encode(), {}))
    ctx.rule = ("sources: hand-picked cases, the repository's internal/testdata (compiled with its own import directory) and the "
                "printer's format/roundtrip testdata, generated files in the strata plain / plain-nocomment / shuffled-plain "
                "(declarations in any order), plain-blockcomments (plain layout with block comments of arbitrary shape - every "
                "line its own indentation in spaces / tabs, empty and white-space-only lines of any width, prefix characters or "
                "none, text on the opening / closing line, trailing white space, LF / CRLF - in every position at a declaration "
                "boundary: first in file, own lines before a declaration at any depth, attached or detached, trailing, last in a "
                "body, last in file; in a third of the files also after `{`, on the next declaration's line, inside a "
                "declaration), plain-onecomment (the same with exactly one comment, at a declaration boundary: the comment of the "
                "formatted output is also compared with the Coq model of emitBlockComment), ws-adversarial (arbitrary whitespace, "
                "no comments) and adversarial (comments anywhere), "
                "lc-position (a catalogue of declaration forms - message literals empty / non-empty / nested / in arrays, array "
                "literals, compact options with one / several entries, option values of every kind, ranges, type arguments, rpc "
                "signatures and bodies, paths - with ONE `//` comment in EVERY gap between two adjacent tokens, the declaration "
                "continuing on the next line: every gap before `;` `,` `]` `}` `>` `)`, in the quick tier a sixth of the others) "
                "and plain-onelinecomment (generated files, a third of the message literals empty, one `//` comment in a gap drawn "
                "by class: token before x token after, two in three before a closing token or separator); "
                "each source x each preset (default, legacy) is one evaluation; distinct = distinct (source, preset); non-trivial = "
                "the source parses without errors")
    ins = [dict({"s": s.hex(), "want": ["fmt", "compile", "bc"]}, **extra) for _, s, extra in cases]
    outs = ctx.impl("printer", ins)
    terms, meta = [], []
    bc_terms, bc_meta = [], []
    hist = {}
    for (strat, src, _), o in zip(cases, outs):
        rep = {"stratum": strat, "source": src.decode("utf-8", "replace")[:4000]}
        if "crash" in o or "panic" in o:
            ctx.violation("printer-panics", "parser / formatter panicked or crashed", dict(rep, observed=o))
            continue
        if o["nerr"] != 0:
            ctx.count(("rejected", src), False, strat.split(":")[0] + "-rejected")
            continue
        cls = prnlib.layout_class(o["tree"], strat, o.get("decl_info"))
        if strat == "lc-position":
            hist[src] = 1            # (counts the catalogue cases seen so far: a third of them go to the Coq comparison)
        compiles = "compile_err" not in o
        for preset, r in sorted(o["fmt"].items()):
            ctx.count((preset, src), True, strat.split(":")[0] + ("" if compiles else "-nocompile"))
            f1, f2 = bytes.fromhex(r["f1"]), bytes.fromhex(r["f2"])
            rp = dict(rep, preset=preset, formatted=f1.decode("utf-8", "replace")[:4000], layout_class=cls)
            nv = len(ctx.violations)
            # A `//` comment inside a declaration: the class of the known findings only where the comment sits in a
            # position the formatter does not protect (prnlib.LC_PROTECTED lists the protected ones).  cls_m: for the
            # meaning oracle, judged on the comments that grew in the output (they swallowed tokens) when there are
            # any; cls_i: for idempotence, judged on every such comment of the file.
            cls_m = cls_i = cls
            if cls == "line-comment-inside-declaration":
                poss = prnlib.lc_positions(o["tree"])
                cls_m, who_m = prnlib.lc_class(poss, preset, "meaning", o["tree"], r.get("tree1"))
                if strat in ("lc-position", "plain-onelinecomment"):
                    # (only where the comment is the file's one irregularity: elsewhere a second pass may differ for
                    # reasons of the white space around, which the known classes explain)
                    cls_i, who_i = prnlib.lc_class(poss, preset, "idem", None, None)
                rp["line_comment_positions"] = sorted(set(x["pos"] for x in poss))
                if who_m:
                    rp["comment_that_swallowed_tokens_at"] = who_m
            # direct oracle 1: the formatted file means the same
            if r["nerr2"] != 0:
                ctx.violation("format-changes-meaning:" + cls_m, "the formatted output does not parse: " + str(r.get("err2")), rp)
            elif compiles:
                c = r.get("cmp")
                if c == "dependency-permutation":
                    ctx.violation("format-reorders-imports",
                                  "the descriptor of the formatted file differs only by a permutation of `dependency` "
                                  "(public/weak indices re-mapped consistently)", rp)
                elif c == "formatted-does-not-compile":
                    ctx.violation("format-changes-meaning:" + cls_m, "the formatted output does not compile: " + str(r.get("cmp_err")), rp)
                elif c == "different":
                    if r.get("cmp_norm") == "equal-modulo-dependency-and-option-field-order":
                        ctx.violation("format-reorders-options",
                                      "the descriptors differ only in the order of dependencies and of uninterpreted option fields", rp)
                    else:
                        ctx.violation("format-changes-meaning:" + cls_m, "the formatted output compiles to different descriptors (first "
                                      "differing field: %s)" % r.get("cmp_field"), rp)
            # direct oracle 2: idempotence
            if f1 != f2:
                # WHAT the second pass changed (harness idemDiff, on the real lexer's tokens of both outputs).  The
                # syntactic classes of the known findings explain a second pass that moves white space, tokens or
                # whole comments; none of them explains a block comment whose own text (interior white space
                # included, relative to the indentation of the line it starts on) is printed differently by the
                # second pass while every token and every `//` comment stayed the same: that is its own key, never
                # attributed to a class of the source.
                idem = r.get("idem") or {}
                key, what = "format-not-idempotent:" + cls_i, "formatting the formatted output changes it (%s)" % idem.get("kind")
                extra = {}
                if idem.get("kind") == "block-comment-text":
                    key = "format-not-idempotent:block-comment-text-changes"
                    what = ("the second formatting pass prints a block comment differently (same tokens, same `//` comments; "
                            "the comment is compared relative to the indentation of the line it starts on)")
                    extra = {"comment_after_first_pass": bytes.fromhex(idem.get("first", "")).decode("utf-8", "replace"),
                             "comment_after_second_pass": bytes.fromhex(idem.get("second", "")).decode("utf-8", "replace")}
                ctx.violation(key, what, dict(rp, second=f2.decode("utf-8", "replace")[:4000], second_pass_changed=idem.get("kind"), **extra))
            # correspondence 2: the text of a block comment.  A source with exactly one block comment, at a declaration
            # boundary (not inside a declaration, where the printer adds continuation indents the model does not
            # know): the comment of the formatted output must be what the model of emitBlockComment prints at an
            # indentation of two spaces per enclosing bracket pair.
            if strat in ("plain-onecomment", "hand") and r["nerr2"] == 0:
                sc = block_comments(o["tree"])
                feats = prnlib.comment_features(o["tree"])
                if len(sc) == 1 and not (feats & {"BC:inside", "BC:same-line"}):
                    bcs = r.get("bcs") or []
                    if len(bcs) == 1:
                        obs = bytes.fromhex(bcs[0][0])
                        bc_terms.append("BC %s %d%%nat %s %s" % ("true" if preset == "legacy" else "false", 2 * bcs[0][2],
                                                                lines_term(sc[0]), lines_term(obs)))
                        bc_meta.append(dict(rp, comment=sc[0].decode("utf-8", "replace"), printed_as=obs.decode("utf-8", "replace"),
                                            indentation=2 * bcs[0][2]))
                    elif not (len(bcs) == 0 and cls == "empty-declaration"):
                        # (the comments attached to a lone `;` are dropped with it: known finding, not this model's business)
                        ctx.corr_break("block-comment-text", dict(rp, comment=sc[0].decode("utf-8", "replace")),
                                       {"block_comments_in_output": len(bcs)})
            # correspondence: the declaration order and the token sequence of the output (only when it parses)
            if r["nerr2"] == 0 and len(src) < 8000 and (strat != "lc-position" or (len(hist) + (preset == "legacy")) % 3 == 0 or len(ctx.violations) > nv):
                t = fc_term(o, preset)
                if t is not None:
                    terms.append(t)
                    meta.append((rp, len(ctx.violations) > nv))
    for strat, s, _ in cases[len(HAND)::61][:4]:
        ctx.sample({"stratum": strat, "source": s.decode("utf-8", "replace")[:500]})
    mism, err = coq_eval_mismatches("cases_C31", HEADER, terms, "format_chk", shard_size=max(8, len(terms) // (2 * NCPU) + 1))
    if err:
        raise RuntimeError(err)
    mism_bc, err = coq_eval_mismatches("cases_C31bc", HEADER_BC, bc_terms, "bc_chk", shard_size=max(8, len(bc_terms) // (2 * NCPU) + 1))
    if err:
        raise RuntimeError(err)
    for k in mism_bc:
        # the formatter printed a block comment differently from the model the idempotence theorems are about
        ctx.corr_break("block-comment-text", bc_meta[k], {})
    ctx.rule += "; %d (block comment, preset) pairs were compared with the Coq model of emitBlockComment" % len(bc_terms)
    for k in mism:
        rp, explained = meta[k]
        # The non-skippable tokens of the output are not those of the source in format order: a token was
        # lost, added or moved.  Where the direct oracle already reported this output (a comment that
        # swallows tokens changes the meaning or breaks idempotence) the disagreement is that defect.
        if not explained:
            ctx.corr_break("format-token-sequence", rp, {})
