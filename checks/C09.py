"""C09 - All input forms give the same result and inputs are not mutated."""
import itertools
from vlib import *
import pgenlib
import c09opts

ID = "C09"
COQ_FILES = ["Common/Corr.v", "Model/Forms.v", "Proofs/Forms.v", "Props/C09.v"]
PROPS = "Props/C09.v"
THEOREMS = ["C09_forms_agree_file", "C09_forms_agree", "C09_forms_agree_mode_none", "C09_source_info_per_mode",
            "C09_inputs_untouched", "C09_compile_all_untouched"]
AXIOMS_OK = []
TRUSTED = ["hand-written Gallina model Model/Forms.v of compiler.go task.asParseResult / asAST / link (source-info part) and parser.Clone over an abstract heap: clone = fresh object, link = in-place write",
           "correspondence harness harness/cmd/forms (public API only; snapshots by deterministic marshal, reflection-based deep hash of the AST memory, token dump, node-index dump) and the program generator checks/pgenlib.py"]
ASSUMPTIONS = ["parser, AST-to-proto lowering, linker+option interpretation and source-info generation are arbitrary functions (section variables); in particular linking is a function of the file's unlinked descriptor and of the dependencies' descriptor CONTENTS only (not their source info): checked by the direct oracle on every generated program, proved nowhere",
               "heap aliasing inside protobuf-go messages and inside the AST is abstracted: proto.Clone / parser.Clone give a fresh object with an equal value, the AST object is shared and never written; the harness checks exactly this on the real objects (deep hash before/after)",
               "the concurrent theorem treats asParseResult, link and the source-info step as atomic steps of a task; finer-grained data races are only exercised (thorough tier builds the harness with -race), not proved"]

FORMS = ["source", "ast", "result", "result_noast", "proto", "proto_si", "result_noast_si"]
COQ_FORM = {"source": "FSource", "ast": "FAst", "result": "FRes", "result_noast": "FResNoAst", "proto": "FProto", "proto_si": "FProtoSI",
            "result_noast_si": "FResNoAstSI"}
HAS_AST = {"source", "ast", "result"}
# forms without AST whose descriptor already carries the source info an all-source compilation in the same mode produces
CARRIES_SI = {"proto_si", "result_noast_si"}
# SourceInfoMode is a set of bits (Standard = 1, ExtraComments = 2, ExtraOptionLocations = 4): every value
MODES_ALL = [0, 1, 2, 3, 4, 5, 6, 7]
MODES_NO_STANDARD = [2, 4, 6]
MODES_STANDARD_PLUS = [3, 5, 7]


def break_program(p, rng):
    """A near-valid variant: the last file gets a field of a type that does not exist (fails while linking,
    after the defensive copy has already been partly rewritten)."""
    last = p.order[-1]
    syn = p.meta[last].syntax
    lab = "optional " if syn == "proto2" else ""
    q = pgenlib.Program()
    q.files = dict(p.files)
    q.order = list(p.order)
    q.meta = p.meta
    q.files[last] = p.files[last] + "message Broken%d { %s.no.Such.Type f = 1; }\n" % (rng.below(1000), lab)
    return q


def deps_of(p):
    ix = {n: k for k, n in enumerate(p.order)}
    return [[ix[n] for n, _ in p.meta[f].imports] for f in p.order]


def run(ctx):
    import time as _t0
    ctx.extra["t_run_start"] = round(_t0.time() - ctx.t0, 1)
    rng = ctx.rng
    nprog = ctx.budget(28, 250)
    nmatrix = ctx.budget(4, 40)        # programs that get the full mode x form matrix
    full_upto = ctx.budget(2, 3)       # programs with at most this many files get every assignment
    sample = ctx.budget(10, 40)        # random assignments for bigger programs
    modes_all = MODES_ALL
    ctx.rule = ("%d generated multi-file programs (1-3 files, proto2/proto3/editions, imports, custom options, extensions, services) and near-valid variants "
                "that fail while linking; x source-info modes (quick tier: none, standard, one of the modes without the Standard bit {2, 4, 6} and one of {3, 5, 7}; "
                "thorough: all eight values of the bit set); x every assignment of an input form "
                "(source / AST / parser.Result / parser.Result without AST / FileDescriptorProto / FileDescriptorProto with source info attached / parser.Result without AST "
                "whose descriptor has source info attached) per file for programs of <= %d files, "
                "%d random assignments otherwise; plus option-saturated programs (custom and standard options - scalar, string, message literal, dotted "
                "paths of 2-3 name parts, repeated - on every option-bearing element kind: file, message (top, nested twice, group body), field (plain, nested, "
                "oneof member, map, group), oneof (top, nested), extension range (single, multi-range statement, nested), enum (top, nested twice), enum value, "
                "extension at file and message scope, service, method; definitions imported or in the same file; proto2 / proto3 / editions): all positions at once, "
                "exactly one position, random subsets, x every uniform assignment of the 7 forms + mixed ones; the first %d programs get the full matrix: all eight modes x every uniform assignment (all files in the same form) "
                "x a few mixed ones; every case compiles twice on the same supplied objects (some with 3 concurrent compilers); "
                "one evaluation = one (program, mode, assignment); non-trivial = at least one file is not given as source. Source info is demanded by the oracle for "
                "every form with an AST AND for every form whose descriptor carries it (kept as it is, equal to the all-source compilation in the same mode) in every mode but none"
                % (nprog, full_upto, sample, nmatrix))
    cfg = pgenlib.Cfg(max_files=3, size=2, max_depth=2)
    cases = []
    for pi in range(nprog):
        p = pgenlib.gen_program(rng, cfg)
        broken = rng.chance(1, 7)
        if broken:
            p = break_program(p, rng)
        n = len(p.order)
        modes = [0, 1, rng.choice(MODES_NO_STANDARD), rng.choice(MODES_STANDARD_PLUS)] if ctx.tier != "thorough" else modes_all
        if n <= full_upto:
            asgs = list(itertools.product(FORMS, repeat=n))
            if ctx.tier != "thorough" and len(asgs) > 24:
                asgs = [asgs[0]] + rng.shuffle(asgs[1:])[:23]
        else:
            asgs = [tuple(["source"] * n)] + [tuple(rng.choice(FORMS) for _ in range(n)) for _ in range(sample)]
        deps = deps_of(p)
        plan = [(mode, asg) for mode in modes for asg in asgs]
        if pi < nmatrix and not broken:
            uniform = [tuple([f] * n) for f in FORMS] + [tuple(rng.choice(FORMS) for _ in range(n)) for _ in range(3)]
            have = set(plan)
            plan += [(mode, asg) for mode in MODES_ALL for asg in uniform if (mode, asg) not in have]
        for mode, asg in plan:
            c = {"files": p.files, "order": p.order, "forms": dict(zip(p.order, asg)), "mode": mode, "rounds": 2}
            if rng.chance(1, 12):
                c["concurrent"] = 3
                c["par"] = 2
            cases.append((pi, broken, deps, c))
    # ---- option-saturated programs (c09opts): custom options on every option-bearing element kind, so that
    # every form goes through option interpretation on its own defensive copy for every kind
    oprogs = c09opts.programs(rng, ctx.budget(8, None), ctx.budget(4, 40))
    opt_labels = {}
    for k, (label, p) in enumerate(oprogs):
        pi = 100000 + k
        opt_labels[pi] = label
        n = len(p.order)
        if ctx.tier == "thorough":
            modes = modes_all
            asgs = list(itertools.product(FORMS, repeat=n))
        else:
            modes = [k % 2, rng.choice(MODES_NO_STANDARD) if k % 4 < 2 else rng.choice(MODES_STANDARD_PLUS)]
            asgs = [tuple([f] * n) for f in FORMS]
            if n > 1:
                asgs += [tuple(rng.choice(FORMS) for _ in range(n)) for _ in range(4)]
            asgs = list(dict.fromkeys(asgs))
        deps = deps_of(p)
        for mode in modes:
            for asg in asgs:
                c = {"files": p.files, "order": p.order, "forms": dict(zip(p.order, asg)), "mode": mode, "rounds": 2}
                if rng.chance(1, 12):
                    c["concurrent"] = 3
                    c["par"] = 2
                cases.append((pi, False, deps, c))
    ctx.extra["option_saturated_programs"] = dict((l, sum(1 for x in opt_labels.values() if x == l)) for l in set(opt_labels.values()))
    race = ctx.tier == "thorough"
    outs = ctx.impl("forms", [c for _, _, _, c in cases])
    if race:
        rc = [c for _, _, _, c in cases if c.get("concurrent")][:400]
        routs = ctx.impl("forms", rc, race=True, shards=4)
        for c, o in zip(rc, routs):
            if "crash" in o and "DATA RACE" in o.get("crash", ""):
                ctx.violation("data-race-on-supplied-object", "race detector report while compiling concurrently on shared supplied objects",
                              {"case": c, "report": o["crash"][-1500:]})
    ref = {}
    terms, meta = [], []
    stats = {"accepted": 0, "rejected": 0, "prep_failed": 0, "by_mode": {}, "carries_si_by_mode": {}}
    for (pi, broken, deps, c), o in zip(cases, outs):
        rep = {"files": c["files"], "order": c["order"], "forms": c["forms"], "mode": c["mode"], "concurrent": c.get("concurrent", 1)}
        if "crash" in o or "panic" in o:
            ctx.violation("panic", "compiling panicked or crashed", dict(rep, observed=o))
            continue
        if "prep_err" in o:
            stats["prep_failed"] += 1
            continue
        asg = tuple(c["forms"][n] for n in c["order"])
        nontriv = any(f != "source" for f in asg)
        # ---- supplied objects must not change (direct oracle)
        changed_files = set()
        for ch in o["changed"]:
            changed_files.add(ch["file"])
            ctx.violation("input-mutated:%s:%s" % (ch["form"], ch["what"]),
                          "the %s supplied for %s was modified by compilation (%s)" % (ch["form"], ch["file"], ch["what"]),
                          dict(rep, changed={k: ch[k] for k in ch if k in ("file", "form", "what")}))
        errs = o["errs"]
        ok = not any(errs)
        klass = ("accepted" if ok else "rejected") + ("-concurrent" if c.get("concurrent") else "") + ("-options-everywhere" if pi >= 100000 else "")
        if pi >= 100000 and not ok and all(f == "source" for f in asg):
            stats["option_saturated_rejected_from_source"] = stats.get("option_saturated_rejected_from_source", 0) + 1
        ctx.count((pi, c["mode"], asg, c.get("concurrent", 1)), nontriv, klass)
        stats["accepted" if ok else "rejected"] += 1
        stats["by_mode"][c["mode"]] = stats["by_mode"].get(c["mode"], 0) + 1
        if ok and any(f in CARRIES_SI for f in asg):
            stats["carries_si_by_mode"][c["mode"]] = stats["carries_si_by_mode"].get(c["mode"], 0) + 1
        if any(bool(e) != bool(errs[0]) for e in errs):
            ctx.violation("repeated-compilation-differs", "compiling again on the same supplied objects changes acceptance", dict(rep, errs=errs))
            continue
        key = (pi, c["mode"])
        if all(f == "source" for f in asg) and key not in ref:
            ref[key] = (ok, o["results"][0] if ok else None, errs[0])
        if key not in ref:
            continue
        rok, rres, rerr = ref[key]
        if ok != rok:
            ctx.violation("forms-disagree-on-acceptance", "the program is %s when every file is source and %s with this assignment of forms"
                          % ("accepted" if rok else "rejected", "accepted" if ok else "rejected"), dict(rep, error=errs[0] or rerr))
            continue
        if not ok:
            continue
        rs = o["results"]
        if any(r != rs[0] for r in rs[1:]):
            ctx.violation("repeated-compilation-differs", "compiling again on the same supplied objects gives different descriptors", rep)
        r0 = rs[0]
        obs = []
        for n in c["order"]:
            f = c["forms"][n]
            core_same = r0[n]["core"] == rres[n]["core"]
            both_si = r0[n]["has_si"] and rres[n]["has_si"]
            si_same = (r0[n]["si"] == rres[n]["si"]) if both_si else True
            if not core_same:
                ctx.violation("compiled-descriptor-differs:" + f, "file %s given as %s compiles to a different descriptor than from source" % (n, f),
                              dict(rep, file=n))
            if (f in HAS_AST or f in CARRIES_SI) and c["mode"] != 0:
                # forms with an AST get generated source info; a descriptor that already carries source info keeps it
                # (only SourceInfoNone strips), and the harness attached exactly what the all-source compilation produces
                if not r0[n]["has_si"] or not si_same:
                    ctx.violation("source-info-differs:" + f, "file %s given as %s has %s source info (the mode asks for it; reference: every file given as source)" % (
                        n, f, "no" if not r0[n]["has_si"] else "different"), dict(rep, file=n))
            if c["mode"] == 0 and r0[n]["has_si"]:
                ctx.violation("source-info-present-in-mode-none:" + f, "file %s given as %s carries source info although the mode is SourceInfoNone" % (n, f),
                              dict(rep, file=n))
            obs.append("(mkfobs %s %s %s %s)" % (coq_bool(n in changed_files), coq_bool(r0[n]["has_si"]), coq_bool(core_same), coq_bool(si_same)))
        terms.append("FC [%s] %d [%s]" % ("; ".join("(%s, %s)" % (COQ_FORM[c["forms"][n]], coq_nat_list(d)) for n, d in zip(c["order"], deps)),
                                          c["mode"], "; ".join(obs)))
        meta.append(rep)
    for k in (0, len(cases) // 2, len(cases) - 1):
        c = cases[k][3]
        ctx.sample({"order": c["order"], "forms": c["forms"], "mode": c["mode"], "first_file": c["files"][c["order"][0]][:400]})
    ctx.extra["c09_stats"] = stats
    if stats["accepted"] < 50:
        raise RuntimeError("too few accepted cases: %r" % stats)
    for m in MODES_ALL:
        if stats["carries_si_by_mode"].get(m, 0) < 3:
            raise RuntimeError("too few accepted cases with a source-info-carrying descriptor under mode %d: %r" % (m, stats))
    header = ("From Coq Require Import List NArith Bool.\nImport ListNotations.\n"
              "From PV Require Import Common.Corr Model.Forms.\n")
    # identical (shape, mode, observation) terms are evaluated once
    uniq = {}
    for t, m in zip(terms, meta):
        uniq.setdefault(t, m)
    uterms = list(uniq)
    mism, err = coq_eval_mismatches("cases_C09", header, uterms, "forms_chk", shard_size=300)
    if err:
        raise RuntimeError(err)
    for k in mism:
        ctx.corr_break("forms", uniq[uterms[k]], {"term": uterms[k]})
    ctx.extra["distinct_model_cases"] = len(uterms)
