"""C16 - Shared symbol table: safe concurrent use, same collisions as one compile."""
from vlib import *
import symlib
from symlib import *

ID = "C16"
COQ_FILES = symlib.COQ_FILES + ["Proofs/SymbolsSeq.v", "Props/C16.v"]
PROPS = "Props/C16.v"
THEOREMS_SEQ = ["C16_collision_iff_reported", "C16_reported_eq_has_collision", "C16_partition_equiv", "C16_import_commutes",
                "C16_wf_universe_b_sound", "C16_seq_refines", "C16_failed_eq_has_collision_any_handler",
                "C16_import_commutes_any_handler"]
# with the read lock in Lookup / LookupExtension (3a583125) the full theorems are the claim; before it, the
# refutation for the lookups and the partial theorems for the import paths were
THEOREMS = THEOREMS_SEQ + (["C16r_lock_discipline", "C16r_model_drf"] if LOCK_REPAIRED else
                           ["C16_lock_discipline_refuted", "C16_model_race_witness",
                            "C16_lock_discipline_imports", "C16_model_drf_imports"])
AXIOMS_OK = []
TRUSTED = ["hand-written Gallina model of linker/symbols.go (Model/Symbols.v): sequential model + the same operations as programs of "
           "lock / unlock / map-read / map-write steps with a scheduler choice per step",
           "correspondence harness (harness/cmd/symbols), verif hook linker.VerifSymbolsDump, the Go race detector (observation only)"]
ASSUMPTIONS = ["sync.RWMutex is modelled by its contract (write lock exclusive, read locks shared, not reentrant); writer preference and "
               "the Go memory model are not modelled: model_drf is about the lock steps of the model, the race detector is the "
               "implementation-side observation",
               "partition_equiv / import_commutes are proved for parts imported one after another in any order on the shared table "
               "(sequential sharing); concurrent interleavings of whole imports are explored by the harness only",
               "a source span is reduced to the name of the file that owns it; a fresh handler per call, fail-fast or collect-all (both modelled in the sequential model; the step programs model the fail-fast kind)",
               "files are well-formed descriptors: unique identities, names closed under parents below the package, extendees "
               "defined in the file or its imports (hypothesis wf_universe of the theorems; checked on every generated case)"]

KEY_RACE = "lookup-without-rlock"


def gen_part_case(rng, conc, spin=0):
    fs = gen_universe(rng, rng.range(2, 6), dense=rng.chance(1, 2))
    ids = [f["id"] for f in fs]
    top = [i for i in ids if rng.chance(3, 4)] or [ids[-1]]
    order = rng.shuffle(top)
    nparts = rng.range(1, min(3, len(order)))
    parts = [[] for _ in range(nparts)]
    for i in order:
        parts[rng.below(nparts)].append(i)
    parts = [p for p in parts if p]
    unames, uexts = universe_queries(fs)
    base = {"files": strip_private(fs), "unames": unames, "uexts": uexts}
    together = dict(base, mode="seq", ops=[{"op": "import", "f": i} for i in rng.shuffle(top)])
    if conc:
        split = dict(base, mode="conc", parts=[[{"op": "import", "f": i} for i in p] for p in parts], spin=spin, rounds=8)
    else:
        split = dict(base, mode="seq", ops=[{"op": "import", "f": i} for p in parts for i in p])
    return {"fs": fs, "top": top, "parts": parts, "together": together, "split": split, "conc": conc}


def closure_of(fb, i, acc=None):
    acc = set() if acc is None else acc
    if i not in acc:
        acc.add(i)
        for d in fb[i]["deps"]:
            closure_of(fb, d, acc)
    return acc


def stress_scenarios():
    """Hand-made contention scenarios: many goroutines registering the same new packages, importing
    the same dependency, and registering extension numbers in the same node."""
    out = []
    msgs = ["M", "N", "P", "Q", "b", "c"]
    # S1: k files in one fresh deep package, one goroutine each
    for pkg in ("a.b.c", "a", ""):
        fs = [{"id": i, "pkg": pkg, "deps": [], "msgs": [{"name": msgs[i], "fields": [], "nested": []}], "enums": [], "exts": []}
              for i in range(5)]
        out.append(("same-new-package:" + (pkg or "root"), fs, [[i] for i in range(5)], False))
    # S2: k files importing the same file and extending the same message with different tags
    base = {"id": 0, "pkg": "a.b", "deps": [], "msgs": [{"name": "M", "fields": [], "nested": []}], "enums": [], "exts": []}
    for samepkg in (True, False):
        fs = [base] + [{"id": i, "pkg": ("x" if samepkg else ["x", "y", "d", "p", "q"][i - 1]), "deps": [0], "msgs": [], "enums": [],
                        "exts": [{"name": ["e", "f", "g", "e1", "e2"][i - 1], "extendee": "a.b.M", "tag": 100 + i}]} for i in range(1, 6)]
        out.append(("extensions-same-node:" + ("samepkg" if samepkg else "pkgs"), fs, [[i] for i in range(1, 6)], False))
    # S3: the same with one tag used twice: every repetition must report it
    fs = [base] + [{"id": i, "pkg": ["x", "y", "d", "p", "q"][i - 1], "deps": [0], "msgs": [], "enums": [],
                    "exts": [{"name": "e", "extendee": "a.b.M", "tag": 100 + min(i, 4)}]} for i in range(1, 6)]
    out.append(("extensions-one-duplicate", fs, [[i] for i in range(1, 6)], True))
    # S4: two files with the same name in one new package
    fs = [{"id": i, "pkg": "a.b", "deps": [], "msgs": [{"name": "M" if i < 2 else msgs[i], "fields": [], "nested": []}], "enums": [], "exts": []}
          for i in range(4)]
    out.append(("same-name-same-new-package", fs, [[i] for i in range(4)], True))
    res = []
    for name, fs, parts, collide in out:
        for f in fs:
            pkg = f["pkg"]
            f["_names"] = [full(pkg, m["name"]) for m in f["msgs"]] + [full(pkg, x["name"]) for x in f["exts"]]
            f["_msgs"] = [full(pkg, m["name"]) for m in f["msgs"]]
        unames, uexts = universe_queries(fs)
        uexts = [{"msg": x["msg"], "tag": t} for x in uexts[::3] for t in range(100, 107)]
        res.append((name, collide, {"mode": "stress", "files": strip_private(fs), "unames": unames, "uexts": uexts,
                                    "parts": [[{"op": "import", "f": i} for i in p] for p in parts], "spin": 1 if LOCK_REPAIRED else 0}))
    return res


def judge_stress(ctx, name, collide, inp, o, race=False):
    if "builderr" in o:
        raise RuntimeError("stress scenario rejected by protodesc: %s %s" % (name, o["builderr"]))
    if "crash" in o or "panic" in o:
        ft = fatal_of(o)
        if ft:
            ctx.violation(ft[0], ft[1] + " (contention scenario %s)" % name, {"scenario": name, "input": inp, "observed": o})
        else:
            ctx.violation("panic", "implementation panicked or crashed in the contention scenario " + name, {"scenario": name, "input": inp, "observed": o})
        return
    ctx.count(("stress", name, race, inp["reps"]), True, "stress" + ("-race" if race else ""))
    replay = {"scenario": name, "files": inp["files"], "parts": inp["parts"], "reps": inp["reps"], "observed": o}
    if o["ref_err"] != collide:
        ctx.corr_break("symbols:stress", replay, {"note": "sequential reference run: collision expected %s" % collide})
    if collide and o["reps_with_error"] != o["reps"]:
        ctx.violation("partition-collision-mismatch", "%d of %d concurrent repetitions report no collision although the files collide (%s)"
                      % (o["reps"] - o["reps_with_error"], o["reps"], name), replay)
    if not collide and o["reps_with_error"]:
        ctx.violation("partition-collision-mismatch", "%d of %d concurrent repetitions report a collision although there is none (%s)"
                      % (o["reps_with_error"], o["reps"], name), replay)
    if not collide and o["reps_with_other_lookups"]:
        ctx.violation("partition-final-table-mismatch", "%d of %d concurrent repetitions end with lookups that differ from the sequential import (%s)"
                      % (o["reps_with_other_lookups"], o["reps"], name), replay)


def results_of(out, mode):
    if mode == "seq":
        return [st["res"] for st in out["steps"]], out["steps"][-1]["look"]
    return [r for part in out["results"] for r in part], out["look"]


def run(ctx):
    rng = ctx.rng
    ctx.rule = ("universes of 2..6 generated descriptor files with planted name / package-vs-name / extension-number collisions; a "
                "random subset is imported (a) all together on a fresh table and (b) split into 1..3 parts that share one table, "
                "sequentially or as concurrent goroutines with concurrent Lookup/LookupExtension callers; compared: was a collision "
                "reported, and when none was, every lookup of the universe; the same through protocompile.Compiler with a shared "
                "Symbols on rendered sources; a shard of the concurrent cases runs under the race detector; distinct = distinct "
                "(files, partition, mode); non-trivial = at least two parts or a collision")
    cases = []
    for k in range(ctx.budget(200, 3000)):
        # concurrent lookups in the plain build only once Lookup takes the read lock: on the pinned code they can
        # abort the whole process (Go runtime: concurrent map read and map write); the race shard below restarts
        cases.append(gen_part_case(rng, conc=(k % 2 == 1), spin=(1 if (k % 4 == 3 and LOCK_REPAIRED) else 0)))
    # every case runs under one of four variants: fail-fast or collect-all handler x files as protodesc
    # descriptors (importFile path) or as compiled linker.Result values (importResult path)
    VARIANTS = [("strict", "desc"), ("collect", "desc"), ("strict", "result"), ("collect", "result")]
    ins = []
    for k, c in enumerate(cases):
        h, kind = VARIANTS[(k // 2) % 4]
        c["variant"] = (h, kind)
        c["together"] = with_variant(c["together"], h, kind)
        c["split"] = with_variant(c["split"], h, kind)
        ins += [c["together"], c["split"]]
    outs = ctx.impl("symbols", ins)
    terms, meta = [], []
    nbuilderr = 0
    for k, c in enumerate(cases):
        ot, os_ = outs[2 * k], outs[2 * k + 1]
        if "builderr" in ot or "builderr" in os_:
            nbuilderr += 1
            continue
        bad = [o for o in (ot, os_) if "crash" in o or "panic" in o]
        if bad:
            ctx.corr_break("symbols:part", {"files": c["together"]["files"], "parts": c["parts"]}, bad[0])
            ctx.violation("panic", "implementation panicked or crashed", {"files": c["together"]["files"], "parts": c["parts"], "observed": bad[0]})
            continue
        rt, lt = results_of(ot, "seq")
        rs, ls = results_of(os_, c["split"]["mode"])
        et = any(op_failed(r) for r in rt)
        es = any(op_failed(r) for r in rs)
        ctx.count((json.dumps(c["together"]["files"], sort_keys=True), json.dumps(c["parts"]), c["conc"], c["variant"]),
                  len(c["parts"]) > 1 or et, "%s/%s:" % c["variant"] + ("conc" if c["conc"] else "seq") + ("-collision" if et else "-clean"))
        replay = {"handler": c["variant"][0], "files_as": c["variant"][1],
                  "files": c["together"]["files"], "together_order": [o["f"] for o in c["together"]["ops"]],
                  "parts": c["parts"], "concurrent": c["conc"], "together_results": rt, "parts_results": rs}
        # direct oracle: the property on the implementation
        if et != es:
            ctx.violation("partition-collision-mismatch",
                          "importing the files together reports %s collision, importing them in parts sharing the table reports %s"
                          % ("a" if et else "no", "a" if es else "no"), replay)
        elif not et and lt != ls:
            ctx.violation("partition-final-table-mismatch", "no collision, but the lookups after the partitioned import differ from the "
                          "lookups after importing together", dict(replay, together_look=lt, parts_look=ls))
        # correspondence with the model (spec-level collision predicate and final lookups)
        walks = ot["walks"]
        mk = coq_part_case if c["variant"] == ("strict", "desc") else coq_partH_case
        terms.append(mk(c["together"], walks, [o["f"] for o in c["together"]["ops"]], et, lt))
        meta.append((c, "together", replay))
        if not c["conc"]:       # a concurrent run is not a run of the sequential model: only the oracle above judges it
            terms.append(mk(c["together"], walks, [i for p in c["parts"] for i in p], es, ls))
            meta.append((c, "parts", replay))
        else:
            terms.append(mk(c["together"], walks, [i for p in c["parts"] for i in p], es, ls if not es else lt))
            meta.append((c, "parts-concurrent", replay))
    ctx.extra["generator_rejected_by_protodesc"] = nbuilderr
    for c in cases[:3]:
        ctx.sample({"files": c["together"]["files"], "parts": c["parts"], "concurrent": c["conc"]})
    mism, err = coq_eval_mismatches("cases_C16", HEADER, terms, CHK, shard_size=ctx.budget(40, 250))
    if err:
        raise RuntimeError(err)
    for k in mism:
        c, which, replay = meta[k]
        ctx.corr_break("symbols:part:" + which, replay, {"note": "has_collision / final lookups of the model differ from the observation"})

    # the same property through whole compilations sharing a Symbols.  Three runs per case: all files in one
    # Compile; the parts one after another, later parts resolving already compiled files to those results
    # (reuse); the parts (sequentially or concurrently) each compiling everything it needs from source
    ccases = []
    for k in range(ctx.budget(40, 600)):
        c = gen_part_case(rng, conc=(k % 2 == 0), spin=(1 if (k % 4 == 0 and LOCK_REPAIRED) else 0))
        srcs = {"f%d.proto" % f["id"]: render_proto(f) for f in c["fs"]}
        base = {"mode": "compile", "sources": srcs, "unames": c["together"]["unames"], "uexts": c["together"]["uexts"]}
        pp = [["f%d.proto" % i for i in p] for p in c["parts"]]
        ccases.append((c, dict(base, parts=[["f%d.proto" % i for i in c["top"]]], concurrent=False),
                       dict(base, parts=pp, concurrent=False, reuse=True),
                       dict(base, parts=pp, concurrent=c["conc"], spin=c["split"].get("spin", 0))))
    couts = ctx.impl("symbols", [x for c in ccases for x in c[1:]])
    nother = 0
    fbid = lambda c: {f["id"]: f for f in c["fs"]}
    for k, (c, a, b1, b2) in enumerate(ccases):
        oa = couts[3 * k]
        for b, ob, mode in ((b1, couts[3 * k + 1], "reuse"), (b2, couts[3 * k + 2], "fromsource")):
            if any("crash" in o or "panic" in o for o in (oa, ob)):
                ctx.violation("panic", "compilation panicked or crashed", {"sources": a["sources"], "parts": b["parts"], "observed": [oa, ob]})
                continue
            ea = [r for r in oa["results"] if r["e"] != "ok"]
            eb = [r for r in ob["results"] if r["e"] != "ok"]
            if any(r["e"] == "other" for r in ea + eb):
                nother += 1          # an error that is not a symbol / extension collision: outside the property
                continue
            ctx.count(("compile", mode, json.dumps(a["sources"], sort_keys=True), json.dumps(b["parts"]), b["concurrent"]),
                      len(b["parts"]) > 1 or bool(ea), "compile-%s-%s" % (mode, "collision" if ea else "clean"))
            cl = [set().union(*[closure_of(fbid(c), i) for i in p]) for p in c["parts"]]
            shared = any(cl[i] & cl[j] for i in range(len(cl)) for j in range(i + 1, len(cl)))
            replay = {"sources": a["sources"], "together": a["parts"], "parts": b["parts"], "concurrent": b["concurrent"],
                      "reuse_compiled_files": mode == "reuse", "together_results": oa["results"], "parts_results": ob["results"]}
            if bool(ea) != bool(eb):
                key = "compile-partition-collision-mismatch"
                what = ("compiling the files together reports %s collision, compiling them in parts sharing the Symbols reports %s"
                        % ("a" if ea else "no", "a" if eb else "no"))
                if mode == "fromsource" and shared and eb and not ea:
                    key = "shared-dependency-recompiled"
                    what += " (a file needed by two parts is compiled by both; its second descriptor collides with the first)"
                ctx.violation(key, what, replay)
            elif not ea and oa["look"] != ob["look"]:
                ctx.violation("compile-partition-final-table-mismatch", "no collision, but the lookups differ",
                              dict(replay, together_look=oa["look"], parts_look=ob["look"]))
    ctx.extra["compile_cases_with_other_errors"] = nother

    # contention scenarios, many repetitions each (plain build)
    scen = stress_scenarios()
    sins = [dict(inp, reps=ctx.budget(400, 20000)) for _, _, inp in scen]
    souts = ctx.impl("symbols", sins, shards=min(len(sins), NCPU))
    for (name, collide, _), inp, o in zip(scen, sins, souts):
        judge_stress(ctx, name, collide, inp, o)

    # race detector shard: concurrent imports and lookups on one table
    rcases = [gen_part_case(rng, conc=True, spin=2) for _ in range(ctx.budget(24, 200))]
    rsins = [dict(inp, reps=ctx.budget(6, 200), spin=1) for _, _, inp in scen]
    routs, reports = run_race(ctx, [c["split"] for c in rcases] + rsins)
    nrace = 0
    for (name, collide, _), inp, o, rep in zip(scen, rsins, routs[len(rcases):], reports[len(rcases):]):
        judge_stress(ctx, name, collide, inp, o, race=True)
        for block in split_reports(rep):
            nrace += 1
            key, frames = classify_race(block)
            ctx.violation(key, "the race detector reports a data race between %s (contention scenario %s)" % (" and ".join(frames or ["?"]), name),
                          {"scenario": name, "files": inp["files"], "parts": inp["parts"], "race_report": block.strip()[:6000]})
    for c, o, rep in zip(rcases, routs, reports):
        if "builderr" in o:
            continue
        ctx.count(("race", json.dumps(c["together"]["files"], sort_keys=True), json.dumps(c["parts"])), True, "race-shard")
        if "crash" in o or "panic" in o:
            ft = fatal_of(o)
            ctx.violation(ft[0] if ft else "panic", ft[1] if ft else "race build crashed",
                          {"files": c["together"]["files"], "parts": c["parts"], "observed": o})
            continue
        for block in split_reports(rep):
            nrace += 1
            key, frames = classify_race(block)
            ctx.violation(key, "the race detector reports a data race between %s" % " and ".join(frames or ["?"]),
                          {"files": c["together"]["files"], "parts": c["split"]["parts"], "spin": c["split"]["spin"],
                           "race_report": block.strip()[:6000]})
    ctx.extra["race_reports"] = nrace
